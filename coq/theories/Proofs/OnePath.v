(* C10 for the single-path API (ManifestRecursiveLoader.update_entry_for_path): whatever the path, the requested entry
   type and the hash set, the DIST and TIMESTAMP entries of every Manifest that was loaded before the call are exactly what
   they were - same entries, same order.  (The function refreshes, removes and appends file entries only.) *)
From Coq Require Import List NArith ZArith Bool Lia.
From Gemato Require Import Py.PyStr Py.PyPath Py.PyTime Gen.Tables Gen.Util Gen.Profile
  Model.Entry Model.Text Model.OpenPGP Model.Hash Model.FS Model.Verify Model.Loader Model.Update.
From Gemato Require Import Proofs.Basics Proofs.SortTheory.
Import ListNotations.
Open Scope N_scope.

Definition dt (e : entry) : bool := match e_tag e with TDIST | TTIMESTAMP => true | _ => false end.
Definition dtv (m : mfile) : list entry := filter dt (map snd (mf_entries m)).
(* every Manifest loaded in [l] is still loaded in [l'] with the same DIST / TIMESTAMP entries *)
Definition pres (l l' : loader) : Prop :=
  forall mp m, get_m l mp = Some m -> exists m', get_m l' mp = Some m' /\ dtv m' = dtv m.

Lemma pres_refl l : pres l l.
Proof. intros mp m H. exists m. split; [exact H|reflexivity]. Qed.
Lemma pres_trans a b c : pres a b -> pres b c -> pres a c.
Proof.
  intros H1 H2 mp m H. destruct (H1 mp m H) as [m1 [E1 D1]]. destruct (H2 mp m1 E1) as [m2 [E2 D2]].
  exists m2. split; [exact E2|congruence].
Qed.
Lemma pres_same_loaded l l' : l_loaded l' = l_loaded l -> pres l l'.
Proof. intros E mp m H. exists m. unfold get_m in *. rewrite E. split; [exact H|reflexivity]. Qed.

Lemma get_put_same l mp m : get_m (put_m l mp m) mp = Some m.
Proof. unfold get_m, put_m. cbn. apply dict_set_get. Qed.
Lemma get_put_other l mp m mp' : mp' <> mp -> get_m (put_m l mp m) mp' = get_m l mp'.
Proof. intros H. unfold get_m, put_m. cbn. apply dict_set_other. apply ustr_eqb_neq. exact H. Qed.

Lemma pres_put l mp m0 m1 : get_m l mp = Some m0 -> dtv m1 = dtv m0 -> pres l (put_m l mp m1).
Proof.
  intros H0 Hd mp' m H. destruct (list_eq_dec N.eq_dec mp' mp) as [->|Hne].
  - exists m1. rewrite get_put_same. split; [reflexivity|congruence].
  - exists m. rewrite get_put_other by exact Hne. split; [exact H|reflexivity].
Qed.

Lemma add_updated_loaded l p : l_loaded (add_updated l p) = l_loaded l.
Proof. unfold add_updated. destruct (mem_str p (l_updated l)); reflexivity. Qed.
Lemma pres_add_updated l l' p : pres l l' -> pres l (add_updated l' p).
Proof. intros H. eapply pres_trans; [exact H|]. apply pres_same_loaded. apply add_updated_loaded. Qed.

(* ---- the three mutators -------------------------------------------------------------------------- *)
Lemma set_id_dtv es id e e' : find_id es id = Some e -> dt e = false -> dt e' = false ->
  filter dt (map snd (set_id es id e')) = filter dt (map snd es).
Proof.
  induction es as [|[j x] es IH]; intros H He He'; [discriminate|]. cbn [find_id set_id] in *.
  destruct (id =? j).
  - inversion H; subst. cbn [map snd filter]. rewrite He, He'. reflexivity.
  - cbn [map snd filter]. rewrite IH by assumption. reflexivity.
Qed.

Lemma set_entry_at_pres l mp id e e' : entry_at l mp id = Some e -> dt e = false -> dt e' = false ->
  pres l (set_entry_at l mp id e').
Proof.
  unfold entry_at, set_entry_at. intros H He He'.
  destruct (get_m l mp) as [m|] eqn:Em; [|apply pres_same_loaded; reflexivity].
  destruct (find_id (mf_entries m) id) as [x|] eqn:Ef; [|apply pres_same_loaded; reflexivity].
  inversion H; subst x. eapply pres_put; [exact Em|]. unfold dtv. cbn [mf_entries].
  eapply set_id_dtv; eassumption.
Qed.

Lemma append_entry_pres l mp e : dt e = false -> pres l (append_entry l mp e).
Proof.
  intros He. unfold append_entry. destruct (get_m l mp) as [m|] eqn:Em; [|apply pres_refl].
  eapply pres_trans; [eapply pres_put; [exact Em|]|apply pres_same_loaded; reflexivity].
  unfold dtv. cbn [mf_entries]. rewrite map_app, filter_app. cbn [map snd filter]. rewrite He. apply app_nil_r.
Qed.

Lemma entry_eqb_tag a b : entry_eqb a b = true -> e_tag a = e_tag b.
Proof.
  destruct a as [x|p|t p a s c], b as [y|q|t' p' a' s' c']; cbn; try discriminate; try reflexivity.
  intros H. apply andb_true_iff in H. destruct H as [H _]. apply andb_true_iff in H. destruct H as [H _].
  apply andb_true_iff in H. destruct H as [H _]. apply tag_str_inj. exact H.
Qed.

Lemma remove_eq_dtv es x : dt x = false -> forall es' d, remove_eq es x = Some (es', d) ->
  filter dt (map snd es') = filter dt (map snd es).
Proof.
  intros Hx. induction es as [|[j e] es IH]; intros es' d H; [discriminate|]. cbn [remove_eq] in H.
  destruct (entry_eqb e x) eqn:E.
  - inversion H; subst. cbn [map snd filter]. apply entry_eqb_tag in E. unfold dt in *. rewrite E, Hx. reflexivity.
  - destruct (remove_eq es x) as [[r' d']|] eqn:Er; [|discriminate]. inversion H; subst.
    cbn [map snd filter]. rewrite (IH _ _ eq_refl). reflexivity.
Qed.

Lemma remove_entry_eq_pres l mp x l' : dt x = false -> remove_entry_eq l mp x = Ok l' -> pres l l'.
Proof.
  intros Hx. unfold remove_entry_eq. destruct (get_m l mp) as [m|] eqn:Em; [|discriminate].
  destruct (remove_eq (mf_entries m) x) as [[es d]|] eqn:Er; [|discriminate].
  intros H. inversion H; subst. eapply pres_trans; [eapply pres_put; [exact Em|]|apply pres_same_loaded; reflexivity].
  unfold dtv. cbn [mf_entries]. eapply remove_eq_dtv; eassumption.
Qed.

Lemma remove_all_pres mp rm : Forall (fun e => dt e = false) rm -> forall l l',
  fold_left (fun (acc : res loader) e => l0 <- acc ;; remove_entry_eq l0 mp e) rm (Ok l) = Ok l' -> pres l l'.
Proof.
  induction rm as [|e rm IH]; intros Hrm l l' H; [inversion H; apply pres_refl|].
  inversion Hrm as [|? ? He Hr]; subst. cbn [fold_left bind] in H.
  destruct (remove_entry_eq l mp e) as [l1|] eqn:E.
  - eapply pres_trans; [eapply remove_entry_eq_pres; eassumption|]. apply IH; assumption.
  - exfalso. clear -H. induction rm as [|y rm IHr]; [discriminate|]. cbn [fold_left bind] in H. apply IHr. exact H.
Qed.

(* ---- loading only adds ----------------------------------------------------------------------------- *)
Section Load.
  Variable L : hashlib.
  Variable decompress : list N -> list N -> res (list N).
  Variable pgp_verify : list N -> res sigdata.
  Notation load_manifest := (load_manifest L decompress pgp_verify).

  Lemma load_manifest_frame w l rp ve ac sd l' m : load_manifest w l rp ve ac sd = Ok (l', m) ->
    forall mp, mp <> rp -> get_m l' mp = get_m l mp.
  Proof.
    unfold Loader.load_manifest. intros H mp Hne.
    destruct (verify_and_load L decompress pgp_verify w l rp ve) as [[[es sg] st]|ex].
    - destruct (number_entries es (l_next l)) as [ids nx]. cbn [bind] in H.
      inversion H; subst. unfold get_m. destruct sd; cbn; apply dict_set_other; apply ustr_eqb_neq; exact Hne.
    - destruct ex; try discriminate. destruct e; try discriminate. destruct ac; [|discriminate].
      destruct (p_stat w (dirname (pjoin rootdir rp))) as [st|]; cbn [bind] in H; [|discriminate].
      destruct (number_entries _ _) as [ids nx]. cbn [bind] in H. inversion H; subst.
      unfold get_m. destruct sd; cbn; rewrite ?add_updated_loaded; apply dict_set_other; apply ustr_eqb_neq; exact Hne.
  Qed.

  Lemma load_list_frame w tl : forall l l', load_list L decompress pgp_verify w l tl = Ok l' ->
    forall mp, ~ In mp (map fst tl) -> get_m l' mp = get_m l mp.
  Proof.
    induction tl as [|[mpath ve] tl IH]; intros l l' H mp Hn; [inversion H; reflexivity|].
    cbn [load_list] in H. destruct (load_manifest w l mpath ve false false) as [[l1 m]|] eqn:E; cbn [bind] in H; [|discriminate].
    rewrite (IH l1 l' H mp) by (intros Hi; apply Hn; right; exact Hi).
    eapply load_manifest_frame; [exact E|]. intros ->. apply Hn. left. reflexivity.
  Qed.

  Lemma to_load_fresh l path rec v x : In x (map fst (to_load l path rec v)) -> get_m l x = None.
  Proof.
    unfold to_load. intros H. apply in_map_iff in H. destruct H as [[mp ve] [<- H]]. cbn [fst].
    apply in_flat_map in H. destruct H as [[[cur rp] m] [_ H]]. apply in_flat_map in H. destruct H as [e [_ H]].
    destruct e as [d|p|t p a s c]; try destruct H. destruct t; try destruct H.
    destruct (ustr_eqb cur (pjoin rp p) || match assoc (pjoin rp p) (l_loaded l) with Some _ => true | None => false end) eqn:E; [destruct H|].
    apply orb_false_iff in E. destruct E as [_ E].
    destruct (path_starts_with path (dirname (pjoin rp p)) || rec && path_starts_with (dirname (pjoin rp p)) path); [|destruct H].
    destruct H as [H|[]]. inversion H; subst. unfold get_m. destruct (assoc (pjoin rp p) (l_loaded l)); [discriminate|reflexivity].
  Qed.

  Lemma load_manifests_pres fuel w : forall l path rec v l',
    load_manifests_for_path L decompress pgp_verify fuel w l path rec v = Ok l' -> pres l l'.
  Proof.
    induction fuel as [|f IH]; intros l path rec v l' H; [discriminate|]. cbn [load_manifests_for_path] in H.
    destruct (to_load l path rec v) as [|x tl] eqn:Et; [inversion H; apply pres_refl|].
    destruct (load_list L decompress pgp_verify w l (x :: tl)) as [l1|] eqn:El; cbn [bind] in H; [|discriminate].
    eapply pres_trans; [|eapply IH; exact H].
    intros mp m Hm. exists m. split; [|reflexivity]. rewrite (load_list_frame w _ _ _ El mp); [exact Hm|].
    intros Hin. rewrite <- Et in Hin. apply to_load_fresh in Hin. congruence.
  Qed.

  (* ---- update_entry_for_path ----------------------------------------------------------------------- *)
  Lemma assoc_In {A} k (l : list (ustr * A)) v : assoc k l = Some v -> In (k, v) l.
  Proof.
    induction l as [|[k' v'] l IH]; [discriminate|]. cbn [assoc]. destruct (ustr_eqb k k') eqn:E.
    - apply ustr_eqb_eq in E. subst. intros H. inversion H; subst. left. reflexivity.
    - intros H. right. apply IH. exact H.
  Qed.

  Lemma lookup_tag_dist ty : lookup_tag ty = Some TDIST -> ty = tag_str TDIST.
  Proof.
    unfold lookup_tag. destruct (assoc ty tag_mapping) as [cls|] eqn:E; [|discriminate].
    apply assoc_In in E. unfold tag_mapping in E. cbn [In] in E.
    repeat (destruct E as [E|E]; [inversion E; subst; vm_compute; intros H; first [discriminate H|reflexivity]|]).
    destruct E.
  Qed.

  Lemma mk_new_entry_dt ty p e : ustr_eqb ty (tag_str TDIST) = false -> mk_new_entry ty p = Ok e -> dt e = false.
  Proof.
    unfold mk_new_entry. intros Hd. destruct (lookup_tag ty) as [t|] eqn:El; [|discriminate].
    destruct t; intros H; inversion H; subst; try reflexivity.
    apply lookup_tag_dist in El. subst. rewrite ustr_eqb_refl in Hd. discriminate.
  Qed.

  Lemma with_size_cks_dt e s c : dt (with_size_cks e s c) = dt e.
  Proof. destruct e; reflexivity. Qed.

  Theorem update_one_path_pres w l path ty hs l' :
    update_one_path L decompress pgp_verify w l path ty hs = Ok l' -> pres l l'.
  Proof.
    unfold update_one_path.
    destruct (load_manifests_for_path L decompress pgp_verify rounds_fuel w l path false true) as [l1|] eqn:El; cbn [bind]; [|discriminate].
    pose proof (load_manifests_pres _ _ _ _ _ _ _ El) as P1.
    set (hashes := match hs with Some h => Some h | None => o_hashes (l_opts l) end).
    (* the loop over the Manifests *)
    match goal with |- (r <- fold_left ?F ?items ?init ;; _) = _ -> _ => set (F0 := F); set (items0 := items) end.
    assert (Loop : forall items la had r, pres l la -> fold_left F0 items (Ok (la, had)) = Ok r -> pres l (fst r)).
    { induction items as [|[[mpath relp] m] items IH]; intros la had r Pa H; [inversion H; exact Pa|].
      cbn [fold_left] in H.
      destruct (F0 (Ok (la, had)) (mpath, relp, m)) as [[lb hb]|] eqn:Eb.
      - eapply IH; [|exact H]. clear IH H. unfold F0 in Eb. cbn [bind] in Eb.
        match type of Eb with (r1 <- fold_left ?G ?es ?i0 ;; _) = _ => set (G0 := G) in Eb end.
        assert (Inner : forall es l0 had0 rm r1, pres l l0 -> Forall (fun e => dt e = false) rm ->
                  fold_left G0 es (Ok (l0, had0, rm)) = Ok r1 ->
                  pres l (fst (fst r1)) /\ Forall (fun e => dt e = false) (snd r1)).
        { induction es as [|ie es IHe]; intros l0 had0 rm r1 P0 Hrm H; [inversion H; split; assumption|].
          cbn [fold_left] in H.
          destruct (G0 (Ok (l0, had0, rm)) ie) as [[[l2 h2] rm2]|] eqn:E2.
          - assert (P2 : pres l l2 /\ Forall (fun e => dt e = false) rm2).
            { unfold G0 in E2. cbn [bind] in E2.
              destruct (entry_at l0 mpath (fst ie)) as [e|] eqn:Ee; [|inversion E2; subst; split; assumption].
              destruct (e_tag e) eqn:Et.
              + (* TIMESTAMP *) inversion E2; subst; split; assumption.
              + (* MANIFEST *)
                assert (De : dt e = false) by (unfold dt; rewrite Et; reflexivity).
                destruct (negb (ustr_eqb (pjoin relp (e_path e)) path)); [inversion E2; subst; split; assumption|].
                destruct had0; [inversion E2; subst; split; [assumption|apply Forall_app; split; [assumption|constructor; [exact De|constructor]]]|].
                destruct (Verify.update_entry_for_path L w (pjoin rootdir (pjoin relp (e_path e))) e hashes (l_dev l0) None) as [[[ch sz] ck]|ex].
                * inversion E2; subst. split; [|assumption]. apply pres_add_updated. eapply pres_trans; [exact P0|].
                  eapply set_entry_at_pres; [exact Ee|exact De|rewrite with_size_cks_dt; exact De].
                * destruct ex; try discriminate. destruct (ustr_eqb what s_exists); [|discriminate].
                  inversion E2; subst. split; [assumption|apply Forall_app; split; [assumption|constructor; [exact De|constructor]]].
              + (* IGNORE *) destruct (path_starts_with path (pjoin relp (e_path e))); [discriminate|]. inversion E2; subst; split; assumption.
              + (* DATA *)
                assert (De : dt e = false) by (unfold dt; rewrite Et; reflexivity).
                destruct (negb (ustr_eqb (pjoin relp (e_path e)) path)); [inversion E2; subst; split; assumption|].
                destruct had0; [inversion E2; subst; split; [assumption|apply Forall_app; split; [assumption|constructor; [exact De|constructor]]]|].
                destruct (Verify.update_entry_for_path L w (pjoin rootdir (pjoin relp (e_path e))) e hashes (l_dev l0) None) as [[[ch sz] ck]|ex].
                * inversion E2; subst. split; [|assumption]. apply pres_add_updated. eapply pres_trans; [exact P0|].
                  eapply set_entry_at_pres; [exact Ee|exact De|rewrite with_size_cks_dt; exact De].
                * destruct ex; try discriminate. destruct (ustr_eqb what s_exists); [|discriminate].
                  inversion E2; subst. split; [assumption|apply Forall_app; split; [assumption|constructor; [exact De|constructor]]].
              + (* DIST *) inversion E2; subst; split; assumption.
              + (* EBUILD *)
                assert (De : dt e = false) by (unfold dt; rewrite Et; reflexivity).
                destruct (negb (ustr_eqb (pjoin relp (e_path e)) path)); [inversion E2; subst; split; assumption|].
                destruct had0; [inversion E2; subst; split; [assumption|apply Forall_app; split; [assumption|constructor; [exact De|constructor]]]|].
                destruct (Verify.update_entry_for_path L w (pjoin rootdir (pjoin relp (e_path e))) e hashes (l_dev l0) None) as [[[ch sz] ck]|ex].
                * inversion E2; subst. split; [|assumption]. apply pres_add_updated. eapply pres_trans; [exact P0|].
                  eapply set_entry_at_pres; [exact Ee|exact De|rewrite with_size_cks_dt; exact De].
                * destruct ex; try discriminate. destruct (ustr_eqb what s_exists); [|discriminate].
                  inversion E2; subst. split; [assumption|apply Forall_app; split; [assumption|constructor; [exact De|constructor]]].
              + (* MISC *)
                assert (De : dt e = false) by (unfold dt; rewrite Et; reflexivity).
                destruct (negb (ustr_eqb (pjoin relp (e_path e)) path)); [inversion E2; subst; split; assumption|].
                destruct had0; [inversion E2; subst; split; [assumption|apply Forall_app; split; [assumption|constructor; [exact De|constructor]]]|].
                destruct (Verify.update_entry_for_path L w (pjoin rootdir (pjoin relp (e_path e))) e hashes (l_dev l0) None) as [[[ch sz] ck]|ex].
                * inversion E2; subst. split; [|assumption]. apply pres_add_updated. eapply pres_trans; [exact P0|].
                  eapply set_entry_at_pres; [exact Ee|exact De|rewrite with_size_cks_dt; exact De].
                * destruct ex; try discriminate. destruct (ustr_eqb what s_exists); [|discriminate].
                  inversion E2; subst. split; [assumption|apply Forall_app; split; [assumption|constructor; [exact De|constructor]]].
              + (* AUX *)
                assert (De : dt e = false) by (unfold dt; rewrite Et; reflexivity).
                destruct (negb (ustr_eqb (pjoin relp (e_path e)) path)); [inversion E2; subst; split; assumption|].
                destruct had0; [inversion E2; subst; split; [assumption|apply Forall_app; split; [assumption|constructor; [exact De|constructor]]]|].
                destruct (Verify.update_entry_for_path L w (pjoin rootdir (pjoin relp (e_path e))) e hashes (l_dev l0) None) as [[[ch sz] ck]|ex].
                * inversion E2; subst. split; [|assumption]. apply pres_add_updated. eapply pres_trans; [exact P0|].
                  eapply set_entry_at_pres; [exact Ee|exact De|rewrite with_size_cks_dt; exact De].
                * destruct ex; try discriminate. destruct (ustr_eqb what s_exists); [|discriminate].
                  inversion E2; subst. split; [assumption|apply Forall_app; split; [assumption|constructor; [exact De|constructor]]]. }
            destruct P2 as [P2 R2]. eapply IHe; eassumption.
          - exfalso. clear -H. induction es as [|y es IHr]; [discriminate|]. cbn [fold_left] in H. apply IHr. exact H. }
        destruct (fold_left G0 (mf_entries m) (Ok (la, had, []))) as [[[l2 h2] rm]|] eqn:Ei; cbn [bind] in Eb; [|discriminate].
        destruct (Inner _ _ _ _ _ Pa (Forall_nil _) Ei) as [P2 R2]. cbn [fst snd] in P2, R2.
        destruct rm as [|x rm]; [inversion Eb; subst; exact P2|].
        match type of Eb with (l3 <- ?X ;; _) = _ => destruct X as [l3|] eqn:E3; cbn [bind] in Eb; [|discriminate] end.
        inversion Eb; subst. cbn [fst]. apply pres_add_updated. eapply pres_trans; [exact P2|].
        eapply remove_all_pres; [exact R2|exact E3].
      - exfalso. clear -H. induction items as [|y items IHr]; [discriminate|]. cbn [fold_left] in H. apply IHr. exact H. }
    destruct (fold_left F0 items0 (Ok (l1, false))) as [[l4 had]|] eqn:Ef; cbn [bind]; [|discriminate].
    pose proof (Loop _ _ _ _ P1 Ef) as P4. cbn [fst] in P4.
    destruct had; [intros H; inversion H; subst; exact P4|].
    destruct hashes as [hh|]; [|discriminate].
    destruct (iter_manifests l4 path false) as [|[[mpath mdir] m0] rest]; [intros H; inversion H; subst; exact P4|].
    destruct (ustr_eqb ty (tag_str TDIST)) eqn:Ed; [discriminate|]. cbn [orb].
    destruct (ustr_eqb ty (tag_str TIGNORE)) eqn:Eg; [discriminate|].
    match goal with |- (np <- ?X ;; _) = _ -> _ => destruct X as [np|]; cbn [bind]; [|discriminate] end.
    destruct (mk_new_entry ty np) as [e|] eqn:Em; cbn [bind]; [|discriminate].
    destruct (Verify.update_entry_for_path L w (pjoin rootdir path) e (Some hh) (l_dev l4) None) as [[[ch sz] ck]|]; cbn [bind]; [|discriminate].
    intros H. inversion H; subst. apply pres_add_updated. eapply pres_trans; [exact P4|].
    apply append_entry_pres. rewrite with_size_cks_dt. eapply mk_new_entry_dt; eassumption.
  Qed.
End Load.
