(* C06 for the update / create walk, through the whole walk: an update that returns has listed and inspected every directory it
   reached - from the start, through listed sub-directories that are not hidden and have no entry in the de-duplicated dictionary it
   starts from: a directory that cannot be listed or inspected is
   never skipped as if it were empty or absent, the update fails with that error instead (and update_entries_for_directory has no
   way to write: its result is a loader, the file system is not among its results). *)
From Coq Require Import List NArith ZArith Bool Lia Arith.
From Gemato Require Import Py.PyStr Py.PyPath Gen.Tables Model.Entry Model.Text Model.OpenPGP Model.Hash Model.FS
  Model.Verify Model.Loader Model.Update.
From Gemato Require Import Proofs.Basics Proofs.WalkTerm Proofs.WalkComplete Proofs.UpdateTerm Proofs.NoLoop Proofs.NoLoopTop
  Proofs.Once Proofs.DictWf Proofs.NoLoopUpd.
Import ListNotations.
Open Scope N_scope.

Section UL.
  Variable L : hashlib.
  Variable decompress : list N -> list N -> res (list N).
  Variable pgp_verify : list N -> res sigdata.
  Variable w : world.
  Variable ed0 : ddict.

  Notation walk := (walk_update L decompress pgp_verify).

  Definition listed_ok (X : list N) : Prop := exists ents st, p_scandir w X = Ok ents /\ p_stat w X = Ok st.

  Lemma walk_listed_upd f : forall X rel nm hashes lm s s',
    walk f w X rel nm hashes lm s = Ok s' -> ed_sub (us_ed s) ed0 ->
    forall anc X' rel' anc', reachu w ed0 X rel anc X' rel' anc' -> listed_ok X'.
  Proof.
    induction f as [|f IH]; intros X rel nm hashes lm s s' H Hsub anc X' rel' anc' Hr; [discriminate|].
    cbn [walk_update] in H.
    destruct (p_scandir w X) as [ents|] eqn:Es; cbn [bind] in H; [|discriminate].
    destruct (p_stat w X) as [dst|] eqn:Et; cbn [bind] in H; [|discriminate].
    destruct (match l_dev (us_l s) with Some d => negb (st_dev dst =? d) | None => false end) eqn:Exd; [discriminate|].
    destruct (existsb _ _); [discriminate|].
    destruct (pop_until _ _ _) as [stk|]; cbn [bind] in H; [|discriminate].
    destruct (fold_left _ (map fst (filter snd ents)) (Ok ([], us_ed s))) as [[keep ed1]|] eqn:Ek; cbn [bind] in H; [|discriminate].
    destruct (keep_spec_upd L w _ _ _ _ _ _ _ _ _ Ek) as [K1 [_ K3]].
    destruct (scan_files L w X rel nm hashes lm _ _) as [[[s2 news] lastft]|] eqn:Esf; cbn [bind] in H; [|discriminate].
    pose proof (scan_files_keeps_ed L w _ _ _ _ _ _ _ _ _ _ Esf) as Hed2. cbn [us_ed] in Hed2.
    destruct (stack_last (us_stack s2)) as [tos|]; cbn [bind] in H; [|discriminate].
    match type of H with context [r3 <- ?R ;; _] => destruct R as [[[[l4 stk4] news4] newign]|] end; cbn [bind] in H; [|discriminate].
    destruct (place_new_entries _ _ _ _ _) as [l5|] eqn:Ep; cbn [bind] in H; [|discriminate].
    match type of H with fold_left _ keep (Ok ?st) = _ => set (st0 := st) in H end.
    fold (child_fold L decompress pgp_verify w f X rel nm hashes lm keep (Ok st0)) in H.
    inversion Hr as [|? ? ? ents' st' d ? ? ? R1 R0 R2 R3 R4 R5]; subst.
    - exists ents, dst. split; [exact Es|exact Et].
    - rewrite Es in R1. inversion R1; subst ents'.
      assert (Hdk : In d keep) by (apply K3; [exact R2|exact R3|apply Hsub; exact R4]).
      assert (G : forall ds s0, ed_sub (us_ed s0) ed0 ->
                child_fold L decompress pgp_verify w f X rel nm hashes lm ds (Ok s0) = Ok s' ->
                forall d0, In d0 ds -> forall anc0 X0 rel0 anc1, reachu w ed0 (pjoin X d0) (pjoin rel d0) anc0 X0 rel0 anc1 -> listed_ok X0).
      { induction ds as [|d1 ds IHd]; intros s0 Hsub0 H0; [intros d0 []|].
        cbn [child_fold fold_left bind] in H0.
        destruct (walk f w (pjoin X d1) (pjoin rel d1) nm hashes lm s0) as [s1|e] eqn:Ew.
        2:{ fold (child_fold L decompress pgp_verify w f X rel nm hashes lm ds (Err e)) in H0. rewrite child_fold_err in H0. discriminate. }
        fold (child_fold L decompress pgp_verify w f X rel nm hashes lm ds (Ok s1)) in H0.
        intros d0 [<-|Hin] anc0 X0 rel0 anc1 Hr0.
        - eapply (IH _ _ _ _ _ _ _ Ew Hsub0). exact Hr0.
        - eapply (IHd s1); [|exact H0|exact Hin|exact Hr0].
          eapply ed_sub_trans; [eapply walk_ed_shrinks_upd; exact Ew|exact Hsub0]. }
      eapply (G keep st0); [|exact H|exact Hdk|exact R5].
      unfold st0. cbn [us_ed]. eapply ed_sub_trans; [exact Hed2|]. eapply ed_sub_trans; [exact K1|exact Hsub].
  Qed.
End UL.

(* the whole operation *)
Theorem update_lists_every_reached_directory (L : hashlib) decompress pgp_verify w l path hashes lm l' :
  update_entries_for_directory L decompress pgp_verify w l path hashes lm = Ok l' ->
  exists l1 nm l2 ed,
    load_unregistered_manifests L decompress pgp_verify w l path false = Ok (l1, nm) /\
    get_dedup_dict L decompress pgp_verify w l1 path false = Ok (l2, ed) /\
    forall dp rel anc, reachu w ed (walk_top path) path [] dp rel anc ->
      exists ents st, p_scandir w dp = Ok ents /\ p_stat w dp = Ok st.
Proof.
  unfold update_entries_for_directory.
  destruct (match hashes with Some h => Some h | None => o_hashes (l_opts l) end) as [hs|]; [|discriminate].
  destruct (load_unregistered_manifests L decompress pgp_verify w l path false) as [[l1 nm]|] eqn:E1; cbn [bind]; [|discriminate].
  destruct (get_dedup_dict L decompress pgp_verify w l1 path false) as [[l2 ed]|] eqn:E2; cbn [bind]; [|discriminate].
  match goal with |- context [walk_update L decompress pgp_verify ?f w ?X path nm hs lm ?s0] =>
    destruct (walk_update L decompress pgp_verify f w X path nm hs lm s0) as [s|] eqn:Ew end; cbn [bind]; [|discriminate].
  intros _. exists l1, nm, l2, ed. split; [reflexivity|]. split; [exact E2|].
  intros dp rel anc Hr.
  eapply (walk_listed_upd L decompress pgp_verify w ed _ _ _ _ _ _ _ _ Ew); [cbn [us_ed]; apply ed_sub_refl|exact Hr].
Qed.

(* ... and the first error of a listing or inspection ends the walk with that error *)
Lemma update_walk_listing_error (L : hashlib) decompress pgp_verify f w X rel nm hashes lm s e :
  p_scandir w X = Err e -> walk_update L decompress pgp_verify (S f) w X rel nm hashes lm s = Err e.
Proof. intros H. cbn [walk_update]. rewrite H. reflexivity. Qed.
Lemma update_walk_stat_error (L : hashlib) decompress pgp_verify f w X rel nm hashes lm s ents e :
  p_scandir w X = Ok ents -> p_stat w X = Err e -> walk_update L decompress pgp_verify (S f) w X rel nm hashes lm s = Err e.
Proof. intros H1 H2. cbn [walk_update]. rewrite H1. cbn [bind]. rewrite H2. reflexivity. Qed.
