(* C16 for the update / create walk (update_entries_for_directory): the walk never depends on its fuel once it is at
   least |directory identities| + 2.  Same argument as Proofs/WalkTerm.v; the identity map travels inside the update
   state and is not touched by the per-directory work (scanning files, creating Manifests, placing entries). *)
From Coq Require Import List NArith ZArith Bool Lia.
From Gemato Require Import Py.PyStr Py.PyPath Gen.Tables Model.Entry Model.Text Model.OpenPGP Model.Hash
  Model.FS Model.Verify Model.Loader Model.Update.
From Gemato Require Import Proofs.Basics Proofs.WalkTerm.
Import ListNotations.
Open Scope N_scope.

Section Upd.
  Variable L : hashlib.
  Variable decompress : list N -> list N -> res (list N).
  Variable pgp_verify : list N -> res sigdata.
  Variable w : world.
  Hypothesis Hw : wf_world w.

  Notation walk := (walk_update L decompress pgp_verify).
  Notation upd_entry := (Verify.update_entry_for_path L).

  Lemma fold_err_stays {A B} (F : res A -> B -> res A) (HF : forall e b, F (Err e) b = Err e) l e : fold_left F l (Err e) = Err e.
  Proof. induction l as [|b l IH]; [reflexivity|]. cbn [fold_left]. rewrite HF. exact IH. Qed.

  (* scanning the files of a directory does not touch the identity map *)
  Lemma scan_files_ids dirpath rel nm hashes lm : forall filenames s news lft s2 news2 lft2,
    fold_left (fun (acc : res (ustate * list entry * option (list N))) f =>
      '(s0, news, lastft) <- acc ;;
      if py_startswith f [46] then Ok (s0, news, lastft) else
      let l0 := us_l s0 in
      let fpath := pjoin rel f in
      let hit := assoc fpath (us_ed s0) in
      let ed' := dict_del fpath (us_ed s0) in
      let s1 := mk_us l0 ed' (us_stack s0) (us_ids s0) in
      match hit with
      | Some (mpath, id) =>
          match entry_at l0 mpath id with
          | None => Err (XInternal IKey)
          | Some fe =>
              match e_tag fe with
              | TIGNORE => Ok (s1, news, lastft)
              | tg =>
                  let stk := if tag_eqb tg TMANIFEST then us_stack s0 ++ [(fpath, rel)] else us_stack s0 in
                  if tag_eqb tg TMANIFEST && mem_str rel (l_updated l0) then Ok (mk_us l0 ed' stk (us_ids s0), news, lastft) else
                  '(changed, sz, ck) <- upd_entry w (pjoin dirpath f) fe (Some hashes) (l_dev l0) (if mem_str mpath nm || mem_str mpath (l_updated l0) then None else lm) ;;
                  let l1 := set_entry_at l0 mpath id (with_size_cks fe sz ck) in
                  let l2 := if changed then add_updated l1 mpath else l1 in
                  Ok (mk_us l2 ed' stk (us_ids s0), news, lastft)
              end
          end
      | None =>
          if ustr_eqb fpath (l_top l0) then Ok (s1, news, lastft) else
          let is_new_m := mem_str fpath nm in
          let ftype := if is_new_m then tag_str TMANIFEST else profile_entry_type (o_profile (l_opts l0)) fpath in
          let stk := if is_new_m then us_stack s0 ++ [(fpath, rel)] else us_stack s0 in
          fe <- mk_new_entry ftype fpath ;;
          if mem_str rel (l_updated l0) then Ok (mk_us l0 ed' stk (us_ids s0), news ++ [fe], Some ftype) else
          '(_, sz, ck) <- upd_entry w (pjoin dirpath f) fe (Some hashes) (l_dev l0) lm ;;
          Ok (mk_us l0 ed' stk (us_ids s0), news ++ [with_size_cks fe sz ck], Some ftype)
      end) filenames (Ok (s, news, lft)) = Ok (s2, news2, lft2) -> us_ids s2 = us_ids s.
  Proof.
    induction filenames as [|f r IH]; intros s news lft s2 news2 lft2 H.
    - inversion H; subst. reflexivity.
    - cbn [fold_left] in H.
      match type of H with fold_left ?F r ?st = _ => destruct st as [[[s1 n1] l1]|e] eqn:E end.
      2:{ rewrite fold_err_stays in H by (intros; reflexivity). discriminate. }
      rewrite (IH _ _ _ _ _ _ H). clear H IH.
      cbn [bind] in E.
      destruct (py_startswith f [46]); [inversion E; reflexivity|].
      destruct (assoc (pjoin rel f) (us_ed s)) as [[mpath id]|].
      + destruct (entry_at (us_l s) mpath id) as [fe|]; [|discriminate].
        destruct (e_tag fe); cbn [tag_eqb andb] in E; try (inversion E; reflexivity);
          try (destruct (mem_str rel (l_updated (us_l s))); [inversion E; reflexivity|]);
          (destruct (upd_entry w (pjoin dirpath f) fe (Some hashes) (l_dev (us_l s)) (if mem_str mpath nm || mem_str mpath (l_updated (us_l s)) then None else lm)) as [[[ch sz] ck]|]; cbn [bind] in E;
           [inversion E; reflexivity|discriminate]).
      + destruct (ustr_eqb (pjoin rel f) (l_top (us_l s))); [inversion E; reflexivity|].
        match type of E with context [mk_new_entry ?a ?b] => destruct (mk_new_entry a b) as [fe|] end; cbn [bind] in E; [|discriminate].
        destruct (mem_str rel (l_updated (us_l s))); [inversion E; reflexivity|].
        match type of E with context [upd_entry w ?a ?b ?c ?d ?e] => destruct (upd_entry w a b c d e) as [[[ch sz] ck]|] end; cbn [bind] in E;
          [inversion E; reflexivity|discriminate].
  Qed.

  Lemma scan_files_keeps_ids dirpath rel nm hashes lm filenames s s2 news lft :
    scan_files L w dirpath rel nm hashes lm filenames s = Ok (s2, news, lft) -> us_ids s2 = us_ids s.
  Proof. unfold scan_files. apply scan_files_ids. Qed.

  Lemma keep_subset_upd (l : loader) (dirpath rel : list N) (hashes : list (list N)) (dirnames : list (list N)) : forall kp0 ed0 keep ed1,
    fold_left (fun (acc : res (list (list N) * ddict)) d =>
                '(kp, ed) <- acc ;;
                if py_startswith d [46] then Ok (kp, ed) else
                let dpath := pjoin rel d in
                match assoc dpath ed with
                | None => Ok (kp ++ [d], ed)
                | Some (mpath, id) =>
                    let ed' := dict_del dpath ed in
                    match entry_at l mpath id with
                    | Some (EIgn _) => Ok (kp, ed')
                    | Some de =>
                        _ <- upd_entry w (pjoin dirpath d) de (Some hashes) (l_dev l) None ;;
                        Err (XInternal IAssertion)
                    | None => Err (XInternal IKey)
                    end
                end) dirnames (Ok (kp0, ed0)) = Ok (keep, ed1) ->
    forall d, In d keep -> In d kp0 \/ In d dirnames.
  Proof.
    induction dirnames as [|x ds IH]; intros kp0 ed0 keep ed1 H d Hin.
    - inversion H; subst. left. exact Hin.
    - cbn [fold_left] in H.
      match type of H with fold_left ?F ds ?st = _ => destruct st as [[kp1 e1]|e] eqn:E end.
      2:{ rewrite fold_err_stays in H by (intros; reflexivity). discriminate. }
      destruct (IH _ _ _ _ H d Hin) as [X|X]; [|right; right; exact X].
      cbn [bind] in E. destruct (py_startswith x [46]); [inversion E; subst; left; exact X|].
      destruct (assoc (pjoin rel x) ed0) as [[mpath id]|].
      + destruct (entry_at l mpath id) as [[dt|p|t p a sz c]|]; try discriminate.
        * inversion E; subst. left. exact X.
        * match type of E with context [upd_entry ?a ?b ?c ?d ?e ?f] => destruct (upd_entry a b c d e f) end; cbn [bind] in E; discriminate.
      + inversion E; subst. apply in_app_or in X. destruct X as [X|[<-|[]]]; [left; exact X|right; left; reflexivity].
  Qed.

  Definition child_fold (f : nat) (X rel : list N) nm hashes lm :=
    fold_left (fun (acc : res ustate) d => s0 <- acc ;; walk f w (pjoin X d) (pjoin rel d) nm hashes lm s0).
  Lemma child_fold_err f X rel nm hashes lm ds e : child_fold f X rel nm hashes lm ds (Err e) = Err e.
  Proof. induction ds as [|d ds IH]; [reflexivity|exact IH]. Qed.

  Lemma walk_ids f : forall X rel nm hashes lm s s',
    walk f w X rel nm hashes lm s = Ok s' ->
    X <> [] -> ids_ok w (us_ids s) ->
    ids_ok w (us_ids s') /\ (forall k, (length k < length X)%nat -> assoc k (us_ids s') = assoc k (us_ids s)).
  Proof.
    induction f as [|f IH]; intros X rel nm hashes lm s s' H HX Hok; [discriminate|].
    cbn [walk_update] in H.
    destruct (p_scandir w X) as [ents|] eqn:Es; cbn [bind] in H; [|discriminate].
    destruct (p_stat w X) as [dst|] eqn:Et; cbn [bind] in H; [|discriminate].
    destruct (match l_dev (us_l s) with Some d => negb (st_dev dst =? d) | None => false end); [discriminate|].
    set (id := (st_dev dst, st_ino dst)) in *.
    set (P := match assoc (dirname X) (us_ids s) with Some x => x | None => [] end) in *.
    destruct (existsb _ P) eqn:El; [discriminate|].
    destruct (pop_until _ _ _) as [stk|]; cbn [bind] in H; [|discriminate].
    destruct (fold_left _ (map fst (filter snd ents)) (Ok ([], us_ed s))) as [[keep ed1]|] eqn:Ek; cbn [bind] in H; [|discriminate].
    set (ids1 := match keep with [] => us_ids s | _ :: _ => dict_set X (P ++ [id]) (us_ids s) end) in *.
    destruct (scan_files L w X rel nm hashes lm _ _) as [[[s2 news] lastft]|] eqn:Esf; cbn [bind] in H; [|discriminate].
    pose proof (scan_files_keeps_ids _ _ _ _ _ _ _ _ _ _ Esf) as Hids2. cbn [us_ids] in Hids2.
    destruct (stack_last (us_stack s2)) as [tos|]; cbn [bind] in H; [|discriminate].
    match type of H with context [r3 <- ?R ;; _] => destruct R as [[[[l4 stk4] news4] newign]|] end; cbn [bind] in H; [|discriminate].
    destruct (place_new_entries _ _ _ _ _) as [l5|]; cbn [bind] in H; [|discriminate].
    rewrite Hids2 in H.
    assert (HP : NoDup P /\ incl P (dirids w)).
    { unfold P. destruct (assoc (dirname X) (us_ids s)) as [x|] eqn:E; [apply (Hok _ _ E)|split; [constructor|intros a []]]. }
    assert (Hok1 : ids_ok w ids1).
    { unfold ids1. destruct keep; [exact Hok|]. intros k Q Hk.
      destruct (ustr_eqb k X) eqn:E.
      - apply ustr_eqb_eq in E. subst k. rewrite dict_set_get in Hk. inversion Hk; subst Q. split.
        + apply NoDup_app_snoc. split; [apply HP|apply existsb_id_false; exact El].
        + intros a Ha. apply in_app_or in Ha. destruct Ha as [Ha|[<-|[]]]; [apply HP; exact Ha|].
          eapply scandir_stat_dirid; eassumption.
      - rewrite dict_set_other in Hk by exact E. apply (Hok _ _ Hk). }
    assert (Hk1 : forall k, (length k < length X)%nat -> assoc k ids1 = assoc k (us_ids s)).
    { intros k Hk. unfold ids1. destruct keep; [reflexivity|]. apply assoc_dict_set_len. lia. }
    assert (Hnames : forall d, In d keep -> valid_name d).
    { intros d Hd. destruct (keep_subset_upd _ _ _ _ _ _ _ _ _ Ek d Hd) as [[]|Hin].
      apply in_map_iff in Hin. destruct Hin as [[n b0] [E Hin]]. cbn in E. subst n. apply filter_In in Hin.
      eapply scandir_names; [exact Hw|exact Es|apply Hin]. }
    fold (child_fold f X rel nm hashes lm keep (Ok (mk_us l5 (us_ed s2) stk4 ids1))) in H.
    assert (G : forall ks s0, (forall d, In d ks -> valid_name d) ->
                child_fold f X rel nm hashes lm ks (Ok s0) = Ok s' -> ids_ok w (us_ids s0) ->
                (forall k, (length k < length X)%nat -> assoc k (us_ids s0) = assoc k (us_ids s)) ->
                ids_ok w (us_ids s') /\ (forall k, (length k < length X)%nat -> assoc k (us_ids s') = assoc k (us_ids s))).
    { induction ks as [|d ds IHd]; intros s0 Hn0 H0 Hok0 Hk0.
      - cbn in H0. inversion H0; subst. split; [exact Hok0|exact Hk0].
      - cbn [child_fold fold_left bind] in H0.
        destruct (walk f w (pjoin X d) (pjoin rel d) nm hashes lm s0) as [s1|e] eqn:Ew.
        + fold (child_fold f X rel nm hashes lm ds (Ok s1)) in H0.
          assert (Hvd : valid_name d) by (apply Hn0; left; reflexivity).
          assert (HX' : pjoin X d <> []) by (pose proof (pjoin_longer X d HX Hvd); intros E; rewrite E in *; cbn in *; lia).
          destruct (IH _ _ _ _ _ _ _ Ew HX' Hok0) as [Hok2 Hk2].
          apply (IHd s1 (fun d' Hd' => Hn0 d' (or_intror Hd')) H0 Hok2).
          intros k Hk. rewrite Hk2; [apply Hk0; exact Hk|]. pose proof (pjoin_longer X d HX Hvd). lia.
        + fold (child_fold f X rel nm hashes lm ds (Err e)) in H0. rewrite child_fold_err in H0. discriminate. }
    exact (G keep _ Hnames H Hok1 Hk1).
  Qed.

  Lemma walk_stable f1 : forall f2 X rel nm hashes lm s,
    no_trailing_slash X -> ids_ok w (us_ids s) ->
    (D w - length (plist (us_ids s) X) < f1)%nat -> (D w - length (plist (us_ids s) X) < f2)%nat ->
    walk f1 w X rel nm hashes lm s = walk f2 w X rel nm hashes lm s.
  Proof.
    induction f1 as [|f1 IH]; intros f2 X rel nm hashes lm s HX Hok H1 H2; [lia|].
    destruct f2 as [|f2]; [lia|].
    cbn [walk_update].
    destruct (p_scandir w X) as [ents|] eqn:Es; cbn [bind]; [|reflexivity].
    destruct (p_stat w X) as [dst|] eqn:Et; cbn [bind]; [|reflexivity].
    destruct (match l_dev (us_l s) with Some d => negb (st_dev dst =? d) | None => false end); [reflexivity|].
    set (id := (st_dev dst, st_ino dst)) in *.
    fold (plist (us_ids s) X). set (P := plist (us_ids s) X) in *.
    destruct (existsb _ P) eqn:El; [reflexivity|].
    destruct (pop_until _ _ _) as [stk|]; cbn [bind]; [|reflexivity].
    destruct (fold_left _ (map fst (filter snd ents)) (Ok ([], us_ed s))) as [[keep ed1]|] eqn:Ek; cbn [bind]; [|reflexivity].
    set (ids1 := match keep with [] => us_ids s | _ :: _ => dict_set X (P ++ [id]) (us_ids s) end).
    destruct (scan_files L w X rel nm hashes lm _ _) as [[[s2 news] lastft]|] eqn:Esf; cbn [bind]; [|reflexivity].
    pose proof (scan_files_keeps_ids _ _ _ _ _ _ _ _ _ _ Esf) as Hids2. cbn [us_ids] in Hids2.
    destruct (stack_last (us_stack s2)) as [tos|]; cbn [bind]; [|reflexivity].
    match goal with |- context [r3 <- ?R ;; _] => destruct R as [[[[l4 stk4] news4] newign]|] end; cbn [bind]; [|reflexivity].
    destruct (place_new_entries _ _ _ _ _) as [l5|]; cbn [bind]; [|reflexivity].
    rewrite Hids2.
    assert (HP : NoDup P /\ incl P (dirids w)).
    { unfold P, plist. destruct (assoc (dirname X) (us_ids s)) as [x|] eqn:E; [apply (Hok _ _ E)|split; [constructor|intros a []]]. }
    assert (Hnd : NoDup (P ++ [id])) by (apply NoDup_app_snoc; split; [apply HP|apply existsb_id_false; exact El]).
    assert (Hincl : incl (P ++ [id]) (dirids w)).
    { intros a Ha. apply in_app_or in Ha. destruct Ha as [Ha|[<-|[]]]; [apply HP; exact Ha|eapply scandir_stat_dirid; eassumption]. }
    assert (Hlen : (length P + 1 <= D w)%nat).
    { pose proof (NoDup_incl_length Hnd Hincl) as X0. rewrite app_length in X0. cbn in X0. exact X0. }
    assert (Hnames : forall d, In d keep -> valid_name d).
    { intros d Hd. destruct (keep_subset_upd _ _ _ _ _ _ _ _ _ Ek d Hd) as [[]|Hin].
      apply in_map_iff in Hin. destruct Hin as [[n b0] [E Hin]]. cbn in E. subst n. apply filter_In in Hin.
      eapply scandir_names; [exact Hw|exact Es|apply Hin]. }
    fold (child_fold f1 X rel nm hashes lm keep (Ok (mk_us l5 (us_ed s2) stk4 ids1))).
    fold (child_fold f2 X rel nm hashes lm keep (Ok (mk_us l5 (us_ed s2) stk4 ids1))).
    destruct keep as [|d0 ds0]; [reflexivity|].
    assert (Hok1 : ids_ok w ids1).
    { unfold ids1. intros k Q Hk. destruct (ustr_eqb k X) eqn:E.
      - apply ustr_eqb_eq in E. subst k. rewrite dict_set_get in Hk. inversion Hk; subst Q. split; assumption.
      - rewrite dict_set_other in Hk by exact E. apply (Hok _ _ Hk). }
    assert (HX1 : assoc X ids1 = Some (P ++ [id])) by (unfold ids1; apply dict_set_get).
    assert (G : forall ks s0, (forall d, In d ks -> valid_name d) -> ids_ok w (us_ids s0) -> assoc X (us_ids s0) = Some (P ++ [id]) ->
                child_fold f1 X rel nm hashes lm ks (Ok s0) = child_fold f2 X rel nm hashes lm ks (Ok s0)).
    { induction ks as [|d ds IHd]; intros s0 Hn0 Hok0 HX0; [reflexivity|].
      cbn [child_fold fold_left bind].
      assert (Hvd : valid_name d) by (apply Hn0; left; reflexivity).
      assert (HXd : no_trailing_slash (pjoin X d)) by (apply pjoin_no_trailing; [apply HX|exact Hvd]).
      assert (Hpl : plist (us_ids s0) (pjoin X d) = P ++ [id]).
      { unfold plist. rewrite dirname_pjoin by assumption. rewrite HX0. reflexivity. }
      rewrite (IH f2 (pjoin X d) (pjoin rel d) nm hashes lm s0 HXd Hok0);
        [|rewrite Hpl, app_length; cbn; lia|rewrite Hpl, app_length; cbn; lia].
      destruct (walk f2 w (pjoin X d) (pjoin rel d) nm hashes lm s0) as [s1|e] eqn:Ew.
      - fold (child_fold f1 X rel nm hashes lm ds (Ok s1)). fold (child_fold f2 X rel nm hashes lm ds (Ok s1)).
        assert (HX' : pjoin X d <> []) by apply HXd.
        destruct (walk_ids f2 _ _ _ _ _ _ _ Ew HX' Hok0) as [Hok2 Hk2].
        apply (IHd s1 (fun d' Hd' => Hn0 d' (or_intror Hd'))); [exact Hok2|].
        rewrite Hk2; [exact HX0|]. apply pjoin_longer; [apply HX|exact Hvd].
      - fold (child_fold f1 X rel nm hashes lm ds (Err e)). fold (child_fold f2 X rel nm hashes lm ds (Err e)). rewrite !child_fold_err. reflexivity. }
    apply G; [exact Hnames|exact Hok1|exact HX1].
  Qed.

  Theorem update_walk_terminates f1 f2 X rel nm hashes lm s :
    X <> [] -> forallb (N.eqb sl) X = false -> us_ids s = [] ->
    (D w + 2 <= f1)%nat -> (D w + 2 <= f2)%nat ->
    walk f1 w X rel nm hashes lm s = walk f2 w X rel nm hashes lm s.
  Proof.
    intros HX Hns Hs0 H1 H2.
    assert (Hok0 : ids_ok w (us_ids s)) by (rewrite Hs0; intros k P Hk; discriminate).
    destruct (py_endswith X [sl]) eqn:He.
    2:{ apply walk_stable; [split; assumption|exact Hok0| |]; rewrite Hs0; unfold plist; cbn; lia. }
    destruct f1 as [|f1]; [lia|]. destruct f2 as [|f2]; [lia|].
    cbn [walk_update].
    destruct (p_scandir w X) as [ents|] eqn:Es; cbn [bind]; [|reflexivity].
    destruct (p_stat w X) as [dst|] eqn:Et; cbn [bind]; [|reflexivity].
    destruct (match l_dev (us_l s) with Some d => negb (st_dev dst =? d) | None => false end); [reflexivity|].
    set (id := (st_dev dst, st_ino dst)) in *.
    rewrite Hs0. cbn [assoc existsb].
    destruct (pop_until _ _ _) as [stk|]; cbn [bind]; [|reflexivity].
    destruct (fold_left _ (map fst (filter snd ents)) (Ok ([], us_ed s))) as [[keep ed1]|] eqn:Ek; cbn [bind]; [|reflexivity].
    set (ids1 := match keep with [] => [] | _ :: _ => dict_set X ([] ++ [id]) (@nil (list N * list (N * N))) end).
    destruct (scan_files L w X rel nm hashes lm _ _) as [[[s2 news] lastft]|] eqn:Esf; cbn [bind]; [|reflexivity].
    pose proof (scan_files_keeps_ids _ _ _ _ _ _ _ _ _ _ Esf) as Hids2. cbn [us_ids] in Hids2.
    destruct (stack_last (us_stack s2)) as [tos|]; cbn [bind]; [|reflexivity].
    match goal with |- context [r3 <- ?R ;; _] => destruct R as [[[[l4 stk4] news4] newign]|] end; cbn [bind]; [|reflexivity].
    destruct (place_new_entries _ _ _ _ _) as [l5|]; cbn [bind]; [|reflexivity].
    rewrite Hids2.
    assert (Hnames : forall d, In d keep -> valid_name d).
    { intros d Hd. destruct (keep_subset_upd _ _ _ _ _ _ _ _ _ Ek d Hd) as [[]|Hin].
      apply in_map_iff in Hin. destruct Hin as [[n b0] [E Hin]]. cbn in E. subst n. apply filter_In in Hin.
      eapply scandir_names; [exact Hw|exact Es|apply Hin]. }
    fold (child_fold f1 X rel nm hashes lm keep (Ok (mk_us l5 (us_ed s2) stk4 ids1))).
    fold (child_fold f2 X rel nm hashes lm keep (Ok (mk_us l5 (us_ed s2) stk4 ids1))).
    destruct keep as [|d0 ds0]; [reflexivity|].
    assert (Hok1 : ids_ok w ids1).
    { unfold ids1. intros k Q Hk. cbn in Hk. destruct (ustr_eqb k X); [|discriminate].
      inversion Hk; subst Q. split; [constructor; [intros []|constructor]|].
      intros a [<-|[]]. eapply scandir_stat_dirid; eassumption. }
    assert (Hshort : forall k, (length k < length X)%nat -> assoc k ids1 = None).
    { intros k Hk. unfold ids1. cbn. destruct (ustr_eqb k X) eqn:E; [|reflexivity].
      apply ustr_eqb_eq in E. subst. lia. }
    assert (G : forall ks s0, (forall d, In d ks -> valid_name d) -> ids_ok w (us_ids s0) ->
                (forall k, (length k < length X)%nat -> assoc k (us_ids s0) = None) ->
                child_fold f1 X rel nm hashes lm ks (Ok s0) = child_fold f2 X rel nm hashes lm ks (Ok s0)).
    { induction ks as [|d ds IHd]; intros s0 Hn0 Hq0 Hsh0; [reflexivity|].
      cbn [child_fold fold_left bind].
      assert (Hvd : valid_name d) by (apply Hn0; left; reflexivity).
      assert (HXd : no_trailing_slash (pjoin X d)) by (apply pjoin_no_trailing; assumption).
      assert (Hpl : plist (us_ids s0) (pjoin X d) = []).
      { unfold plist. rewrite Hsh0; [reflexivity|]. apply dirname_pjoin_slash; assumption. }
      rewrite (walk_stable f1 f2 (pjoin X d) (pjoin rel d) nm hashes lm s0 HXd Hq0);
        [|rewrite Hpl; cbn; lia|rewrite Hpl; cbn; lia].
      destruct (walk f2 w (pjoin X d) (pjoin rel d) nm hashes lm s0) as [s1|e] eqn:Ew.
      - fold (child_fold f1 X rel nm hashes lm ds (Ok s1)). fold (child_fold f2 X rel nm hashes lm ds (Ok s1)).
        destruct (walk_ids f2 _ _ _ _ _ _ _ Ew (proj1 HXd) Hq0) as [Hok2 Hk2].
        apply (IHd s1 (fun d' Hd' => Hn0 d' (or_intror Hd'))); [exact Hok2|].
        intros k Hk. rewrite Hk2; [apply Hsh0; exact Hk|]. pose proof (pjoin_longer X d HX Hvd). lia.
      - fold (child_fold f1 X rel nm hashes lm ds (Err e)). fold (child_fold f2 X rel nm hashes lm ds (Err e)). rewrite !child_fold_err. reflexivity. }
    exact (G (d0 :: ds0) (mk_us l5 (us_ed s2) stk4 ids1) Hnames Hok1 Hshort).
  Qed.
End Upd.
