(* C10: the whole save step.  save_manifests changes no regular file of the initial filesystem except those that a
   Manifest path of the loader - the path itself, the path with the compression suffix appended, or the path with
   its suffix cut off - names at the beginning.  Induction over the save loop with the frame lemmas of Frame.v. *)
From Coq Require Import List NArith ZArith Bool Lia String.
From Gemato Require Import Py.PyStr Py.PyLit Py.PyPath Gen.Tables Model.Entry Model.Text Model.OpenPGP
  Model.Hash Model.FS Model.Verify Model.Loader Model.Update Gen.Profile.
From Gemato Require Import Proofs.Frame Proofs.SaveFrame.
Import ListNotations.
Open Scope N_scope.

Section SaveAll.
  Variable L : hashlib.
  Variable decompress compress : list N -> list N -> res (list N).
  Variable pgp_verify : list N -> res sigdata.
  Variable pgp_sign : list N -> option (list N) -> res (list N).
  Variable wmtime : Z.

  (* the invariant: relative to the initial world w, with S the set of paths that may be written *)
  Definition inv (S : list N -> Prop) (w wk : world) : Prop :=
    (forall j d m s x, node w j = Some (IFile d m s x) ->
       (forall q, S q -> ~ names w (pjoin rootdir q) j) -> node wk j = Some (IFile d m s x)) /\
    (forall q j d m s x, node w j = Some (IFile d m s x) -> names wk q j -> names w q j) /\
    (forall j d m s x, node w j = Some (IFile d m s x) -> exists d' m' s' x', node wk j = Some (IFile d' m' s' x')).

  Lemma inv_refl S w : inv S w w.
  Proof. repeat split; intros; eauto 10. Qed.

  Lemma write_keeps_files w path data mt w' : write_file w path data mt = Ok w' ->
    forall j d m s x, node w j = Some (IFile d m s x) -> exists d' m' s' x', node w' j = Some (IFile d' m' s' x').
  Proof.
    unfold write_file. destruct (resolve w (dirname path)) as [di|]; cbn [bind]; [|discriminate].
    destruct (node w di) as [[dev par ents| |]|] eqn:En; try discriminate.
    destruct (lookup_name ents (basename path)) as [[i|e]|]; try discriminate.
    - destruct (node w i) as [[| fdev fm fs fx |]|] eqn:Ei; try discriminate.
      intros H j d m s x Hj. injection H as <-. unfold node. cbn [w_nodes].
      destruct (N.eq_dec j i) as [->|Hne].
      + rewrite (lookup_replace_same _ _ _ _ Ei). eauto.
      + rewrite lookup_replace_other by exact Hne. eauto.
    - intros H j d m s x Hj. injection H as <-. unfold node. cbn [w_nodes].
      assert (Hne : j <> di) by (intros ->; rewrite En in Hj; discriminate).
      exists d, m, s, x. apply lookup_app_some. rewrite lookup_replace_other by exact Hne. exact Hj.
  Qed.

  Lemma inv_write S w wk path data mt wk' : inv S w wk -> True ->
    write_file wk path data mt = Ok wk' ->
    (forall j d m s x, node w j = Some (IFile d m s x) -> (forall q, S q -> ~ names w (pjoin rootdir q) j) -> ~ names w path j) ->
    inv S w wk'.
  Proof.
    intros [I1 [I2 I3]] _ W Hp. split; [|split].
    - intros j d m s x Hj Hn. pose proof (I1 j d m s x Hj Hn) as Hk.
      apply (write_file_frame _ _ _ _ _ W j d m s x Hk). intros Hnk.
      apply (Hp j d m s x Hj Hn). eapply I2; eassumption.
    - intros q j d m s x Hj Hnk. destruct (I3 j d m s x Hj) as [d' [m' [s' [x' Hk]]]].
      eapply I2; [exact Hj|]. eapply write_names_stable_any; eassumption.
    - intros j d m s x Hj. destruct (I3 j d m s x Hj) as [d' [m' [s' [x' Hk]]]]. eapply write_keeps_files; eassumption.
  Qed.

  Lemma inv_unlink S w wk path wk' : inv S w wk -> unlink_file wk path = Ok wk' -> inv S w wk'.
  Proof.
    intros [I1 [I2 I3]] U. split; [|split].
    - intros j d m s x Hj Hn. eapply unlink_file_frame; [exact U|]. eapply I1; eassumption.
    - intros q j d m s x Hj Hnk. eapply I2; [exact Hj|]. eapply unlink_names_stable_any; eassumption.
    - intros j d m s x Hj. destruct (I3 j d m s x Hj) as [d' [m' [s' [x' Hk]]]].
      exists d', m', s', x'. eapply unlink_file_frame; eassumption.
  Qed.

  Lemma inv_save S w wk lk relpath sort wk' lk' n : inv S w wk -> S relpath ->
    save_manifest compress pgp_sign wmtime wk lk relpath sort = Ok (wk', lk', n) -> inv S w wk'.
  Proof.
    intros I HS. unfold save_manifest. destruct (get_m lk relpath) as [mf|]; [|discriminate].
    destruct (write_file wk (pjoin rootdir relpath) [] wmtime) as [w0|] eqn:W0; cbn [bind]; [|discriminate].
    destruct (dump_entries _) as [text|]; cbn [bind]; [|discriminate].
    match goal with |- context [if ?b then pgp_sign text _ else Ok text] => destruct (if b then pgp_sign text (o_keyid (l_opts lk)) else Ok text) as [text'|] end;
      cbn [bind]; [|discriminate].
    destruct (utf8_encode text') as [raw|]; cbn [bind]; [|discriminate].
    match goal with |- context [match compressed_suffix relpath with Some fmt => _ | None => Ok raw end] =>
      destruct (match compressed_suffix relpath with
                | Some fmt => if mem_str fmt codec_suffixes then compress fmt raw else Err (XUnsupportedCompression fmt)
                | None => Ok raw end) as [data|] end; cbn [bind]; [|discriminate].
    destruct (write_file w0 (pjoin rootdir relpath) data wmtime) as [w1|] eqn:W1; cbn [bind]; [|discriminate].
    intros H. inversion H; subst. clear H.
    assert (Hp : forall j d m s x, node w j = Some (IFile d m s x) -> (forall q, S q -> ~ names w (pjoin rootdir q) j) -> ~ names w (pjoin rootdir relpath) j)
      by (intros j d m s x _ Hn; apply Hn; exact HS).
    eapply inv_write; [eapply inv_write; [exact I|exact Logic.I|exact W0|exact Hp]|exact Logic.I|exact W1|exact Hp].
  Qed.

  Lemma fold_left_inv_in {A B} (f : res A -> B -> res A) (P : A -> Prop) (l : list B) :
    (forall a b r, In b l -> P a -> f (Ok a) b = Ok r -> P r) -> (forall e b, f (Err e) b = Err e) ->
    forall a r, P a -> fold_left f l (Ok a) = Ok r -> P r.
  Proof.
    intros Hs He. induction l as [|b l IH]; intros a r Pa H.
    - inversion H; subst. exact Pa.
    - cbn [fold_left] in H. destruct (f (Ok a) b) as [a'|e] eqn:E.
      + eapply IH; [intros; eapply Hs; [right; eassumption|eassumption|eassumption]|eapply Hs; [left; reflexivity|exact Pa|exact E]|exact H].
      + exfalso. clear -H He. induction l as [|x l IHl]; [discriminate|]. cbn [fold_left] in H. rewrite He in H. apply IHl. exact H.
  Qed.

  (* the paths a save may write: for every Manifest of the loader its path, that path with ".<format>" appended,
     and its prefixes (the path with the compression suffix cut off) *)
  Definition may_write (snapshot : list (list N * list N * mfile)) (format : list N) (q : list N) : Prop :=
    exists kdv, In kdv snapshot /\
      (q = fst (fst kdv) \/ q = fst (fst kdv) ++ [46] ++ format \/ exists n, q = firstn n (fst (fst kdv))).

  Theorem save_manifests_frame w l o w' l' :
    save_manifests L decompress compress pgp_verify pgp_sign wmtime w l o = Ok (w', l') ->
    exists l0, (if so_force o then load_manifests_for_path L decompress pgp_verify rounds_fuel w l [] true true else Ok l) = Ok l0 /\
      forall j d m s x, node w j = Some (IFile d m s x) ->
        (forall q, may_write (iter_manifests l0 [] true)
                             (match so_format o with Some f => f | None => o_format (l_opts l) end) q ->
                   ~ names w (pjoin rootdir q) j) ->
        node w' j = Some (IFile d m s x).
  Proof.
    unfold save_manifests.
    destruct (if so_force o then load_manifests_for_path L decompress pgp_verify rounds_fuel w l [] true true else Ok l) as [l0|] eqn:E0; cbn [bind]; [|discriminate].
    set (fmt := match so_format o with Some f => f | None => o_format (l_opts l) end).
    set (S := may_write (iter_manifests l0 [] true) fmt).
    match goal with |- context [fold_left ?F (iter_manifests l0 [] true) ?init] =>
      destruct (fold_left F (iter_manifests l0 [] true) init) as [r|] eqn:E; cbn [bind]; [|discriminate];
      assert (Pr : (fun x : world * loader * list (list N) * list (list N * list N) => let '(wk, _, _, _) := x in inv S w wk) r)
    end.
    { refine (fold_left_inv_in _ (fun x : world * loader * list (list N) * list (list N * list N) => let '(wk, _, _, _) := x in inv S w wk)
                _ _ _ (w, l0, [], []) r _ E).
      3:{ apply inv_refl. }
      - intros [[[w0 l1] fx] rn] [[mpath relp] m0] r0 Hin I H. cbn [bind] in H.
        assert (Sm : S mpath) by (exists (mpath, relp, m0); split; [exact Hin|left; reflexivity]).
        destruct (get_m l1 mpath) as [m|]; [|discriminate].
        match type of H with context [fold_left ?G (mf_entries m) ?i2] => destruct (fold_left G (mf_entries m) i2) as [[l3 fixed']|] end;
          cbn [bind] in H; [|discriminate].
        destruct (so_force o || mem_str mpath (l_updated l3)); [|inversion H; subst; exact I].
        match type of H with context [save_manifest compress pgp_sign wmtime w0 l3 mpath ?srt] =>
          destruct (save_manifest compress pgp_sign wmtime w0 l3 mpath srt) as [[[w1 l4] unc]|] eqn:S1 end; cbn [bind] in H; [|discriminate].
        pose proof (inv_save S w w0 l3 mpath _ w1 l4 unc I Sm S1) as I1.
        match type of H with context [match ?wmk with Some wm => _ | None => Ok (w1, l4, fixed', rn) end] => destruct wmk as [wm|] end;
          [|inversion H; subst; exact I1].
        destruct (profile_want_compressed _ _ _ _ _) as [want|]; [|inversion H; subst; exact I1].
        destruct (Bool.eqb _ want); [inversion H; subst; exact I1|].
        match type of H with context [if ?g then Ok (w1, l4, fixed', rn) else _] => destruct g end; [inversion H; subst; exact I1|].
        destruct (get_m l4 mpath) as [m4|]; [|discriminate].
        match type of H with context [save_manifest compress pgp_sign wmtime w1 ?l5 ?np false] => assert (Sn : S np) end.
        { exists (mpath, relp, m0). split; [exact Hin|]. cbn [fst]. destruct want; [right; left; reflexivity|right; right; eexists; reflexivity]. }
        match type of H with context [save_manifest compress pgp_sign wmtime w1 ?l5 ?np false] =>
          destruct (save_manifest compress pgp_sign wmtime w1 l5 np false) as [[[w2 l6] unc2]|] eqn:S2 end; [|cbn [bind] in H; discriminate].
        cbn [bind] in H. pose proof (inv_save S w w1 _ _ _ w2 l6 unc2 I1 Sn S2) as I2.
        destruct (unlink_file w2 (pjoin rootdir mpath)) as [w3|] eqn:U; cbn [bind] in H; [|discriminate].
        inversion H; subst. eapply inv_unlink; eassumption.
      - intros e [[mpath relp] m0]. reflexivity. }
    destruct r as [[[w9 l9] fx] rn]. destruct Pr as [I1 _].
    match goal with |- context [filter ?f (l_updated l9)] => destruct (filter f (l_updated l9)) end; [|discriminate].
    intros H. inversion H; subst. exists l0. split; [reflexivity|]. intros j d m s x Hj Hn. eapply I1; eassumption.
  Qed.
End SaveAll.
