(* C14: the signing decision of save_manifest.  Only the top-level Manifest is ever handed to the signer; there
   the decision is the sign option, or - when unset - whether the loaded Manifest carried a valid signature; the
   text handed to the signer is exactly the dump of the entries being written; a signer failure is the result of
   the save (nothing is written as a substitute); with signing off the dump itself is written. *)
From Coq Require Import List NArith ZArith Bool Lia.
From Gemato Require Import Py.PyStr Py.PyPath Gen.Tables Model.Entry Model.Text Model.OpenPGP Model.Hash
  Model.FS Model.Verify Model.Loader Model.Update.
Import ListNotations.
Open Scope N_scope.

Section Sign.
  Variable compress : list N -> list N -> res (list N).
  Variable wmtime : Z.

  Definition want_sign (l : loader) (relpath : list N) (m : mfile) : bool :=
    if ustr_eqb relpath (l_top l)
    then match o_sign (l_opts l) with Some b => b | None => mf_signed m end
    else false.
  Definition sorted_ids (m : mfile) (sort : bool) : list (N * entry) :=
    if sort then py_sorted (fun a b => entry_ltb (snd a) (snd b)) (mf_entries m) else mf_entries m.
  (* what ends up in the file, given the text *)
  Definition stored (relpath : list N) (text : list N) : res (list N) :=
    raw <- match utf8_encode text with Some b => Ok b | None => Err (XInternal IUnicode) end ;;
    match compressed_suffix relpath with
    | None => Ok raw
    | Some fmt => if mem_str fmt codec_suffixes then compress fmt raw else Err (XUnsupportedCompression fmt)
    end.

  (* the general shape: dump, sign iff wanted, store *)
  Theorem save_manifest_shape pgp_sign w l relpath sort m :
    get_m l relpath = Some m ->
    save_manifest compress pgp_sign wmtime w l relpath sort =
      (w0 <- write_file w (pjoin rootdir relpath) [] wmtime ;;
       text <- dump_entries (map snd (sorted_ids m sort)) ;;
       text' <- (if want_sign l relpath m then pgp_sign text (o_keyid (l_opts l)) else Ok text) ;;
       raw <- match utf8_encode text' with Some b => Ok b | None => Err (XInternal IUnicode) end ;;
       data <- match compressed_suffix relpath with
               | None => Ok raw
               | Some fmt => if mem_str fmt codec_suffixes then compress fmt raw else Err (XUnsupportedCompression fmt)
               end ;;
       w1 <- write_file w0 (pjoin rootdir relpath) data wmtime ;;
       Ok (w1, put_m l relpath (mk_mf (sorted_ids m sort) (mf_signed m)), Z.of_nat (length raw))).
  Proof.
    intros Hm. unfold save_manifest, want_sign, sorted_ids. rewrite Hm.
    destruct (ustr_eqb relpath (l_top l)); [destruct (o_sign (l_opts l)) as [[|]|]|]; reflexivity.
  Qed.

  (* sub-Manifests never reach the signer: the result does not depend on it *)
  Theorem sub_manifest_never_signed sign1 sign2 w l relpath sort :
    ustr_eqb relpath (l_top l) = false ->
    save_manifest compress sign1 wmtime w l relpath sort = save_manifest compress sign2 wmtime w l relpath sort.
  Proof.
    intros Ht. destruct (get_m l relpath) as [m|] eqn:Hm.
    - rewrite !(save_manifest_shape _ w l relpath sort m Hm). unfold want_sign. rewrite Ht. reflexivity.
    - unfold save_manifest. rewrite Hm. reflexivity.
  Qed.

  (* signing off (explicitly, or unset on a Manifest that was not loaded signed): the signer is not consulted either *)
  Theorem unsigned_when_off sign1 sign2 w l relpath sort m :
    get_m l relpath = Some m -> want_sign l relpath m = false ->
    save_manifest compress sign1 wmtime w l relpath sort = save_manifest compress sign2 wmtime w l relpath sort.
  Proof. intros Hm Hw. rewrite !(save_manifest_shape _ w l relpath sort m Hm), Hw. reflexivity. Qed.

  (* a signer failure is the result of the save *)
  Theorem signing_failure_is_error pgp_sign w l relpath sort m w0 text e :
    get_m l relpath = Some m -> want_sign l relpath m = true ->
    write_file w (pjoin rootdir relpath) [] wmtime = Ok w0 ->
    dump_entries (map snd (sorted_ids m sort)) = Ok text ->
    pgp_sign text (o_keyid (l_opts l)) = Err e ->
    save_manifest compress pgp_sign wmtime w l relpath sort = Err e.
  Proof.
    intros Hm Hw H0 Hd Hs. rewrite (save_manifest_shape _ w l relpath sort m Hm), H0. cbn [bind]. rewrite Hd. cbn [bind].
    rewrite Hw, Hs. reflexivity.
  Qed.

  (* a successful signed save stores exactly what the signer returned for the dump of the entries written *)
  Theorem signed_save_content pgp_sign w l relpath sort m w' l' n :
    get_m l relpath = Some m -> want_sign l relpath m = true ->
    save_manifest compress pgp_sign wmtime w l relpath sort = Ok (w', l', n) ->
    exists w0 text signed data,
      write_file w (pjoin rootdir relpath) [] wmtime = Ok w0 /\
      dump_entries (map snd (sorted_ids m sort)) = Ok text /\
      pgp_sign text (o_keyid (l_opts l)) = Ok signed /\
      stored relpath signed = Ok data /\
      write_file w0 (pjoin rootdir relpath) data wmtime = Ok w'.
  Proof.
    intros Hm Hw H. rewrite (save_manifest_shape _ w l relpath sort m Hm), Hw in H.
    destruct (write_file w (pjoin rootdir relpath) [] wmtime) as [w0|]; cbn [bind] in H; [|discriminate].
    destruct (dump_entries (map snd (sorted_ids m sort))) as [text|]; cbn [bind] in H; [|discriminate].
    destruct (pgp_sign text (o_keyid (l_opts l))) as [signed|] eqn:Es; cbn [bind] in H; [|discriminate].
    exists w0, text, signed. unfold stored.
    destruct (utf8_encode signed) as [raw|]; cbn [bind] in *; [|discriminate].
    destruct (match compressed_suffix relpath with
              | Some fmt => if mem_str fmt codec_suffixes then compress fmt raw else Err (XUnsupportedCompression fmt)
              | None => Ok raw end) as [data|] eqn:Ed; cbn [bind] in H; [|discriminate].
    exists data. destruct (write_file w0 (pjoin rootdir relpath) data wmtime) as [w1|] eqn:E1; cbn [bind] in H; [|discriminate].
    inversion H; subst. repeat split; try reflexivity; assumption.
  Qed.

  (* the decision table *)
  Theorem want_sign_table l relpath m :
    want_sign l relpath m =
      ustr_eqb relpath (l_top l) &&
      match o_sign (l_opts l) with Some b => b | None => mf_signed m end.
  Proof. unfold want_sign. destruct (ustr_eqb relpath (l_top l)); reflexivity. Qed.
End Sign.
