(* Whatever the parser accepts is well-formed in the sense of EntryRT.wf_entry, so the writer's
   round-trip theorem applies to it: this closes the canonical fixed point of C08 without a premise
   about the parsed entries.  The only hypothesis is that the text is a Python str (every element a
   code point <= 0x10FFFF). *)
From Coq Require Import List NArith ZArith Bool Lia ZifyBool ZifyN Arith.
From Gemato Require Import Py.PyStr Py.PyTime Gen.PyFacts Gen.Tables Gen.Util Model.Entry Model.Text.
From Gemato Require Import Proofs.Basics Proofs.Codec Proofs.IntStr Proofs.Lines Proofs.EntryRT
  Proofs.Reject Proofs.RefreshIdem.
Import ListNotations.
Open Scope N_scope.

Definition vstr (s : ustr) : Prop := Forall valid_cp s.

(* ---- string plumbing keeps code points ------------------------------------------------------ *)
Lemma lstrip_vstr s : vstr s -> vstr (lstrip_ws s).
Proof.
  induction s as [|x s IH]; intros H; [exact H|]. cbn [lstrip_ws].
  destruct (is_space x); [apply IH; inversion H; assumption|exact H].
Qed.
Lemma strip_vstr s : vstr s -> vstr (strip_ws s).
Proof.
  intros H. unfold strip_ws, rstrip_ws. apply Forall_rev. apply lstrip_vstr. apply Forall_rev.
  apply lstrip_vstr. exact H.
Qed.
Lemma skipn_vstr n : forall s, vstr s -> vstr (skipn n s).
Proof.
  induction n as [|n IH]; intros s H; [exact H|]. destruct s as [|x s]; [exact H|].
  cbn [skipn]. apply IH. inversion H; assumption.
Qed.

Definition good_word (w : ustr) : Prop := wf_word w /\ vstr w.

Lemma split_ws_aux_good s : forall cur, spacefree cur -> vstr cur -> vstr s ->
  Forall good_word (split_ws_aux s cur).
Proof.
  assert (R : forall cur, cur <> [] -> spacefree cur -> vstr cur -> good_word (rev cur)).
  { intros cur Hne Hsf Hv. split; [split|].
    - intros E. apply Hne. rewrite <- (rev_involutive cur), E. reflexivity.
    - intros c Hc. apply Hsf. apply in_rev. exact Hc.
    - apply Forall_rev. exact Hv. }
  assert (Nil : spacefree []) by (intros c []).
  induction s as [|x s IH]; intros cur Hsf Hv Hs; cbn [split_ws_aux].
  - destruct cur as [|c cur]; [constructor|]. constructor; [|constructor]. apply R; [discriminate|assumption..].
  - inversion Hs as [|? ? Hx Hs']; subst. destruct (is_space x) eqn:E.
    + destruct cur as [|c cur].
      * apply IH; [exact Nil|constructor|exact Hs'].
      * constructor; [apply R; [discriminate|assumption..]|]. apply IH; [exact Nil|constructor|exact Hs'].
    + apply IH; [|constructor; assumption|exact Hs'].
      intros c [<-|Hc]; [exact E|apply Hsf; exact Hc].
Qed.
Lemma split_ws_good s : vstr s -> Forall good_word (split_ws s).
Proof. intros H. apply split_ws_aux_good; [intros c []|constructor|exact H]. Qed.

Lemma v10 : valid_cp 10. Proof. unfold valid_cp, max_cp. lia. Qed.

Lemma lines_aux_vstr n : forall s cur, (length s <= n)%nat -> vstr cur -> vstr s ->
  Forall vstr (lines_aux s cur).
Proof.
  assert (R : forall cur, vstr cur -> vstr (rev (10 :: cur))).
  { intros cur H. apply Forall_rev. constructor; [exact v10|exact H]. }
  induction n as [|n IH]; intros s cur Hl Hc Hs.
  - destruct s; [|cbn in Hl; lia]. cbn. destruct cur; [constructor|].
    constructor; [apply Forall_rev; exact Hc|constructor].
  - destruct s as [|x s]; cbn [lines_aux].
    + destruct cur; [constructor|]. constructor; [apply Forall_rev; exact Hc|constructor].
    + inversion Hs as [|? ? Hx Hs']; subst. cbn [length] in Hl.
      destruct (x =? 10).
      * constructor; [apply R; exact Hc|]. apply IH; [lia|constructor|exact Hs'].
      * destruct (x =? 13).
        -- destruct s as [|y s'].
           ++ constructor; [apply R; exact Hc|constructor].
           ++ destruct (y =? 10).
              ** constructor; [apply R; exact Hc|]. inversion Hs'; subst.
                 apply IH; [cbn [length] in Hl; lia|constructor|assumption].
              ** constructor; [apply R; exact Hc|]. apply IH; [lia|constructor|exact Hs'].
        -- apply IH; [lia|constructor; assumption|exact Hs'].
Qed.
Lemma py_lines_vstr t : vstr t -> Forall vstr (py_lines t).
Proof. intros H. apply (lines_aux_vstr (length t)); [lia|constructor|exact H]. Qed.

(* ---- paths ----------------------------------------------------------------------------------- *)
Lemma hexparse_suffix k : forall s acc v r, hexparse k s acc = Some (v, r) -> vstr s -> vstr r.
Proof.
  induction k as [|k IH]; intros s acc v r H Hs; cbn [hexparse] in H.
  - inversion H; subst. exact Hs.
  - destruct s as [|c s]; [discriminate|]. destruct (hexval c); [|discriminate].
    inversion Hs; subst. eapply IH; eassumption.
Qed.
Lemma try_forms_suffix forms : forall s v r, try_forms forms s = Some (v, r) -> vstr s -> vstr r.
Proof.
  induction forms as [|[letter k] fr IH]; intros s v r H Hs; cbn [try_forms] in H; [discriminate|].
  destruct s as [|c s']; [discriminate|]. destruct (c =? letter).
  - destruct (hexparse k s' 0) as [[v' r']|] eqn:E.
    + inversion H; subst. inversion Hs; subst. eapply hexparse_suffix; eassumption.
    + eapply IH; eassumption.
  - eapply IH; eassumption.
Qed.
Lemma decode_fuel_vstr f : forall s p, vstr s -> decode_fuel f s = Ok p -> vstr p.
Proof.
  induction f as [|f IH]; intros s p Hs H; cbn [decode_fuel] in H; [discriminate|].
  destruct s as [|c r]; [inversion H; constructor|]. inversion Hs as [|? ? Hc Hr]; subst.
  destruct (c =? 92).
  - destruct (try_forms escape_forms r) as [[v r']|] eqn:E; [|discriminate].
    destruct (v <=? max_cp) eqn:Ev; [|discriminate].
    destruct (decode_fuel f r') as [t|] eqn:Et; cbn [bind] in H; [|discriminate].
    inversion H; subst. constructor; [unfold valid_cp; lia|].
    eapply IH; [|exact Et]. eapply try_forms_suffix; eassumption.
  - destruct (decode_fuel f r) as [t|] eqn:Et; cbn [bind] in H; [|discriminate].
    inversion H; subst. constructor; [exact Hc|]. eapply IH; eassumption.
Qed.

Lemma process_path_wf data p : Forall vstr data -> process_path data = Ok p -> wf_path p.
Proof.
  intros Hd H. pose proof (process_path_spec data) as Hs. rewrite H in Hs.
  destruct Hs as [Hne [Hhd [t [e [Ed E]]]]]. subst data.
  split; [exact Hne|]. split; [exact Hhd|].
  unfold decode_path in E. eapply decode_fuel_vstr; [|exact E].
  inversion Hd as [|? ? _ Hd']; subst. inversion Hd'; subst. assumption.
Qed.

(* ---- sizes ------------------------------------------------------------------------------------ *)
Lemma digit_val_in_lt starts : forall c v, digit_val_in starts c = Some v -> v < 10.
Proof.
  induction starts as [|s r IH]; intros c v H; cbn [digit_val_in] in H; [discriminate|].
  destruct ((s <=? c) && (c <? s + 10)) eqn:E; [inversion H; subst; lia|eapply IH; exact H].
Qed.

Lemma int_digits_bound s : forall acc nd pd v nd',
  int_digits nd_starts s acc nd pd = Some (v, nd') -> acc < 10 ^ nd -> v < 10 ^ nd'.
Proof.
  induction s as [|c r IH]; intros acc nd pd v nd' H Ha; cbn [int_digits] in H.
  - destruct pd; [inversion H; subst; exact Ha|discriminate].
  - destruct (c =? 95).
    + destruct pd; [|discriminate]. destruct r as [|c' r']; [discriminate|]. eapply IH; eassumption.
    + destruct (digit_val nd_starts c) as [d|] eqn:Ed; [|discriminate].
      apply digit_val_in_lt in Ed. eapply IH; [exact H|].
      rewrite N.pow_add_r. change (10 ^ 1) with 10. nia.
Qed.

Lemma str_of_N_len v k : v < 10 ^ k -> (N.of_nat (length (str_of_N v)) <= N.max 1 k).
Proof.
  intros Hv. destruct (str_of_N_spec v) as [ds [E [_ [_ [_ Hmin]]]]]. rewrite E.
  destruct Hmin as [H1|Hge]; [rewrite H1; lia|].
  assert (Hlt : 10 ^ N.of_nat (length ds - 1) < 10 ^ k) by lia.
  apply N.pow_lt_mono_r_iff in Hlt; lia.
Qed.

Lemma py_int_len s z : py_int nd_starts s = Some z -> (0 <= z)%Z -> (length (str_of_Z z) <= 4300)%nat.
Proof.
  unfold py_int. intros H Hz.
  destruct (match strip_ws s with
            | [] => (false, strip_ws s)
            | c :: r => if c =? 45 then (true, r) else if c =? 43 then (false, r) else (false, strip_ws s)
            end) as [neg body].
  destruct body as [|c b]; [discriminate|]. destruct (c =? 95); [discriminate|].
  destruct (int_digits nd_starts (c :: b) 0 0 false) as [[v nd]|] eqn:E; [|discriminate].
  destruct (4300 <? nd) eqn:En; [discriminate|].
  assert (Hb : v < 10 ^ nd) by (eapply int_digits_bound; [exact E|cbn; lia]).
  assert (Hlen : N.of_nat (length (str_of_N v)) <= 4300).
  { pose proof (str_of_N_len v nd Hb). lia. }
  assert (Hz' : z = Z.of_N v).
  { inversion H as [Hz0]. destruct neg; [|reflexivity]. rewrite <- Hz0 in Hz. lia. }
  rewrite Hz'. destruct v as [|p]; [cbn; lia|]. cbn [Z.of_N str_of_Z]. lia.
Qed.

(* ---- checksums -------------------------------------------------------------------------------- *)
Lemma dict_set_forall {A} (P : ustr * A -> Prop) k v l : P (k, v) -> Forall P l -> Forall P (dict_set k v l).
Proof.
  intros Hk. induction l as [|[k' v'] l IH]; intros H; cbn [dict_set].
  - constructor; [exact Hk|constructor].
  - inversion H; subst. destruct (ustr_eqb k k'); constructor; auto.
Qed.

Lemma parse_cks_wf l : forall acc c, Forall wf_word l -> wf_cks acc -> parse_cks l acc = Ok c -> wf_cks c.
Proof.
  induction l as [l IH] using (well_founded_induction (Wf_nat.well_founded_ltof _ (@length ustr))).
  intros acc c Hl Ha H. destruct l as [|k [|v r]]; cbn [parse_cks] in H.
  - inversion H; subst. exact Ha.
  - discriminate.
  - inversion Hl as [|? ? Hk Hl']; subst. inversion Hl' as [|? ? Hv Hr]; subst.
    eapply (IH r); [unfold ltof; cbn; lia|exact Hr| |exact H].
    destruct Ha as [Hn Hf]. split; [apply dict_set_nodup; exact Hn|].
    apply dict_set_forall; [split; assumption|exact Hf].
Qed.

Lemma process_checksums_wf data z c : Forall wf_word data -> process_checksums data = Ok (z, c) ->
  (0 <= z)%Z /\ (length (str_of_Z z) <= 4300)%nat /\ wf_cks c.
Proof.
  intros Hd H. unfold process_checksums in H. destruct data as [|a [|b [|sz rest]]]; try discriminate.
  destruct (py_int nd_starts sz) as [z'|] eqn:Ez; [|discriminate].
  destruct (z' <? 0)%Z eqn:Eneg; [discriminate|].
  destruct (parse_cks rest []) as [c'|] eqn:Ec; cbn [bind] in H; [|discriminate].
  inversion H; subst. split; [lia|]. split; [eapply py_int_len; [exact Ez|lia]|].
  eapply parse_cks_wf; [| |exact Ec].
  - inversion Hd as [|? ? _ H1]; subst. inversion H1 as [|? ? _ H2]; subst. inversion H2; subst. assumption.
  - split; [constructor|constructor].
Qed.

(* ---- entries ---------------------------------------------------------------------------------- *)
Lemma firstn_forall {A} (P : A -> Prop) n : forall l, Forall P l -> Forall P (firstn n l).
Proof.
  induction n as [|n IH]; intros l H; [constructor|]. destruct l; [constructor|].
  inversion H; subst. cbn [firstn]. constructor; auto.
Qed.

Theorem from_list_wf t data e : Forall good_word data -> from_list t data = Ok e -> wf_entry e.
Proof.
  intros Hg H.
  assert (Hw : Forall wf_word data) by (eapply Forall_impl; [|exact Hg]; intros a Ha; apply Ha).
  assert (Hv : Forall vstr data) by (eapply Forall_impl; [|exact Hg]; intros a Ha; apply Ha).
  assert (Hv2 : Forall vstr (firstn 2 data)) by (apply firstn_forall; exact Hv).
  assert (File : forall tg, file_tag tg -> tg <> TAUX -> tg <> TDIST ->
            (p <- process_path (firstn 2 data) ;; '(sz, c) <- process_checksums data ;; Ok (mk_file tg p sz c)) = Ok e ->
            wf_entry e).
  { intros tg Hft Hna Hnd H'.
    destruct (process_path (firstn 2 data)) as [p|] eqn:Ep; cbn [bind] in H'; [|discriminate].
    destruct (process_checksums data) as [[z c]|] eqn:Ec; cbn [bind] in H'; [|discriminate].
    destruct (process_checksums_wf data z c Hw Ec) as [Hz [Hl Hc]].
    pose proof (process_path_wf _ _ Hv2 Ep) as Hp.
    inversion H'; subst. destruct tg; cbn [mk_file wf_entry]; try congruence;
      (split; [exact Hft|]; split; [exact Hz|]; split; [exact Hl|]; split; [exact Hc|]; split; [exact Hp|reflexivity]). }
  destruct t; cbn [from_list] in H.
  - (* TIMESTAMP *) destruct data as [|a [|v [|x data]]]; try discriminate.
    destruct (strptime nd_starts v) eqn:E; [|discriminate]. inversion H; subst. cbn. eapply strptime_valid; exact E.
  - apply (File TMANIFEST); [split; discriminate|discriminate|discriminate|exact H].
  - (* IGNORE *) destruct (process_path data) as [p|] eqn:Ep; cbn [bind] in H; [|discriminate].
    inversion H; subst. cbn [wf_entry]. eapply process_path_wf; [exact Hv|exact Ep].
  - apply (File TDATA); [split; discriminate|discriminate|discriminate|exact H].
  - (* DIST *)
    destruct (process_path (firstn 2 data)) as [p|] eqn:Ep; cbn [bind] in H; [|discriminate].
    destruct (contains_cp slash p) eqn:Es; [discriminate|].
    destruct (process_checksums data) as [[z c]|] eqn:Ec; cbn [bind] in H; [|discriminate].
    destruct (process_checksums_wf data z c Hw Ec) as [Hz [Hl Hc]].
    pose proof (process_path_wf _ _ Hv2 Ep) as Hp.
    inversion H; subst. cbn [mk_file wf_entry].
    split; [split; discriminate|]. split; [exact Hz|]. split; [exact Hl|]. split; [exact Hc|].
    split; [exact Hp|]. split; [|reflexivity].
    intros Hin. unfold contains_cp in Es. assert (existsb (N.eqb slash) p = true); [|congruence].
    apply existsb_exists. exists slash. split; [exact Hin|apply N.eqb_refl].
  - apply (File TEBUILD); [split; discriminate|discriminate|discriminate|exact H].
  - apply (File TMISC); [split; discriminate|discriminate|discriminate|exact H].
  - (* AUX *)
    destruct (process_path (firstn 2 data)) as [p|] eqn:Ep; cbn [bind] in H; [|discriminate].
    destruct (process_checksums data) as [[z c]|] eqn:Ec; cbn [bind] in H; [|discriminate].
    destruct (process_checksums_wf data z c Hw Ec) as [Hz [Hl Hc]].
    pose proof (process_path_wf _ _ Hv2 Ep) as Hp.
    inversion H; subst. cbn [mk_file wf_entry].
    split; [split; discriminate|]. split; [exact Hz|]. split; [exact Hl|]. split; [exact Hc|].
    split; [exact Hp|reflexivity].
Qed.

(* ---- the loader ------------------------------------------------------------------------------- *)
Lemma step_tail_wf verify st es pgp line s' : vstr line -> Forall wf_entry es ->
  step_tail verify st es pgp line = Ok s' -> Forall wf_entry (ls_entries s').
Proof.
  intros Hl Hes. unfold step_tail. destruct (is_armor_line line); [discriminate|].
  assert (Keep : forall st', Ok (mk_ls st' es pgp) = Ok s' -> Forall wf_entry (ls_entries s')).
  { intros st' H. inversion H; subst. exact Hes. }
  assert (Parse : forall st', match split_ws (strip_ws line) with
            | [] => Ok (mk_ls st' es pgp)
            | t :: rest => match lookup_tag t with
                           | None => Err XSyntax
                           | Some tg => e <- from_list tg (t :: rest) ;; Ok (mk_ls st' (e :: es) pgp)
                           end
            end = Ok s' -> Forall wf_entry (ls_entries s')).
  { intros st'. pose proof (split_ws_good _ (strip_vstr _ Hl)) as Hg.
    destruct (split_ws (strip_ws line)) as [|t rest]; [apply Keep|].
    destruct (lookup_tag t) as [tg|]; [|discriminate].
    destruct (from_list tg (t :: rest)) as [e|] eqn:E; cbn [bind]; [|discriminate].
    intros H. inversion H; subst. cbn [ls_entries]. constructor; [eapply from_list_wf; eassumption|exact Hes]. }
  destruct st.
  - apply Parse.
  - apply Keep.
  - apply Parse.
  - apply Keep.
  - destruct (split_ws (strip_ws line)); [apply Keep|discriminate].
Qed.

Lemma load_step_wf verify s line s' : vstr line -> Forall wf_entry (ls_entries s) ->
  load_step verify s line = Ok s' -> Forall wf_entry (ls_entries s').
Proof.
  intros Hl Hes. unfold load_step. destruct (ls_state s).
  - destruct (ustr_eqb line l_begin_signed).
    + destruct (ls_entries s) eqn:E; [|discriminate]. intros H. inversion H; subst. cbn. constructor.
    + apply step_tail_wf; assumption.
  - destruct (strip_ws line); [apply step_tail_wf; assumption|intros H; inversion H; subst; exact Hes].
  - destruct (ustr_eqb line l_begin_sig); [intros H; inversion H; subst; exact Hes|].
    apply step_tail_wf; [|exact Hes]. destruct (py_startswith line [45; 32]); [apply skipn_vstr|]; exact Hl.
  - destruct (ustr_eqb line l_end_sig); [intros H; inversion H; subst; exact Hes|apply step_tail_wf; assumption].
  - apply step_tail_wf; assumption.
Qed.

(* every entry the parser returns for a Python str is well-formed *)
Theorem load_wf text verify es o : vstr text -> load text verify = Ok (es, o) -> Forall wf_entry es.
Proof.
  intros Ht. unfold load.
  assert (G : forall ls s s', Forall vstr ls -> Forall wf_entry (ls_entries s) -> load_lines verify s ls = Ok s' ->
                              Forall wf_entry (ls_entries s')).
  { induction ls as [|l ls IH]; intros s s' Hls Hs H; [inversion H; subst; exact Hs|].
    cbn [load_lines] in H. destruct (load_step verify s l) as [s1|] eqn:E; [|discriminate].
    cbn [bind] in H. inversion Hls; subst. eapply IH; [assumption| |exact H]. eapply load_step_wf; eassumption. }
  destruct (load_lines verify _ (py_lines text)) as [s|] eqn:E; cbn [bind]; [|discriminate].
  specialize (G _ (mk_ls SData [] []) s (py_lines_vstr _ Ht) (Forall_nil _) E).
  destruct (ls_state s); try discriminate; intros H; inversion H; subst; apply Forall_rev; exact G.
Qed.

(* ---- the writer's output is a fixed point as text: the checksum order is canonical ---------------- *)
From Coq Require Import Permutation Sorted.
From Gemato Require Import Proofs.SortTheory Proofs.FileRT.

Definition sl (a b : ustr) : Prop := ustr_ltb a b = true.
Lemma sl_irrefl a : ~ sl a a.
Proof. unfold sl. rewrite ustr_ltb_irrefl. discriminate. Qed.
Lemma sl_trans a b c : sl a b -> sl b c -> sl a c.
Proof. apply ustr_ltb_trans. Qed.
Lemma sl_total a b : sl a b \/ a = b \/ sl b a.
Proof.
  unfold sl. destruct (ustr_ltb a b) eqn:E1; [left; reflexivity|].
  destruct (ustr_ltb b a) eqn:E2; [right; right; reflexivity|]. right; left. apply ustr_tricho; assumption.
Qed.

Definition L (x y : ustr * ustr) : Prop := sl (fst x) (fst y) \/ (fst x = fst y /\ sl (snd x) (snd y)).
Lemma cks_ltb_L x y : cks_ltb x y = true <-> L x y.
Proof.
  unfold cks_ltb, L, sl. rewrite orb_true_iff, andb_true_iff. rewrite (Basics.ustr_eqb_eq (fst x) (fst y)). tauto.
Qed.
Lemma L_irrefl x : ~ L x x.
Proof. intros [H|[_ H]]; eapply sl_irrefl; exact H. Qed.
Lemma L_trans x y z : L x y -> L y z -> L x z.
Proof.
  unfold L. intros [H1|[E1 H1]] [H2|[E2 H2]].
  - left. eapply sl_trans; eassumption.
  - left. rewrite <- E2. exact H1.
  - left. rewrite E1. exact H2.
  - right. split; [congruence|eapply sl_trans; eassumption].
Qed.
Lemma L_total x y : L x y \/ x = y \/ L y x.
Proof.
  destruct x as [k1 v1], y as [k2 v2]. unfold L. cbn [fst snd].
  destruct (sl_total k1 k2) as [H|[->|H]]; [left; left; exact H| |right; right; left; exact H].
  destruct (sl_total v1 v2) as [H|[->|H]]; [left; right; split; [reflexivity|exact H]|right; left; reflexivity|].
  right; right; right. split; [reflexivity|exact H].
Qed.
Lemma not_L x y : cks_ltb x y = false <-> ~ L x y.
Proof.
  rewrite <- cks_ltb_L. destruct (cks_ltb x y); split; intros H.
  - discriminate.
  - exfalso; apply H; reflexivity.
  - discriminate.
  - reflexivity.
Qed.

Lemma sorted_cks_idem c : sorted_cks (sorted_cks c) = sorted_cks c.
Proof.
  unfold sorted_cks. apply (py_sorted_idem _ cks_ltb (fun _ => True)).
  - intros a b _ _ H. apply not_L. apply cks_ltb_L in H. intros H'. apply (L_irrefl a). eapply L_trans; eassumption.
  - intros a b d _ _ _. unfold le. rewrite !not_L. intros H1 H2 H3.
    (* not b<a, not d<b, d<a *)
    destruct (L_total a b) as [Hab|[->|Hba]]; [|contradiction|contradiction].
    destruct (L_total b d) as [Hbd|[->|Hdb]]; [|contradiction|contradiction].
    apply (L_irrefl a). eapply L_trans; [exact Hab|]. eapply L_trans; eassumption.
  - apply Forall_forall. intros; exact I.
  - intros a b _ _. unfold le. rewrite !not_L. intros H1 H2.
    destruct (L_total a b) as [H|[H|H]]; [contradiction|exact H|contradiction].
Qed.

Lemma to_list_norm e : to_list (norm e) = to_list e.
Proof. destruct e as [d|p|t p a s c]; [reflexivity..|]. cbn [norm to_list]. rewrite sorted_cks_idem. reflexivity. Qed.
Lemma dump_entries_norm es : dump_entries (map norm es) = dump_entries es.
Proof. induction es as [|e es IH]; [reflexivity|]. cbn [map dump_entries]. rewrite to_list_norm, IH. reflexivity. Qed.

(* C08: the canonical fixed point.  For every Python str the parser accepts, the written text is accepted
   again with equal entries (checksum dicts in the writer's order), and writing those gives the same text *)
Section Fix.
  Hypothesis strptime_strftime : forall d, dt_valid d = true -> strptime nd_starts (strftime d) = Some d.
  Theorem load_dump_fixpoint t es o : vstr t -> load t false = Ok (es, o) ->
    exists t', dump es false = Ok t' /\ load t' false = Ok (map norm es, None) /\ dump (map norm es) false = Ok t'.
  Proof.
    intros Hv H. pose proof (load_wf t false es o Hv H) as Hwf.
    destruct (load_dump strptime_strftime es false Hwf) as [t' [E1 E2]].
    exists t'. split; [exact E1|]. split; [exact E2|].
    unfold dump in *. rewrite dump_entries_norm. exact E1.
  Qed.
End Fix.
