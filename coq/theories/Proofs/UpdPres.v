(* C10, the directory update: update_entries_for_directory keeps the DIST and TIMESTAMP entries of every Manifest that was
   loaded before the call - same entries, same order.  The argument needs an invariant about the de-duplicated entry
   dictionary (its entry identities never belong to DIST / TIMESTAMP entries) and about entry identities being fresh. *)
From Coq Require Import List NArith ZArith Bool Lia.
From Gemato Require Import Py.PyStr Py.PyPath Py.PyTime Gen.Tables Gen.Util Gen.Profile
  Model.Entry Model.Text Model.OpenPGP Model.Hash Model.FS Model.Verify Model.Loader Model.Update.
From Gemato Require Import Proofs.Basics Proofs.SortTheory Proofs.OnePath.
Import ListNotations.
Open Scope N_scope.

(* an entry object with identity [id] and current value [e] exists somewhere in the loader *)
Definition carries (l : loader) (id : N) (e : entry) : Prop :=
  (exists mp m, get_m l mp = Some m /\ In (id, e) (mf_entries m)) \/ In (id, e) (l_detached l).
Definition ids_lt (l : loader) : Prop := forall id e, carries l id e -> id < l_next l.
(* all objects carrying one identity agree on being a DIST / TIMESTAMP entry (identities are in fact unique) *)
Definition dtuniq (l : loader) : Prop := forall id e1 e2, carries l id e1 -> carries l id e2 -> dt e1 = dt e2.
Definition W (l : loader) : Prop := ids_lt l /\ dtuniq l.

Definition step (l l' : loader) : Prop :=
  l_next l <= l_next l' /\ l_opts l' = l_opts l /\ pres l l' /\
  (forall id y, carries l' id y -> id < l_next l -> carries l id y \/ dt y = false) /\
  (W l -> W l').

Lemma step_refl l : step l l.
Proof. split; [lia|]. split; [reflexivity|]. split; [apply pres_refl|]. split; [intros; left; assumption|tauto]. Qed.
Lemma step_trans a b c : step a b -> step b c -> step a c.
Proof.
  intros [N1 [O1 [P1 [C1 I1]]]] [N2 [O2 [P2 [C2 I2]]]]. split; [lia|]. split; [congruence|]. split; [eapply pres_trans; eassumption|]. split; [|tauto].
  intros id y H Hlt. destruct (C2 id y H ltac:(lia)) as [H'|H']; [|right; exact H']. apply C1; assumption.
Qed.

Lemma find_id_In es id e : find_id es id = Some e -> In (id, e) es.
Proof.
  induction es as [|[j x] es IH]; [discriminate|]. cbn [find_id]. destruct (id =? j) eqn:E.
  - intros H. inversion H; subst. apply N.eqb_eq in E. subst. left. reflexivity.
  - intros H. right. apply IH. exact H.
Qed.
Lemma entry_at_carries l mp id e : entry_at l mp id = Some e -> carries l id e.
Proof.
  unfold entry_at. destruct (get_m l mp) as [m|] eqn:Em.
  - destruct (find_id (mf_entries m) id) as [x|] eqn:Ef.
    + intros H. inversion H; subst. left. exists mp, m. split; [exact Em|apply find_id_In; exact Ef].
    + intros H. right. apply find_id_In. exact H.
  - intros H. right. apply find_id_In. exact H.
Qed.

(* steps that only relabel bookkeeping *)
Lemma step_same l l' : l_loaded l' = l_loaded l -> l_detached l' = l_detached l -> l_next l' = l_next l ->
  l_opts l' = l_opts l -> step l l'.
Proof.
  intros E1 E2 E3 E4. assert (C : forall id y, carries l' id y <-> carries l id y).
  { intros id y. unfold carries, get_m. rewrite E1, E2. tauto. }
  split; [lia|]. split; [exact E4|]. split; [apply pres_same_loaded; exact E1|]. split.
  - intros id y H _. left. apply C. exact H.
  - intros [H1 H2]. split.
    + intros id e Hc. rewrite E3. apply (H1 id e). apply C. exact Hc.
    + intros id e1 e2 Hc1 Hc2. apply (H2 id); apply C; assumption.
Qed.
Lemma step_add_updated l p : step l (add_updated l p).
Proof. unfold add_updated. destruct (mem_str p (l_updated l)); [apply step_refl|apply step_same; reflexivity]. Qed.

Lemma In_set_id es id e' j y : In (j, y) (set_id es id e') -> (j = id /\ y = e') \/ In (j, y) es.
Proof.
  induction es as [|[k x] es IH]; [intros []|]. cbn [set_id]. destruct (id =? k) eqn:Ek.
  - intros [H|H]; [inversion H; subst; left; split; [apply N.eqb_eq in Ek; congruence|reflexivity]|right; right; exact H].
  - intros [H|H]; [right; left; exact H|]. destruct (IH H) as [E|E]; [left; exact E|right; right; exact E].
Qed.
Lemma In_set_id_ids es id e' j y : In (j, y) (set_id es id e') -> exists y0, In (j, y0) es.
Proof.
  induction es as [|[k x] es IH]; [intros []|]. cbn [set_id]. destruct (id =? k).
  - intros [H|H]; [inversion H; subst; exists x; left; reflexivity|exists y; right; exact H].
  - intros [H|H]; [exists y; left; exact H|]. destruct (IH H) as [y0 E]. exists y0. right. exact E.
Qed.

Lemma carries_put l mp m id y : carries (put_m l mp m) id y ->
  In (id, y) (mf_entries m) \/ carries l id y.
Proof.
  intros [[mp' [m' [G Hin]]]|Hd].
  - destruct (list_eq_dec N.eq_dec mp' mp) as [->|Hne].
    + rewrite get_put_same in G. inversion G; subst. left. exact Hin.
    + rewrite get_put_other in G by exact Hne. right. left. exists mp', m'. split; assumption.
  - right. right. exact Hd.
Qed.

Lemma step_set_entry_at l mp id e e' : entry_at l mp id = Some e -> dt e = false -> dt e' = false ->
  step l (set_entry_at l mp id e').
Proof.
  intros Ha He He'.
  assert (Nx : l_next (set_entry_at l mp id e') = l_next l).
  { unfold set_entry_at. destruct (get_m l mp) as [m|]; [destruct (find_id (mf_entries m) id)|]; reflexivity. }
  assert (C : forall j y, carries (set_entry_at l mp id e') j y -> (j = id /\ y = e') \/ carries l j y).
  { intros j y. unfold set_entry_at. destruct (get_m l mp) as [m|] eqn:Em.
    - destruct (find_id (mf_entries m) id) as [x|] eqn:Ef.
      + intros H. apply carries_put in H. cbn [mf_entries] in H. destruct H as [H|H]; [|right; exact H].
        apply In_set_id in H. destruct H as [H|H]; [left; exact H|right; left; exists mp, m; split; assumption].
      + intros [[mp' [m' [G Hin]]]|Hd]; [right; left; exists mp', m'; split; assumption|].
        cbn in Hd. apply In_set_id in Hd. destruct Hd as [H|H]; [left; exact H|right; right; exact H].
    - intros [[mp' [m' [G Hin]]]|Hd]; [right; left; exists mp', m'; split; assumption|].
      cbn in Hd. apply In_set_id in Hd. destruct Hd as [H|H]; [left; exact H|right; right; exact H]. }
  pose proof (entry_at_carries _ _ _ _ Ha) as Hce.
  split; [lia|]. split.
  { unfold set_entry_at. destruct (get_m l mp) as [m|]; [destruct (find_id (mf_entries m) id)|]; reflexivity. }
  split; [eapply set_entry_at_pres; eassumption|]. split.
  - intros j y H _. destruct (C j y H) as [[_ ->]|H']; [right; exact He'|left; exact H'].
  - intros [Hi Hu]. split.
    + intros j y H. rewrite Nx. destruct (C j y H) as [[-> _]|H']; [apply (Hi id e Hce)|apply (Hi j y H')].
    + intros j y1 y2 H1 H2. destruct (C j y1 H1) as [[E1 F1]|H1'], (C j y2 H2) as [[E2 F2]|H2']; subst.
      * reflexivity.
      * rewrite He', <- He. apply (Hu id); assumption.
      * rewrite He', <- He. apply (Hu id); assumption.
      * apply (Hu j); assumption.
Qed.

Lemma step_append l mp e : dt e = false -> ids_lt l -> step l (append_entry l mp e).
Proof.
  intros He Hi0. unfold append_entry. destruct (get_m l mp) as [m|] eqn:Em; [|apply step_refl].
  assert (C : forall j y, carries (set_next (put_m l mp (mk_mf (mf_entries m ++ [(l_next l, e)]) (mf_signed m))) (l_next l + 1)) j y ->
              (j = l_next l /\ y = e) \/ carries l j y).
  { intros j y [[mp' [m' [G Hin]]]|Hd].
    - change (get_m (put_m l mp (mk_mf (mf_entries m ++ [(l_next l, e)]) (mf_signed m))) mp' = Some m') in G.
      destruct (list_eq_dec N.eq_dec mp' mp) as [->|Hne].
      + rewrite get_put_same in G. inversion G; subst. cbn [mf_entries] in Hin. apply in_app_or in Hin.
        destruct Hin as [H|[H|[]]]; [right; left; exists mp, m; split; assumption|inversion H; subst; left; split; reflexivity].
      + rewrite get_put_other in G by exact Hne. right. left. exists mp', m'. split; assumption.
    - right. right. exact Hd. }
  split; [cbn; lia|]. split; [reflexivity|]. split.
  - eapply pres_trans; [eapply pres_put; [exact Em|]|apply pres_same_loaded; reflexivity].
    unfold dtv. cbn [mf_entries]. rewrite map_app, filter_app. cbn [map snd filter]. rewrite He. apply app_nil_r.
  - split.
    + intros j y H Hlt. destruct (C j y H) as [[-> ->]|H']; [right; exact He|left; exact H'].
    + intros [Hi Hu]. split.
      * intros j y H. cbn [l_next set_next]. destruct (C j y H) as [[-> ->]|H']; [lia|]. specialize (Hi j y H'). lia.
      * intros j y1 y2 H1 H2. destruct (C j y1 H1) as [[E1 F1]|H1'], (C j y2 H2) as [[E2 F2]|H2']; subst.
        -- reflexivity.
        -- specialize (Hi _ _ H2'). lia.
        -- specialize (Hi _ _ H1'). lia.
        -- apply (Hu j); assumption.
Qed.

Lemma remove_eq_In es x es' d : remove_eq es x = Some (es', d) ->
  In d es /\ entry_eqb (snd d) x = true /\ forall p, In p es' -> In p es.
Proof.
  revert es' d. induction es as [|[j e] es IH]; intros es' d H; [discriminate|]. cbn [remove_eq] in H.
  destruct (entry_eqb e x) eqn:E.
  - inversion H; subst. split; [left; reflexivity|]. split; [exact E|]. intros p Hp. right. exact Hp.
  - destruct (remove_eq es x) as [[r' d']|] eqn:Er; [|discriminate]. inversion H; subst.
    destruct (IH _ _ eq_refl) as [H1 [H2 H3]]. split; [right; exact H1|]. split; [exact H2|].
    intros p [<-|Hp]; [left; reflexivity|right; apply H3; exact Hp].
Qed.

Lemma step_remove l mp x l' : dt x = false -> remove_entry_eq l mp x = Ok l' -> step l l'.
Proof.
  intros Hx H. pose proof (remove_entry_eq_pres _ _ _ _ Hx H) as P. unfold remove_entry_eq in H.
  destruct (get_m l mp) as [m|] eqn:Em; [|discriminate].
  destruct (remove_eq (mf_entries m) x) as [[es d]|] eqn:Er; [|discriminate]. inversion H; subst. clear H.
  destruct (remove_eq_In _ _ _ _ Er) as [Hd [_ Hsub]].
  assert (C : forall j y, carries (set_detached (put_m l mp (mk_mf es (mf_signed m))) (d :: l_detached l)) j y -> carries l j y).
  { intros j y [[mp' [m' [G Hin]]]|Hdd].
    - change (get_m (put_m l mp (mk_mf es (mf_signed m))) mp' = Some m') in G.
      destruct (list_eq_dec N.eq_dec mp' mp) as [->|Hne].
      + rewrite get_put_same in G. inversion G; subst. left. exists mp, m. split; [exact Em|apply Hsub; exact Hin].
      + rewrite get_put_other in G by exact Hne. left. exists mp', m'. split; assumption.
    - cbn in Hdd. destruct Hdd as [Hdd|Hdd]; [left; exists mp, m; split; [exact Em|rewrite <- Hdd; exact Hd]|right; exact Hdd]. }
  split; [cbn; lia|]. split; [reflexivity|]. split; [exact P|]. split.
  - intros j y Hc _. left. apply C. exact Hc.
  - intros [Hi Hu]. split.
    + intros j y Hc. cbn [l_next set_detached put_m set_loaded]. apply (Hi j y). apply C. exact Hc.
    + intros j y1 y2 H1 H2. apply (Hu j); apply C; assumption.
Qed.

(* ---- loading: only new identities appear --------------------------------------------------------------- *)
Definition grow (l l' : loader) : Prop :=
  l_next l <= l_next l' /\ l_opts l' = l_opts l /\
  (forall id y, carries l' id y -> id < l_next l -> carries l id y) /\ (W l -> W l').
Lemma grow_refl l : grow l l.
Proof. split; [lia|]. split; [reflexivity|]. split; [intros; assumption|tauto]. Qed.
Lemma grow_trans a b c : grow a b -> grow b c -> grow a c.
Proof.
  intros [N1 [O1 [C1 I1]]] [N2 [O2 [C2 I2]]]. split; [lia|]. split; [congruence|]. split; [|tauto].
  intros id y H Hlt. apply C1; [|exact Hlt]. apply C2; [exact H|lia].
Qed.
Lemma grow_pres_step l l' : grow l l' -> pres l l' -> step l l'.
Proof.
  intros [N1 [O1 [C1 I1]]] P. split; [exact N1|]. split; [exact O1|]. split; [exact P|]. split; [|exact I1].
  intros id y H Hlt. left. apply C1; assumption.
Qed.

Section Load.
  Variable L : hashlib.
  Variable decompress : list N -> list N -> res (list N).
  Variable pgp_verify : list N -> res sigdata.

  Lemma number_entries_ids es : forall n ids nx, number_entries es n = (ids, nx) ->
    n <= nx /\ (forall j e, In (j, e) ids -> n <= j < nx) /\
    (forall j e1 e2, In (j, e1) ids -> In (j, e2) ids -> e1 = e2).
  Proof.
    induction es as [|e es IH]; intros n ids nx H; cbn [number_entries] in H.
    - inversion H; subst. split; [lia|]. split; [intros j e []|intros j e1 e2 []].
    - destruct (number_entries es (n + 1)) as [t n'] eqn:E. inversion H; subst.
      destruct (IH _ _ _ E) as [H1 [H2 H3]]. split; [lia|]. split.
      + intros j x [Hj|Hj]; [inversion Hj; subst; lia|]. specialize (H2 j x Hj). lia.
      + intros j e1 e2 [A|A] [B|B].
        * congruence.
        * inversion A; subst. specialize (H2 _ _ B). lia.
        * inversion B; subst. specialize (H2 _ _ A). lia.
        * eapply H3; eassumption.
  Qed.

  Lemma carries_set_loaded_new l l2 rp m : l_loaded l2 = l_loaded l -> l_detached l2 = l_detached l ->
    forall id y, carries (set_loaded l2 (dict_set rp m (l_loaded l2))) id y -> In (id, y) (mf_entries m) \/ carries l id y.
  Proof.
    intros E1 E2 id y [[mp' [m' [G Hin]]]|Hd].
    - unfold get_m in G. cbn in G. destruct (list_eq_dec N.eq_dec mp' rp) as [->|Hne].
      + rewrite dict_set_get in G. inversion G; subst. left. exact Hin.
      + rewrite dict_set_other in G by (apply ustr_eqb_neq; exact Hne). right. left. exists mp', m'.
        unfold get_m. rewrite <- E1. split; assumption.
    - right. right. cbn in Hd. rewrite <- E2. exact Hd.
  Qed.

  Lemma load_manifest_grow w l rp ve ac sd l' m :
    load_manifest L decompress pgp_verify w l rp ve ac sd = Ok (l', m) -> grow l l'.
  Proof.
    unfold load_manifest. intros H.
    assert (Key : forall l2 ids sg nx, l_loaded l2 = l_loaded l -> l_detached l2 = l_detached l -> l_opts l2 = l_opts l ->
              l_next l2 = nx -> l_next l <= nx -> (forall j e, In (j, e) ids -> l_next l <= j < nx) ->
              (forall j e1 e2, In (j, e1) ids -> In (j, e2) ids -> e1 = e2) ->
              grow l (set_loaded l2 (dict_set rp (mk_mf ids sg) (l_loaded l2)))).
    { intros l2 ids sg nx E1 E2 E3 E4 Hn Hids Hun. split; [cbn; lia|]. split; [exact E3|]. split.
      - intros id y Hc Hlt. destruct (carries_set_loaded_new l l2 rp _ E1 E2 id y Hc) as [Hin|Hc']; [|exact Hc'].
        cbn [mf_entries] in Hin. specialize (Hids _ _ Hin). lia.
      - intros [Hi Hu]. split.
        + intros id y Hc. cbn [l_next set_loaded]. rewrite E4.
          destruct (carries_set_loaded_new l l2 rp _ E1 E2 id y Hc) as [Hin|Hc'].
          * cbn [mf_entries] in Hin. specialize (Hids _ _ Hin). lia.
          * specialize (Hi id y Hc'). lia.
        + intros id y1 y2 H1 H2.
          destruct (carries_set_loaded_new l l2 rp _ E1 E2 id y1 H1) as [A|A], (carries_set_loaded_new l l2 rp _ E1 E2 id y2 H2) as [B|B];
            cbn [mf_entries] in *.
          * rewrite (Hun _ _ _ A B). reflexivity.
          * specialize (Hids _ _ A). specialize (Hi _ _ B). lia.
          * specialize (Hids _ _ B). specialize (Hi _ _ A). lia.
          * apply (Hu id); assumption. }
    destruct (verify_and_load L decompress pgp_verify w l rp ve) as [[[es sg] st]|ex].
    - destruct (number_entries es (l_next l)) as [ids nx] eqn:En. cbn [bind] in H.
      destruct (number_entries_ids _ _ _ _ En) as [Hn [Hids Hun]].
      inversion H; subst. destruct sd; apply (Key _ ids sg nx); try reflexivity; assumption.
    - destruct ex; try discriminate. destruct e; try discriminate. destruct ac; [|discriminate].
      destruct (p_stat w (dirname (pjoin rootdir rp))) as [st|]; cbn [bind] in H; [|discriminate].
      match type of H with context [number_entries ?igs ?n0] => destruct (number_entries igs n0) as [ids nx] eqn:En end.
      cbn [bind] in H. destruct (number_entries_ids _ _ _ _ En) as [Hn [Hids Hun]].
      assert (Enx : l_next (add_updated l rp) = l_next l) by (unfold add_updated; destruct (mem_str rp (l_updated l)); reflexivity).
      rewrite Enx in Hn, Hids.
      inversion H; subst. destruct sd; apply (Key _ ids false nx); try reflexivity; try assumption;
        cbn; unfold add_updated; destruct (mem_str rp (l_updated l)); reflexivity.
  Qed.

  Lemma load_list_grow w tl : forall l l', load_list L decompress pgp_verify w l tl = Ok l' -> grow l l'.
  Proof.
    induction tl as [|[mpath ve] tl IH]; intros l l' H; [inversion H; apply grow_refl|].
    cbn [load_list] in H. destruct (load_manifest L decompress pgp_verify w l mpath ve false false) as [[l1 m]|] eqn:E; cbn [bind] in H; [|discriminate].
    eapply grow_trans; [eapply load_manifest_grow; exact E|apply IH; exact H].
  Qed.

  Lemma load_manifests_grow fuel w : forall l path rec v l',
    load_manifests_for_path L decompress pgp_verify fuel w l path rec v = Ok l' -> grow l l'.
  Proof.
    induction fuel as [|f IH]; intros l path rec v l' H; [discriminate|]. cbn [load_manifests_for_path] in H.
    destruct (to_load l path rec v) as [|x tl] eqn:Et; [inversion H; apply grow_refl|].
    destruct (load_list L decompress pgp_verify w l (x :: tl)) as [l1|] eqn:El; cbn [bind] in H; [|discriminate].
    eapply grow_trans; [eapply load_list_grow; exact El|eapply IH; exact H].
  Qed.

  Lemma load_manifests_step fuel w l path rec v l' :
    load_manifests_for_path L decompress pgp_verify fuel w l path rec v = Ok l' -> step l l'.
  Proof. intros H. apply grow_pres_step; [eapply load_manifests_grow; exact H|eapply load_manifests_pres; exact H]. Qed.

  (* loading a Manifest that is not loaded yet *)
  Lemma load_manifest_step w l rp ve ac sd l' m : get_m l rp = None ->
    load_manifest L decompress pgp_verify w l rp ve ac sd = Ok (l', m) -> step l l'.
  Proof.
    intros Hn H. apply grow_pres_step; [eapply load_manifest_grow; exact H|].
    intros mp m0 Hm. exists m0. split; [|reflexivity].
    rewrite (load_manifest_frame L decompress pgp_verify _ _ _ _ _ _ _ _ H mp); [exact Hm|]. intros ->. congruence.
  Qed.
End Load.

(* ---- folds over result accumulators ------------------------------------------------------------------- *)
Lemma fold_err {A S} (f : res S -> A -> res S) : (forall e x, f (Err e) x = Err e) ->
  forall items e, fold_left f items (Err e) = Err e.
Proof. intros H items. induction items as [|x items IH]; intros e; [reflexivity|]. cbn [fold_left]. rewrite H. apply IH. Qed.

Lemma fold_res_inv {A S} (f : res S -> A -> res S) (R : S -> S -> Prop) (Inv : S -> Prop) :
  (forall s, R s s) -> (forall a b c, R a b -> R b c -> R a c) ->
  (forall e x, f (Err e) x = Err e) ->
  (forall s x s', Inv s -> f (Ok s) x = Ok s' -> R s s' /\ Inv s') ->
  forall items s s', Inv s -> fold_left f items (Ok s) = Ok s' -> R s s' /\ Inv s'.
Proof.
  intros Rr Rt He Hs items. induction items as [|x items IH]; intros s s' Hi H.
  - inversion H; subst. split; [apply Rr|exact Hi].
  - cbn [fold_left] in H. destruct (f (Ok s) x) as [s1|e] eqn:E.
    + destruct (Hs _ _ _ Hi E) as [R1 I1]. destruct (IH _ _ I1 H) as [R2 I2]. split; [eapply Rt; eassumption|exact I2].
    + rewrite fold_err in H by exact He. discriminate.
Qed.

(* ---- the de-duplicated dictionary ---------------------------------------------------------------------- *)
Definition edinv (l : loader) (ed : list (list N * (list N * N))) : Prop :=
  forall k mp id, In (k, (mp, id)) ed -> id < l_next l /\ forall e, carries l id e -> dt e = false.
Definition sub {A} (a b : list A) : Prop := forall x, In x a -> In x b.

Lemma edinv_step l l' ed : step l l' -> edinv l ed -> edinv l' ed.
Proof.
  intros [N1 [_ [_ [C _]]]] H k mp id Hin. destruct (H k mp id Hin) as [Hlt Hd]. split; [lia|].
  intros e Hc. destruct (C id e Hc Hlt) as [Hc'|Hf]; [apply Hd; exact Hc'|exact Hf].
Qed.
Lemma edinv_sub l ed ed' : sub ed' ed -> edinv l ed -> edinv l ed'.
Proof. intros Hs H k mp id Hin. apply (H k mp id). apply Hs. exact Hin. Qed.
Lemma sub_dict_del {A} k (l : list (ustr * A)) : sub (dict_del k l) l.
Proof.
  induction l as [|[k' v] l IH]; intros x Hx; [exact Hx|]. cbn [dict_del] in Hx.
  destruct (ustr_eqb k k'); [right; exact Hx|]. destruct Hx as [Hx|Hx]; [left; exact Hx|right; apply IH; exact Hx].
Qed.
Lemma In_dict_set {A} k (v : A) l x : In x (dict_set k v l) -> x = (k, v) \/ In x l.
Proof.
  induction l as [|[k' v'] l IH]; cbn [dict_set].
  - intros [H|[]]. left. congruence.
  - destruct (ustr_eqb k k').
    + intros [H|H]; [left; congruence|right; right; exact H].
    + intros [H|H]; [right; left; exact H|]. destruct (IH H) as [E|E]; [left; exact E|right; right; exact E].
Qed.
Lemma sub_refl {A} (a : list A) : sub a a. Proof. intros x H; exact H. Qed.
Lemma sub_trans {A} (a b c : list A) : sub a b -> sub b c -> sub a c. Proof. intros H1 H2 x H. apply H2, H1, H. Qed.

Section Walks.
  Variable L : hashlib.
  Variable decompress : list N -> list N -> res (list N).
  Variable pgp_verify : list N -> res sigdata.

  Lemma gfed_step w l path ot v l' ed :
    get_file_entry_dict L decompress pgp_verify w l path ot v = Ok (l', ed) -> step l l'.
  Proof.
    unfold get_file_entry_dict.
    destruct (load_manifests_for_path L decompress pgp_verify rounds_fuel w l path true v) as [l1|] eqn:El; cbn [bind]; [|discriminate].
    match goal with |- (out <- ?X ;; _) = _ -> _ => destruct X as [out|]; cbn [bind]; [|discriminate] end.
    intros H. inversion H; subst. eapply load_manifests_step. exact El.
  Qed.

  (* the scan for unregistered Manifests only loads Manifests that are not loaded yet *)
  Lemma walk_unreg_step fuel w : forall l dp rel ids ed found r,
    walk_unreg L decompress pgp_verify fuel w l dp rel ids ed found = Ok r -> step l (snd (fst r)).
  Proof.
    induction fuel as [|f IH]; intros l dp rel ids ed found res0 H; [discriminate|]. cbn [walk_unreg] in H.
    destruct (p_scandir w dp) as [ents|]; cbn [bind] in H; [|discriminate].
    destruct (p_stat w dp) as [dst|]; cbn [bind] in H; [|discriminate].
    destruct (match l_dev l with Some d => negb (st_dev dst =? d) | None => false end); [discriminate|].
    match type of H with (if ?c then _ else _) = _ => destruct c; [discriminate|] end.
    match type of H with (keep <- ?X ;; _) = _ => destruct X as [keep|]; cbn [bind] in H; [|discriminate] end.
    match type of H with (r0 <- fold_left ?F ?names ?init ;; _) = _ =>
      destruct (fold_left F names init) as [r0|] eqn:Er; cbn [bind] in H; [|discriminate];
      assert (S1 : step l (fst r0))
    end.
    { eapply (fold_res_inv _ (fun a b => step (fst a) (fst b)) (fun _ => True)) in Er;
        [exact (proj1 Er)|intros; apply step_refl|intros a b c; apply step_trans|reflexivity| |exact I].
      intros [l0 fnd] mname s' _ Hf. split; [|exact I]. cbn [bind] in Hf.
      destruct (mem_str mname (map fst (filter (fun x => negb (snd x)) ents))); [|inversion Hf; apply step_refl].
      destruct (assoc (pjoin rel mname) (l_loaded l0)) eqn:Ea; [inversion Hf; apply step_refl|].
      match type of Hf with (if ?c then _ else _) = _ => destruct c; [inversion Hf; apply step_refl|] end.
      destruct (load_manifest L decompress pgp_verify w l0 (pjoin rel mname) None false false) as [[l1 m]|ex] eqn:Elm.
      - inversion Hf; subst. cbn [fst]. eapply load_manifest_step; [exact Ea|exact Elm].
      - destruct ex; try discriminate; inversion Hf; apply step_refl. }
    eapply step_trans; [exact S1|].
    eapply (fold_res_inv _ (fun a b => step (snd (fst a)) (snd (fst b))) (fun _ => True)) in H;
      [exact (proj1 H)|intros; apply step_refl|intros a b c; apply step_trans|reflexivity| |exact I].
    intros [[i l0] fnd] d s' _ Hf. split; [|exact I]. cbn [bind] in Hf. cbn [fst snd]. eapply IH. exact Hf.
  Qed.

  Lemma load_unregistered_step w l path v l' nm :
    load_unregistered_manifests L decompress pgp_verify w l path v = Ok (l', nm) -> step l l'.
  Proof.
    unfold load_unregistered_manifests.
    destruct (get_file_entry_dict L decompress pgp_verify w l path (Some [TIGNORE]) v) as [[l1 ed]|] eqn:Eg; cbn [bind]; [|discriminate].
    destruct (walk_unreg L decompress pgp_verify (nodes_fuel w) w l1 (walk_top path) path [] ed []) as [[[i l2] found]|] eqn:Ew; cbn [bind]; [|discriminate].
    intros H. inversion H; subst. eapply step_trans; [eapply gfed_step; exact Eg|].
    apply (walk_unreg_step _ _ _ _ _ _ _ _ _ Ew).
  Qed.
End Walks.

(* ---- de-duplication ------------------------------------------------------------------------------------ *)
Lemma remove_all_step mp rm : Forall (fun e => dt e = false) rm -> forall l l',
  fold_left (fun (acc : res loader) e => l0 <- acc ;; remove_entry_eq l0 mp e) rm (Ok l) = Ok l' -> step l l'.
Proof.
  induction rm as [|e rm IH]; intros Hrm l l' H; [inversion H; apply step_refl|].
  inversion Hrm as [|? ? He Hr]; subst. cbn [fold_left bind] in H.
  destruct (remove_entry_eq l mp e) as [l1|] eqn:E.
  - eapply step_trans; [eapply step_remove; eassumption|]. apply IH; assumption.
  - rewrite fold_err in H by reflexivity. discriminate.
Qed.

Lemma dt_same_tag t p a s c p' a' s' c' : dt (EFile t p a s c) = dt (EFile t p' a' s' c').
Proof. reflexivity. Qed.

Lemma dedup_manifest_step l out path mpath relpath l' out' :
  W l -> edinv l out -> dedup_manifest l out path mpath relpath = Ok (l', out') -> step l l' /\ edinv l' out'.
Proof.
  intros Hw He. unfold dedup_manifest. destruct (get_m l mpath) as [m0|] eqn:Em; [|intros H; inversion H; subst; split; [apply step_refl|exact He]].
  match goal with |- (r <- fold_left ?F ?es ?init ;; _) = _ -> _ => set (F0 := F) end.
  assert (Inner : forall es s s',
            (W (fst (fst s)) /\ edinv (fst (fst s)) (snd (fst s)) /\ Forall (fun e => dt e = false) (snd s)) ->
            fold_left F0 es (Ok s) = Ok s' ->
            step (fst (fst s)) (fst (fst s')) /\
            (W (fst (fst s')) /\ edinv (fst (fst s')) (snd (fst s')) /\ Forall (fun e => dt e = false) (snd s'))).
  { apply (fold_res_inv F0 (fun a b => step (fst (fst a)) (fst (fst b)))); [intros; apply step_refl|intros a b c; apply step_trans|reflexivity|].
    intros [[l0 o] rm] ie s' [W0 [E0 R0]] Hf. cbn [fst snd] in *. unfold F0 in Hf. cbn [bind] in Hf.
    assert (Same : Ok (l0, o, rm) = Ok s' -> step l0 (fst (fst s')) /\ (W (fst (fst s')) /\ edinv (fst (fst s')) (snd (fst s')) /\ Forall (fun e => dt e = false) (snd s'))).
    { intros H. inversion H; subst. cbn. split; [apply step_refl|auto]. }
    destruct (entry_at l0 mpath (fst ie)) as [e|] eqn:Ee; [|exact (Same Hf)].
    assert (Body : dt e = false ->
      (let fullpath := pjoin relpath (e_path e) in
       if path_starts_with fullpath path then
         match assoc fullpath o with
         | Some (kmpath, kid) =>
             match entry_at l0 kmpath kid with
             | None => Err (XInternal IKey)
             | Some kept =>
                 '(ok, diff) <- verify_entry_compatibility kept e ;;
                 if negb ok && match diff with (n, _, _) :: _ => ustr_eqb n s_type | [] => false end
                 then Err (XIncompatible (e_path kept)) else
                 let l1 := match e, kept with
                           | EFile _ _ _ _ c, EFile kt kp ka ks kc =>
                               add_updated (set_entry_at l0 kmpath kid
                                 (EFile kt kp ka ks (fold_left (fun acc kv => dict_set (fst kv) (snd kv) acc) c kc))) kmpath
                           | _, _ => l0
                           end in
                 Ok (l1, o, rm ++ [e])
             end
         | None => Ok (l0, dict_set fullpath (mpath, fst ie) o, rm)
         end
       else Ok (l0, o, rm)) = Ok s' ->
      step l0 (fst (fst s')) /\ (W (fst (fst s')) /\ edinv (fst (fst s')) (snd (fst s')) /\ Forall (fun e => dt e = false) (snd s'))).
    { intros De. cbn zeta. destruct (path_starts_with (pjoin relpath (e_path e)) path); [|exact Same].
      destruct (assoc (pjoin relpath (e_path e)) o) as [[kmpath kid]|] eqn:Ea.
      - destruct (entry_at l0 kmpath kid) as [kept|] eqn:Ek; [|discriminate].
        destruct (verify_entry_compatibility kept e) as [[ok diff]|]; cbn [bind]; [|discriminate].
        match goal with |- (if ?c then _ else _) = _ -> _ => destruct c; [discriminate|] end.
        assert (Dk : dt kept = false).
        { apply assoc_In in Ea. destruct (E0 _ _ _ Ea) as [_ Hd]. apply Hd. eapply entry_at_carries. exact Ek. }
        intros H. inversion H; subst. cbn [fst snd].
        assert (S1 : step l0 (match e, kept with
                           | EFile _ _ _ _ c, EFile kt kp ka ks kc =>
                               add_updated (set_entry_at l0 kmpath kid
                                 (EFile kt kp ka ks (fold_left (fun acc kv => dict_set (fst kv) (snd kv) acc) c kc))) kmpath
                           | _, _ => l0
                           end)).
        { destruct e as [d|p|t p a s c]; try apply step_refl. destruct kept as [d'|p'|kt kp ka ks kc]; try apply step_refl.
          eapply step_trans; [|apply step_add_updated]. eapply step_set_entry_at; [exact Ek|exact Dk|].
          rewrite <- Dk. apply dt_same_tag. }
        split; [exact S1|]. split; [apply (proj2 (proj2 (proj2 (proj2 S1)))); exact W0|].
        split; [eapply edinv_step; eassumption|]. apply Forall_app. split; [exact R0|constructor; [exact De|constructor]].
      - intros H. inversion H; subst. cbn [fst snd]. split; [apply step_refl|]. split; [exact W0|]. split; [|exact R0].
        intros k mp id Hin. apply In_dict_set in Hin. destruct Hin as [Hin|Hin]; [|apply (E0 k mp id Hin)].
        inversion Hin; subst. pose proof (entry_at_carries _ _ _ _ Ee) as Hc. destruct W0 as [Hi Hu]. split; [apply (Hi _ _ Hc)|].
        intros e' Hc'. rewrite <- De. apply (Hu (fst ie)); assumption. }
    destruct (e_tag e) eqn:Et; try exact (Same Hf); apply Body; try exact Hf; unfold dt; rewrite Et; reflexivity. }
  match goal with |- context [fold_left F0 ?a ?b] => destruct (fold_left F0 a b) as [[[l1 o1] rm]|] eqn:Ef; cbn [bind]; [|discriminate] end.
  destruct (Inner _ (l, out, []) _ (conj Hw (conj He (Forall_nil _))) Ef) as [S1 [W1 [E1 R1]]]. cbn [fst snd] in *.
  destruct rm as [|x rm]; [intros H; inversion H; subst; split; assumption|].
  match goal with |- (l2 <- ?X ;; _) = _ -> _ => destruct X as [l2|] eqn:E2; cbn [bind]; [|discriminate] end.
  intros H. inversion H; subst.
  assert (S2 : step l1 (add_updated l2 mpath)).
  { eapply step_trans; [eapply remove_all_step; [exact R1|exact E2]|apply step_add_updated]. }
  split; [eapply step_trans; eassumption|eapply edinv_step; eassumption].
Qed.

Section Upd.
  Variable L : hashlib.
  Variable decompress : list N -> list N -> res (list N).
  Variable pgp_verify : list N -> res sigdata.
  Notation upd_entry := (Verify.update_entry_for_path L).

  Lemma get_dedup_dict_step w l path v l' ed : W l ->
    get_dedup_dict L decompress pgp_verify w l path v = Ok (l', ed) -> step l l' /\ edinv l' ed.
  Proof.
    intros Hw. unfold get_dedup_dict.
    destruct (load_manifests_for_path L decompress pgp_verify rounds_fuel w l path true v) as [l1|] eqn:El; cbn [bind]; [|discriminate].
    pose proof (load_manifests_step L decompress pgp_verify _ _ _ _ _ _ _ El) as S1.
    assert (W1 : W l1) by (apply (proj2 (proj2 (proj2 (proj2 S1)))); exact Hw).
    intros H.
    match type of H with fold_left ?F ?items _ = _ => set (F0 := F) in H end.
    assert (G : step l1 l' /\ (W l' /\ edinv l' ed)).
    { apply (fold_res_inv F0 (fun a b => step (fst a) (fst b)) (fun a => W (fst a) /\ edinv (fst a) (snd a))) with (s := (l1, [])) (s' := (l', ed)) in H;
        [exact H|intros; apply step_refl|intros a b c; apply step_trans|reflexivity| |].
      - intros [l0 o] [[mp rp] m] s' [W0 E0] Hf. unfold F0 in Hf. cbn [bind] in Hf. destruct s' as [l2 o2].
        destruct (dedup_manifest_step _ _ _ _ _ _ _ W0 E0 Hf) as [S2 E2]. cbn [fst snd].
        split; [exact S2|]. split; [apply (proj2 (proj2 (proj2 (proj2 S2)))); exact W0|exact E2].
      - cbn [fst snd]. split; [exact W1|]. intros k mp id []. }
    destruct G as [S2 [_ E2]]. split; [eapply step_trans; eassumption|exact E2].
  Qed.

  (* ---- the walk -------------------------------------------------------------------------------------- *)
  Definition UInv (s : ustate) : Prop :=
    W (us_l s) /\ edinv (us_l s) (us_ed s) /\ o_profile (l_opts (us_l s)) = PDefault.
  Definition UR (s s' : ustate) : Prop := step (us_l s) (us_l s') /\ sub (us_ed s') (us_ed s).
  Lemma UR_refl s : UR s s. Proof. split; [apply step_refl|apply sub_refl]. Qed.
  Lemma UR_trans a b c : UR a b -> UR b c -> UR a c.
  Proof. intros [S1 B1] [S2 B2]. split; [eapply step_trans; eassumption|eapply sub_trans; eassumption]. Qed.
  Lemma UInv_UR s s' : UInv s -> UR s s' -> UInv s'.
  Proof.
    intros [Hw [He Hp]] [S B]. split; [apply (proj2 (proj2 (proj2 (proj2 S)))); exact Hw|].
    split; [eapply edinv_sub; [exact B|eapply edinv_step; eassumption]|].
    destruct S as [_ [O _]]. rewrite O. exact Hp.
  Qed.

  Lemma new_type_not_dist (b : bool) fpath :
    ustr_eqb (if b then tag_str TMANIFEST else profile_entry_type PDefault fpath) (tag_str TDIST) = false.
  Proof. destruct b; vm_compute; reflexivity. Qed.

  Lemma scan_files_step w dp rel nm hashes lm filenames s s' news lastft : UInv s ->
    scan_files L w dp rel nm hashes lm filenames s = Ok (s', news, lastft) ->
    UR s s' /\ Forall (fun e => dt e = false) news.
  Proof.
    intros Hi. unfold scan_files. intros H.
    match type of H with fold_left ?F _ _ = _ => set (F0 := F) in H end.
    apply (fold_res_inv F0 (fun a b => UR (fst (fst a)) (fst (fst b)))
             (fun a => UInv (fst (fst a)) /\ Forall (fun e => dt e = false) (snd (fst a)))) with (s := (s, [], None)) (s' := (s', news, lastft)) in H;
      [destruct H as [R [_ F]]; split; assumption|intros; apply UR_refl|intros a b c; apply UR_trans|reflexivity| |split; [exact Hi|constructor]].
    clear H. intros [[s0 nw] lf] f r [I0 N0] Hf. cbn [fst snd] in *. unfold F0 in Hf. cbn [bind] in Hf.
    assert (Same : forall s1 nw1 lf1, UR s0 s1 -> Forall (fun e => dt e = false) nw1 -> Ok (s1, nw1, lf1) = Ok r ->
              UR s0 (fst (fst r)) /\ (UInv (fst (fst r)) /\ Forall (fun e => dt e = false) (snd (fst r)))).
    { intros s1 nw1 lf1 R1 F1 E. inversion E; subst. cbn [fst snd]. split; [exact R1|]. split; [eapply UInv_UR; eassumption|exact F1]. }
    destruct (py_startswith f [46]); [eapply Same; [apply UR_refl|exact N0|exact Hf]|].
    destruct I0 as [W0 [E0 P0]].
    assert (Rdel : forall l1 stk, step (us_l s0) l1 -> UR s0 (mk_us l1 (dict_del (pjoin rel f) (us_ed s0)) stk (us_ids s0))).
    { intros l1 stk S1. split; [exact S1|apply sub_dict_del]. }
    destruct (assoc (pjoin rel f) (us_ed s0)) as [[mpath id]|] eqn:Ea.
    - destruct (entry_at (us_l s0) mpath id) as [fe|] eqn:Ee; [|discriminate].
      assert (De : dt fe = false).
      { apply assoc_In in Ea. destruct (E0 _ _ _ Ea) as [_ Hd]. apply Hd. eapply entry_at_carries. exact Ee. }
      assert (Body : forall tg,
        (let stk := if tag_eqb tg TMANIFEST then us_stack s0 ++ [(pjoin rel f, rel)] else us_stack s0 in
         if tag_eqb tg TMANIFEST && mem_str rel (l_updated (us_l s0))
         then Ok (mk_us (us_l s0) (dict_del (pjoin rel f) (us_ed s0)) stk (us_ids s0), nw, lf) else
         '(changed, sz, ck) <- upd_entry w (pjoin dp f) fe (Some hashes) (l_dev (us_l s0)) (if mem_str mpath nm || mem_str mpath (l_updated (us_l s0)) then None else lm) ;;
         let l1 := set_entry_at (us_l s0) mpath id (with_size_cks fe sz ck) in
         let l2 := if changed then add_updated l1 mpath else l1 in
         Ok (mk_us l2 (dict_del (pjoin rel f) (us_ed s0)) stk (us_ids s0), nw, lf)) = Ok r ->
        UR s0 (fst (fst r)) /\ (UInv (fst (fst r)) /\ Forall (fun e => dt e = false) (snd (fst r)))).
      { intros tg. cbn zeta.
        destruct (tag_eqb tg TMANIFEST && mem_str rel (l_updated (us_l s0))); [apply Same; [apply Rdel; apply step_refl|exact N0]|].
        destruct (upd_entry w (pjoin dp f) fe (Some hashes) (l_dev (us_l s0)) (if mem_str mpath nm || mem_str mpath (l_updated (us_l s0)) then None else lm)) as [[[ch sz] ck]|]; cbn [bind]; [|discriminate].
        apply Same; [|exact N0]. apply Rdel.
        assert (S1 : step (us_l s0) (set_entry_at (us_l s0) mpath id (with_size_cks fe sz ck))).
        { eapply step_set_entry_at; [exact Ee|exact De|rewrite with_size_cks_dt; exact De]. }
        destruct ch; [eapply step_trans; [exact S1|apply step_add_updated]|exact S1]. }
      unfold dt in De. destruct (e_tag fe) eqn:Et; try discriminate De;
        [exact (Body TMANIFEST Hf)|eapply Same; [apply Rdel; apply step_refl|exact N0|exact Hf]
        |exact (Body TDATA Hf)|exact (Body TEBUILD Hf)|exact (Body TMISC Hf)|exact (Body TAUX Hf)].
    - destruct (ustr_eqb (pjoin rel f) (l_top (us_l s0))); [eapply Same; [apply Rdel; apply step_refl|exact N0|exact Hf]|].
      rewrite P0 in Hf.
      destruct (mk_new_entry (if mem_str (pjoin rel f) nm then tag_str TMANIFEST else profile_entry_type PDefault (pjoin rel f)) (pjoin rel f)) as [fe|] eqn:Em;
        cbn [bind] in Hf; [|discriminate].
      assert (De : dt fe = false) by (eapply mk_new_entry_dt; [apply new_type_not_dist|exact Em]).
      destruct (mem_str rel (l_updated (us_l s0))).
      + eapply Same; [apply Rdel; apply step_refl| |exact Hf]. apply Forall_app. split; [exact N0|constructor; [exact De|constructor]].
      + destruct (upd_entry w (pjoin dp f) fe (Some hashes) (l_dev (us_l s0)) lm) as [[[ch sz] ck]|]; cbn [bind] in Hf; [|discriminate].
        eapply Same; [apply Rdel; apply step_refl| |exact Hf]. apply Forall_app. split; [exact N0|].
        constructor; [rewrite with_size_cks_dt; exact De|constructor].
  Qed.
End Upd.

Lemma with_path_dt e p : dt (with_path e p) = dt e.
Proof. destruct e; reflexivity. Qed.

Lemma place_new_entries_step l st news lastft ign l' : W l -> Forall (fun e => dt e = false) news ->
  place_new_entries l st news lastft ign = Ok l' -> step l l'.
Proof.
  intros Hw Hn. unfold place_new_entries. destruct news as [|n0 news0]; [intros H; inversion H; apply step_refl|].
  destruct (stack_last st) as [[mpath mdirpath]|]; cbn [bind]; [|discriminate].
  match goal with |- (l1 <- fold_left ?F ?items ?init ;; _) = _ -> _ => set (F0 := F); set (items0 := items) end.
  assert (Hn0 : Forall (fun e => dt e = false) items0) by exact Hn. clearbody items0.
  destruct (fold_left F0 items0 (Ok l)) as [l1|] eqn:Ef; cbn [bind]; [|discriminate].
  intros H. inversion H; subst. eapply step_trans; [|apply step_add_updated].
  assert (G : forall items la lb, Forall (fun e => dt e = false) items -> W la -> fold_left F0 items (Ok la) = Ok lb -> step la lb /\ W lb).
  { induction items as [|fe items IH]; intros la lb Hf Wa E; [inversion E; subst; split; [apply step_refl|exact Wa]|].
    inversion Hf as [|? ? Dfe Hf']; subst. cbn [fold_left] in E.
    destruct (F0 (Ok la) fe) as [lc|] eqn:Ec; [|rewrite fold_err in E by reflexivity; discriminate].
    assert (Sc : step la lc).
    { unfold F0 in Ec. cbn [bind] in Ec. destruct (mem_str (e_path fe) ign); [inversion Ec; apply step_refl|].
      assert (Other : match lastft with
                      | None => Err (XInternal IType)
                      | Some ft =>
                          if ustr_eqb ft (tag_str TAUX) then
                            match fe with
                            | EFile TAUX _ aux s c =>
                                let p' := relpath aux mdirpath in
                                if path_inside_dir p' s_files
                                then Ok (append_entry la mpath (EFile TAUX p' (relpath p' s_files) s c))
                                else Err (XInternal IAssertion)
                            | _ => Err (XInternal IAttribute)
                            end
                          else Ok (append_entry la mpath (with_path fe (relpath (e_path fe) mdirpath)))
                      end = Ok lc -> step la lc).
      { destruct lastft as [ft|]; [|discriminate]. destruct (ustr_eqb ft (tag_str TAUX)).
        - destruct fe as [d|p|t p a s c]; try discriminate. destruct t; try discriminate. cbn zeta.
          destruct (path_inside_dir (relpath a mdirpath) s_files); [|discriminate].
          intros E0. inversion E0; subst. apply step_append; [reflexivity|apply Wa].
        - intros E0. inversion E0; subst. apply step_append; [rewrite with_path_dt; exact Dfe|apply Wa]. }
      destruct fe as [d|p|t p a s c]; [exact (Other Ec)|exact (Other Ec)|].
      destruct t; try exact (Other Ec).
      destruct (match rev st with top :: rst => level_up rst top (dirname p) | [] => (mpath, mdirpath) end) as [mmpath mmdir].
      inversion Ec; subst. eapply step_trans; [|apply step_add_updated]. apply step_append; [reflexivity|apply Wa]. }
    assert (Wc : W lc) by (apply (proj2 (proj2 (proj2 (proj2 Sc)))); exact Wa).
    destruct (IH _ _ Hf' Wc E) as [S2 W2]. split; [eapply step_trans; eassumption|exact W2]. }
  apply (G _ _ _ Hn0 Hw Ef).
Qed.

Section Upd2.
  Variable L : hashlib.
  Variable decompress : list N -> list N -> res (list N).
  Variable pgp_verify : list N -> res sigdata.
  Notation upd_entry := (Verify.update_entry_for_path L).

  Lemma walk_update_step fuel w : forall dp rel nm hashes lm s s', UInv s ->
    walk_update L decompress pgp_verify fuel w dp rel nm hashes lm s = Ok s' -> UR s s'.
  Proof.
    induction fuel as [|f IH]; intros dp rel nm hashes lm s s' Hi H; [discriminate|]. cbn [walk_update] in H.
    destruct (p_scandir w dp) as [ents|]; cbn [bind] in H; [|discriminate].
    destruct (p_stat w dp) as [dst|]; cbn [bind] in H; [|discriminate].
    destruct (match l_dev (us_l s) with Some d => negb (st_dev dst =? d) | None => false end); [discriminate|].
    match type of H with (if ?c then _ else _) = _ => destruct c; [discriminate|] end.
    destruct (pop_until (us_stack s) rel (S (length (us_stack s)))) as [stk|]; cbn [bind] in H; [|discriminate].
    destruct Hi as [W0 [E0 P0]].
    (* the directory names: only the dictionary shrinks *)
    match type of H with (r1 <- fold_left ?F ?names ?init ;; _) = _ =>
      destruct (fold_left F names init) as [[keep ed1]|] eqn:Er; cbn [bind] in H; [|discriminate];
      assert (B1 : sub ed1 (us_ed s))
    end.
    { eapply (fold_res_inv _ (fun a b => sub (snd b) (snd a)) (fun _ => True)) with (s := ([], us_ed s)) (s' := (keep, ed1)) in Er;
        [exact (proj1 Er)|intros; apply sub_refl|intros a b c Hab Hbc; eapply sub_trans; eassumption|reflexivity| |exact I].
      intros [kp ed] d r _ Hf. split; [|exact I]. cbn [bind] in Hf. cbn [snd].
      destruct (py_startswith d [46]); [inversion Hf; apply sub_refl|].
      destruct (assoc (pjoin rel d) ed) as [[mpath id]|]; [|inversion Hf; apply sub_refl].
      destruct (entry_at (us_l s) mpath id) as [[dd|p|t p a sz c]|]; try discriminate.
      - inversion Hf; subst. apply sub_dict_del.
      - destruct (upd_entry w (pjoin dp d) (EFile t p a sz c) (Some hashes) (l_dev (us_l s)) None); discriminate. }
    set (ids1 := match keep with [] => us_ids s | _ => _ end) in H.
    set (s1 := mk_us (us_l s) ed1 stk ids1) in H.
    assert (I1 : UInv s1) by (split; [exact W0|split; [eapply edinv_sub; eassumption|exact P0]]).
    destruct (scan_files L w dp rel nm hashes lm (map fst (filter (fun x => negb (snd x)) ents)) s1) as [[[s2 news] lastft]|] eqn:Es; cbn [bind] in H; [|discriminate].
    destruct (scan_files_step _ _ _ _ _ _ _ _ _ _ _ _ I1 Es) as [R2 N2].
    pose proof (UInv_UR _ _ I1 R2) as I2. destruct I2 as [W2 [E2 P2]].
    destruct (stack_last (us_stack s2)) as [top_of_stack|]; cbn [bind] in H; [|discriminate].
    (* the default profile never creates a Manifest during the walk *)
    assert (Pl : o_profile (l_opts (us_l s)) = PDefault) by exact P0.
    rewrite Pl in H. cbn [profile_want_manifest] in H.
    change (DefaultProfile_want_manifest_in_directory rel (map fst (filter snd ents)) (map fst (filter (fun x => negb (snd x)) ents))) with false in H.
    cbn [andb bind] in H.
    destruct (place_new_entries (us_l s2) (us_stack s2) news lastft []) as [l5|] eqn:Ep; cbn [bind] in H; [|discriminate].
    pose proof (place_new_entries_step _ _ _ _ _ _ W2 N2 Ep) as S5.
    set (s5 := mk_us l5 (us_ed s2) (us_stack s2) (us_ids s2)) in H.
    assert (R5 : UR s s5).
    { split.
      - eapply step_trans; [exact (proj1 R2)|exact S5].
      - eapply sub_trans; [exact (proj2 R2)|exact B1]. }
    assert (I5 : UInv s5) by (eapply UInv_UR; [split; [exact W0|split; [exact E0|exact P0]]|exact R5]).
    eapply UR_trans; [exact R5|].
    eapply (fold_res_inv _ UR UInv) with (s := s5) in H; [exact (proj1 H)|apply UR_refl|apply UR_trans|reflexivity| |exact I5].
    intros sa d sb Ia Hf. cbn [bind] in Hf. pose proof (IH _ _ _ _ _ _ _ Ia Hf) as Rab. split; [exact Rab|eapply UInv_UR; eassumption].
  Qed.

  (* C10: the directory update keeps every DIST / TIMESTAMP entry of every Manifest loaded before *)
  Theorem update_entries_for_directory_step w l path hashes lm l' :
    W l -> o_profile (l_opts l) = PDefault ->
    update_entries_for_directory L decompress pgp_verify w l path hashes lm = Ok l' -> step l l'.
  Proof.
    intros Hw Hp. unfold update_entries_for_directory.
    destruct (match hashes with Some h => Some h | None => o_hashes (l_opts l) end) as [hs|]; [|discriminate].
    destruct (load_unregistered_manifests L decompress pgp_verify w l path false) as [[l1 nm]|] eqn:E1; cbn [bind]; [|discriminate].
    pose proof (load_unregistered_step _ _ _ _ _ _ _ _ _ E1) as S1.
    assert (W1 : W l1) by (apply (proj2 (proj2 (proj2 (proj2 S1)))); exact Hw).
    destruct (get_dedup_dict L decompress pgp_verify w l1 path false) as [[l2 ed]|] eqn:E2; cbn [bind]; [|discriminate].
    destruct (get_dedup_dict_step _ _ _ _ _ _ _ _ _ W1 E2) as [S2 D2].
    assert (W2 : W l2) by (apply (proj2 (proj2 (proj2 (proj2 S2)))); exact W1).
    assert (P2 : o_profile (l_opts l2) = PDefault).
    { destruct S1 as [_ [O1 _]]. destruct S2 as [_ [O2 _]]. rewrite O2, O1. exact Hp. }
    match goal with |- (s <- walk_update _ _ _ _ _ _ _ _ _ _ ?s0 ;; _) = _ -> _ => set (s00 := s0) end.
    destruct (walk_update L decompress pgp_verify (nodes_fuel w) w (walk_top path) path nm hs lm s00) as [s|] eqn:Ew; cbn [bind]; [|discriminate].
    assert (I0 : UInv s00) by (split; [exact W2|split; [exact D2|exact P2]]).
    pose proof (walk_update_step _ _ _ _ _ _ _ _ _ I0 Ew) as [S3 B3]. cbn [us_l us_ed s00] in S3, B3.
    pose proof (UInv_UR _ _ I0 (conj S3 B3)) as [W3 [D3 _]].
    intros H.
    (* entries whose file was not met are removed; none of them is a DIST / TIMESTAMP entry *)
    assert (S4 : step (us_l s) l').
    { match type of H with fold_left ?F _ _ = _ => set (F0 := F) in H end.
      assert (G : forall items la lb, sub items (us_ed s) -> W la -> edinv la (us_ed s) -> fold_left F0 items (Ok la) = Ok lb -> step la lb).
      { induction items as [|[k [mp id]] items IHi]; intros la lb Hs Wa Da E; [inversion E; apply step_refl|].
        cbn [fold_left] in E. destruct (F0 (Ok la) (k, (mp, id))) as [lc|] eqn:Ec; [|rewrite fold_err in E by reflexivity; discriminate].
        assert (Sc : step la lc).
        { unfold F0 in Ec. cbn [bind] in Ec. destruct (entry_at la mp id) as [fe|] eqn:Ee; [|discriminate].
          assert (De : dt fe = false).
          { destruct (Da k mp id (Hs _ (or_introl eq_refl))) as [_ Hd]. apply Hd. eapply entry_at_carries. exact Ee. }
          destruct fe as [d|p|t p a sz c]; [discriminate De|inversion Ec; apply step_refl|].
          destruct (remove_entry_eq la mp (EFile t p a sz c)) as [lr|] eqn:Er; cbn [bind] in Ec; [|discriminate].
          inversion Ec; subst. eapply step_trans; [eapply step_remove; [exact De|exact Er]|apply step_add_updated]. }
        eapply step_trans; [exact Sc|]. apply (IHi lc lb); [intros x Hx; apply Hs; right; exact Hx| |eapply edinv_step; eassumption|exact E].
        apply (proj2 (proj2 (proj2 (proj2 Sc)))). exact Wa. }
      apply (G _ _ _ (sub_refl _) W3 D3 H). }
    eapply step_trans; [exact S1|]. eapply step_trans; [exact S2|]. eapply step_trans; [exact S3|exact S4].
  Qed.

  Corollary update_entries_for_directory_pres w l path hashes lm l' :
    W l -> o_profile (l_opts l) = PDefault ->
    update_entries_for_directory L decompress pgp_verify w l path hashes lm = Ok l' ->
    pres l l' /\ W l' /\ o_profile (l_opts l') = PDefault.
  Proof.
    intros Hw Hp H. destruct (update_entries_for_directory_step _ _ _ _ _ _ Hw Hp H) as [_ [O [P [_ Wk]]]].
    split; [exact P|]. split; [apply Wk; exact Hw|rewrite O; exact Hp].
  Qed.
End Upd2.

(* ---- the hypothesis W holds for every loader the library can build ---------------------------------- *)
Section Reach.
  Variable L : hashlib.
  Variable decompress : list N -> list N -> res (list N).
  Variable pgp_verify : list N -> res sigdata.

  Lemma W_empty top opts : W (mk_loader top [] [] None 0 opts false []).
  Proof.
    split.
    - intros id e [[mp [m [G _]]]|[]]. discriminate G.
    - intros id e1 e2 [[mp [m [G _]]]|[]]. discriminate G.
  Qed.

  Theorem new_loader_W w top opts ac ax l :
    new_loader L decompress pgp_verify w top opts ac ax = Ok l -> W l /\ o_profile (l_opts l) = o_profile opts.
  Proof.
    unfold new_loader.
    destruct (load_manifest L decompress pgp_verify w (mk_loader top [] [] None 0 opts false []) top None ac (negb ax)) as [[l1 m]|] eqn:E; cbn [bind]; [|discriminate].
    intros H. inversion H; subst. destruct (load_manifest_grow _ _ _ _ _ _ _ _ _ _ _ E) as [_ [O [_ Wg]]].
    pose proof (Wg (W_empty top opts)) as [Hi Hu]. split.
    - split; [intros id e Hc; apply (Hi id e); exact Hc|intros id e1 e2 H1 H2; apply (Hu id); assumption].
    - cbn [l_opts]. rewrite O. reflexivity.
  Qed.

End Reach.
