(* C07: in keep-going mode the overall result is the conjunction of the handler's answers over
   ALL handler invocations of the whole scan: nothing is dropped, nothing is short-circuited. *)
From Coq Require Import List NArith ZArith Bool Lia.
From Gemato Require Import Py.PyStr Py.PyPath Gen.Tables Model.Entry Model.Text Model.OpenPGP Model.Hash Model.FS
  Model.Verify Model.Loader.
Import ListNotations.
Open Scope N_scope.

Section KG.
  Variable L : hashlib.
  Variable decompress : list N -> list N -> res (list N).
  Variable pgp_verify : list N -> res sigdata.

  (* what one handler invocation contributes to the overall result *)
  Definition verdict (pol : policy) (c : call) : bool :=
    match apply_policy pol (fst c) with HBool false => false | _ => true end.

  (* (ret', log') continues (ret, log): the log only grows, and the result is and-ed with the
     verdicts of exactly the new invocations *)
  Definition ext (pol : policy) (ret : bool) (log : list call) (ret' : bool) (log' : list call) : Prop :=
    exists new, log' = log ++ new /\ ret' = ret && forallb (verdict pol) new.

  Lemma ext_refl pol ret log : ext pol ret log ret log.
  Proof. exists []. rewrite app_nil_r. cbn. rewrite andb_true_r. split; reflexivity. Qed.
  Lemma ext_trans pol r0 l0 r1 l1 r2 l2 : ext pol r0 l0 r1 l1 -> ext pol r1 l1 r2 l2 -> ext pol r0 l0 r2 l2.
  Proof.
    intros [n1 [-> ->]] [n2 [-> ->]]. exists (n1 ++ n2). rewrite app_assoc, forallb_app, andb_assoc. split; reflexivity.
  Qed.

  Lemma verify_one_ext w c path rel e log b log' :
    verify_one L w c path rel e log = Ok (b, log') -> ext (vc_pol c) true log b log'.
  Proof.
    unfold verify_one. destruct (Verify.verify_path L w path e (vc_dev c) (vc_lm c)) as [[ok diff]|]; cbn [bind]; [|discriminate].
    destruct ok.
    - intros H. inversion H; subst. apply ext_refl.
    - destruct (apply_policy (vc_pol c) rel) as [|hb|] eqn:Ep; [| |discriminate].
      + intros H. inversion H; subst. exists [(rel, diff)]. split; [reflexivity|]. cbn. unfold verdict. cbn. rewrite Ep. reflexivity.
      + intros H. inversion H; subst. exists [(rel, diff)]. split; [reflexivity|]. cbn. unfold verdict. cbn. rewrite Ep.
        destruct b; reflexivity.
  Qed.

  Lemma ext_and pol ret log b log' : ext pol true log b log' -> ext pol ret log (ret && b) log'.
  Proof. intros [n [-> ->]]. exists n. split; [reflexivity|]. cbn. reflexivity. Qed.

  (* the three loops of SubprocessVerifier.__call__ *)
  Lemma verify_dir_ext w c dirpath rel dirnames filenames dirdict log b log' :
    verify_dir L w c dirpath rel dirnames filenames dirdict log = Ok (b, log') ->
    ext (vc_pol c) true log b log'.
  Proof.
    unfold verify_dir.
    (* loop 1 *)
    assert (G1 : forall ds ret0 lg0 dd0 ret1 lg1 dd1,
      fold_left (fun (acc : res (bool * list call * list (list N * entry))) d =>
        '(ret, lg, dd) <- acc ;;
        match assoc d dd with
        | Some de => '(b, lg') <- verify_one L w c (pjoin dirpath d) (pjoin rel d) (Some de) lg ;; Ok (ret && b, lg', dict_del d dd)
        | None => Ok (ret, lg, dd)
        end) ds (Ok (ret0, lg0, dd0)) = Ok (ret1, lg1, dd1) -> ext (vc_pol c) ret0 lg0 ret1 lg1).
    { induction ds as [|d ds IH]; intros ret0 lg0 dd0 ret1 lg1 dd1 H.
      - inversion H; subst. apply ext_refl.
      - cbn [fold_left bind] in H. destruct (assoc d dd0) as [de|].
        + destruct (verify_one L w c (pjoin dirpath d) (pjoin rel d) (Some de) lg0) as [[b0 lg0']|] eqn:E.
          * cbn [bind] in H. eapply ext_trans; [apply ext_and; eapply verify_one_ext; exact E|eapply IH; exact H].
          * exfalso. clear -H. cbn [bind] in H. induction ds as [|x ds IHd]; [discriminate|apply IHd; exact H].
        + eapply IH. exact H. }
    assert (G2 : forall fs ret0 lg0 dd0 ret1 lg1 dd1,
      fold_left (fun (acc : res (bool * list call * list (list N * entry))) f =>
        '(ret, lg, dd) <- acc ;;
        if py_startswith f [46] then Ok (ret, lg, dd) else
        let fpath := pjoin rel f in
        if ustr_eqb fpath (vc_top c) then Ok (ret, lg, dd) else
        '(b, lg') <- verify_one L w c (pjoin dirpath f) fpath (assoc f dd) lg ;;
        Ok (ret && b, lg', dict_del f dd)) fs (Ok (ret0, lg0, dd0)) = Ok (ret1, lg1, dd1) -> ext (vc_pol c) ret0 lg0 ret1 lg1).
    { induction fs as [|f fs IH]; intros ret0 lg0 dd0 ret1 lg1 dd1 H.
      - inversion H; subst. apply ext_refl.
      - cbn [fold_left bind] in H. destruct (py_startswith f [46]); [eapply IH; exact H|].
        cbv zeta in H. destruct (ustr_eqb (pjoin rel f) (vc_top c)); [eapply IH; exact H|].
        destruct (verify_one L w c (pjoin dirpath f) (pjoin rel f) (assoc f dd0) lg0) as [[b0 lg0']|] eqn:E.
        + cbn [bind] in H. eapply ext_trans; [apply ext_and; eapply verify_one_ext; exact E|eapply IH; exact H].
        + exfalso. clear -H. cbn [bind] in H. induction fs as [|x fs IHd]; [discriminate|].
          apply IHd. cbn [fold_left bind] in H. exact H. }
    assert (G3 : forall dd ret0 lg0 ret1 lg1,
      fold_left (fun (acc : res (bool * list call)) fe =>
        '(ret, lg) <- acc ;;
        '(b, lg') <- verify_one L w c (pjoin dirpath (fst fe)) (pjoin rel (fst fe)) (Some (snd fe)) lg ;;
        Ok (ret && b, lg')) dd (Ok (ret0, lg0)) = Ok (ret1, lg1) -> ext (vc_pol c) ret0 lg0 ret1 lg1).
    { induction dd as [|fe dd IH]; intros ret0 lg0 ret1 lg1 H.
      - inversion H; subst. apply ext_refl.
      - cbn [fold_left bind] in H.
        destruct (verify_one L w c (pjoin dirpath (fst fe)) (pjoin rel (fst fe)) (Some (snd fe)) lg0) as [[b0 lg0']|] eqn:E.
        + cbn [bind] in H. eapply ext_trans; [apply ext_and; eapply verify_one_ext; exact E|eapply IH; exact H].
        + exfalso. clear -H. cbn [bind] in H. induction dd as [|x dd IHd]; [discriminate|apply IHd; exact H]. }
    destruct (fold_left _ dirnames (Ok (true, log, dirdict))) as [[[r1 l1] d1]|] eqn:E1; cbn [bind]; [|discriminate].
    destruct (fold_left _ filenames (Ok (r1, l1, d1))) as [[[r2 l2] d2]|] eqn:E2; cbn [bind]; [|discriminate].
    intros H3. eapply ext_trans; [eapply G1; exact E1|]. eapply ext_trans; [eapply G2; exact E2|]. eapply G3; exact H3.
  Qed.

  (* the whole walk *)
  Lemma walk_verify_ext fuel : forall w c dirpath rel ids ed ret log ids' ed' ret' log',
    walk_verify L fuel w c dirpath rel ids ed ret log = Ok (ids', ed', ret', log') ->
    ext (vc_pol c) ret log ret' log'.
  Proof.
    induction fuel as [|f IH]; intros w c dirpath rel ids ed ret log ids' ed' ret' log' H; [discriminate|].
    cbn [walk_verify] in H.
    destruct (p_scandir w dirpath) as [ents|]; cbn [bind] in H; [|discriminate].
    destruct (p_stat w dirpath) as [dst|]; cbn [bind] in H; [|discriminate].
    destruct (match vc_dev c with Some d => negb (st_dev dst =? d) | None => false end); [discriminate|].
    destruct (existsb _ _); [discriminate|].
    destruct (fold_left _ (map fst (filter snd ents)) ([], _)) as [keep dirdict1] eqn:Ek.
    destruct (verify_dir L w c dirpath rel keep _ dirdict1 log) as [[b log1]|] eqn:Ev; cbn [bind] in H; [|discriminate].
    assert (G : forall ds i0 e0 r0 l0 i1 e1 r1 l1,
      fold_left (fun (acc : res (ids_map * edict * bool * list call)) d =>
        '(i, e, r, lg) <- acc ;; walk_verify L f w c (pjoin dirpath d) (pjoin rel d) i e r lg)
        ds (Ok (i0, e0, r0, l0)) = Ok (i1, e1, r1, l1) -> ext (vc_pol c) r0 l0 r1 l1).
    { induction ds as [|d ds IHd]; intros i0 e0 r0 l0 i1 e1 r1 l1 Hd.
      - inversion Hd; subst. apply ext_refl.
      - cbn [fold_left bind] in Hd.
        destruct (walk_verify L f w c (pjoin dirpath d) (pjoin rel d) i0 e0 r0 l0) as [[[[i2 e2] r2] l2]|] eqn:E.
        + eapply ext_trans; [eapply IH; exact E|eapply IHd; exact Hd].
        + exfalso. clear -Hd. induction ds as [|x ds IHx]; [discriminate|apply IHx; exact Hd]. }
    eapply ext_trans; [apply ext_and; eapply verify_dir_ext; exact Ev|]. eapply G. exact H.
  Qed.

  (* C07: the overall result is failure iff at least one handler invocation answered False;
     all invocations of the whole tree are in the log *)
  Theorem keep_going_result w l path pol lm l' b log :
    assert_directory_verifies L decompress pgp_verify w l path pol lm = Ok (l', b, log) ->
    b = forallb (verdict pol) log.
  Proof.
    unfold assert_directory_verifies.
    destruct (get_file_entry_dict L decompress pgp_verify w l path None true) as [[l1 ed]|]; cbn [bind]; [|discriminate].
    destruct (walk_verify L (nodes_fuel w) w _ _ path [] ed true []) as [[[[ids' ed'] ret] lg]|] eqn:Ew; cbn [bind]; [|discriminate].
    pose proof (walk_verify_ext _ _ _ _ _ _ _ _ _ _ _ _ _ Ew) as X. cbn [vc_pol] in X.
    set (c := mk_vctx (l_top l1) (l_dev l1) pol lm) in *.
    assert (G : forall dds r0 l0 r1 l1',
      fold_left (fun (acc : res (bool * list call)) dd =>
        fold_left (fun (acc2 : res (bool * list call)) fe =>
          '(rt, lg0) <- acc2 ;;
          let fpath := pjoin (fst dd) (fst fe) in
          '(b0, lg') <- verify_one L w c (pjoin rootdir fpath) fpath (Some (snd fe)) lg0 ;;
          Ok (rt && b0, lg')) (snd dd) acc) dds (Ok (r0, l0)) = Ok (r1, l1') -> ext pol r0 l0 r1 l1').
    { assert (G1 : forall d fes r0 l0 r1 l1',
        fold_left (fun (acc2 : res (bool * list call)) fe =>
          '(rt, lg0) <- acc2 ;;
          let fpath := pjoin d (fst fe) in
          '(b0, lg') <- verify_one L w c (pjoin rootdir fpath) fpath (Some (snd fe)) lg0 ;;
          Ok (rt && b0, lg')) fes (Ok (r0, l0)) = Ok (r1, l1') -> ext pol r0 l0 r1 l1').
      { intros d. induction fes as [|fe fes IH]; intros r0 l0 r1 l1' H.
        - inversion H; subst. apply ext_refl.
        - cbn [fold_left bind] in H. cbv zeta in H.
          destruct (verify_one L w c (pjoin rootdir (pjoin d (fst fe))) (pjoin d (fst fe)) (Some (snd fe)) l0) as [[b0 lg0]|] eqn:E.
          + cbn [bind] in H. eapply ext_trans; [apply ext_and; apply (verify_one_ext _ _ _ _ _ _ _ _ E)|eapply IH; exact H].
          + exfalso. clear -H. cbn [bind] in H. induction fes as [|x fes IHx]; [discriminate|apply IHx; exact H]. }
      assert (GE : forall d fes e, fold_left (fun (acc2 : res (bool * list call)) fe =>
          '(rt, lg0) <- acc2 ;;
          let fpath := pjoin d (fst fe) in
          '(b0, lg') <- verify_one L w c (pjoin rootdir fpath) fpath (Some (snd fe)) lg0 ;;
          Ok (rt && b0, lg')) fes (Err e) = Err e).
      { intros d fes e. induction fes as [|x fes IHx]; [reflexivity|exact IHx]. }
      induction dds as [|dd dds IH]; intros r0 l0 r1 l1' H.
      - inversion H; subst. apply ext_refl.
      - cbn [fold_left] in H.
        destruct (fold_left _ (snd dd) (Ok (r0, l0))) as [[r2 l2]|e] eqn:E.
        + eapply ext_trans; [eapply G1; exact E|eapply IH; exact H].
        + exfalso. clear -H GE. induction dds as [|x dds IHx]; [discriminate|].
          cbn [fold_left] in H. rewrite GE in H. apply IHx. exact H. }
    destruct (fold_left _ ed' (Ok (ret, lg))) as [[r2 l2]|] eqn:E2; cbn [bind]; [|discriminate].
    intros H. inversion H; subst. cbn [fst snd].
    pose proof (ext_trans _ _ _ _ _ _ _ X (G _ _ _ _ _ E2)) as [new [Hl Hr]].
    cbn in Hl. subst new. exact Hr.
  Qed.
End KG.
