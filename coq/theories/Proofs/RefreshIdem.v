(* C12 / C03 at the level of one entry: an entry that has just been refreshed is a fixed point of the refresh -
   running update_entry_for_path again on the same file state reports "unchanged" and returns the same size and
   checksums.  (So a second update queues nothing on account of this entry.) *)
From Coq Require Import List NArith ZArith Bool Lia ZifyBool ZifyN.
From Gemato Require Import Py.PyStr Py.PyPath Gen.Tables Model.Entry Model.Hash Model.FS Model.Verify.
From Gemato Require Import Proofs.Basics Proofs.Refresh Proofs.SortTheory.
Import ListNotations.
Open Scope N_scope.

Lemma nodup_snoc {A} (l : list A) x : NoDup l -> ~ In x l -> NoDup (l ++ [x]).
Proof.
  induction l as [|y l IH]; intros H Hn; cbn; [constructor; [intros []|constructor]|].
  inversion H; subst. constructor.
  - intros Hin. apply in_app_or in Hin. destruct Hin as [Hin|[->|[]]]; [contradiction|apply Hn; left; reflexivity].
  - apply IH; [assumption|]. intros Hin. apply Hn. right. exact Hin.
Qed.
Lemma dict_set_nodup {A} k (v : A) l : NoDup (map fst l) -> NoDup (map fst (dict_set k v l)).
Proof.
  intros H. destruct (in_dec (list_eq_dec N.eq_dec) k (map fst l)) as [Hin|Hn].
  - rewrite dict_set_keys by exact Hin. exact H.
  - rewrite dict_set_fresh by exact Hn. rewrite map_app. cbn. apply nodup_snoc; assumption.
Qed.
Lemma dict_del_keys_incl {A} k (l : list (ustr * A)) x : In x (map fst (dict_del k l)) -> In x (map fst l).
Proof.
  induction l as [|[k' v] r IH]; [intros []|]. cbn [dict_del]. destruct (ustr_eqb k k'); cbn [map fst In]; [auto|].
  intros [->|H]; [left; reflexivity|right; apply IH; exact H].
Qed.
Lemma dict_del_nodup {A} k (l : list (ustr * A)) : NoDup (map fst l) -> NoDup (map fst (dict_del k l)).
Proof.
  induction l as [|[k' v] r IH]; intros H; [constructor|]. cbn [dict_del]. inversion H; subst.
  destruct (ustr_eqb k k'); [assumption|]. cbn [map fst]. constructor; [|apply IH; assumption].
  intros Hin. apply dict_del_keys_incl in Hin. contradiction.
Qed.
Lemma newcks_nodup got : NoDup (map fst got) -> NoDup (map fst (newcks_of got)).
Proof.
  intros H. unfold newcks_of. apply dict_del_nodup with (k := s_size) in H. revert H. generalize (dict_del s_size got).
  induction l as [|[k v] r IH]; intros H; [constructor|]. inversion H; subst. cbn [flat_map fst snd].
  destruct v as [d|n]; cbn [app map fst]; [|apply IH; assumption].
  constructor; [|apply IH; assumption]. intros Hin. apply H2. clear -Hin.
  induction r as [|[k2 v2] r IHr]; [destruct Hin|]. cbn [flat_map fst snd] in Hin. destruct v2; cbn [app map fst In] in *; [|right; auto].
  destruct Hin as [->|Hin]; [left; reflexivity|right; auto].
Qed.

Lemma assoc_nodup_in {A} k (v : A) l : NoDup (map fst l) -> In (k, v) l -> assoc k l = Some v.
Proof.
  induction l as [|[k' v'] r IH]; intros H Hin; [destruct Hin|]. inversion H; subst. cbn [assoc].
  destruct Hin as [E|Hin].
  - inversion E; subst. rewrite (proj2 (ustr_eqb_eq k k) eq_refl). reflexivity.
  - destruct (ustr_eqb k k') eqn:E.
    + apply ustr_eqb_eq in E. subst k'. exfalso. apply H2. apply in_map_iff. exists (k, v). split; [reflexivity|exact Hin].
    + apply IH; assumption.
Qed.
Lemma sums_eqb_refl (c : sums) : NoDup (map fst c) -> sums_eqb c c = true.
Proof.
  intros H. unfold sums_eqb. rewrite Nat.eqb_refl. cbn [andb]. apply forallb_forall. intros [k v] Hin.
  rewrite (assoc_nodup_in k v c H Hin). apply ustr_eqb_eq. reflexivity.
Qed.

Section Idem.
  Variable L : hashlib.

  Definition zipret (cks : list (list N * hval)) :=
    fix zipret (eks ks : list (list N)) (acc : list (list N * hval)) : res (list (list N * hval)) :=
      match eks, ks with
      | ek :: er, k :: kr =>
          match assoc k cks with
          | Some v => zipret er kr (dict_set ek v acc)
          | None => Err (XInternal IKey)
          end
      | _, _ => Ok acc
      end.
  Lemma zipret_nodup cks : forall eks ks acc r, NoDup (map fst acc) -> zipret cks eks ks acc = Ok r -> NoDup (map fst r).
  Proof.
    induction eks as [|ek er IH]; intros ks acc r Ha H; [cbn in H; inversion H; subst; exact Ha|].
    destruct ks as [|k kr]; [cbn in H; inversion H; subst; exact Ha|]. cbn [zipret] in H.
    destruct (assoc k cks) as [v|]; [|discriminate]. eapply IH; [|exact H]. apply dict_set_nodup. exact Ha.
  Qed.
  Lemma gfm_checksums_nodup w i st hashes got : gfm_checksums L w i st hashes = Ok got -> NoDup (map fst got).
  Proof.
    unfold gfm_checksums. destruct (manifest_hashes_to_hashlib _) as [libs|]; cbn [bind]; [|discriminate].
    destruct (make_hashes _ _ _ _); cbn [bind]; [|discriminate]. destruct (p_read w i) as [data|]; cbn [bind]; [|discriminate].
    destruct (hash_file _ _ _ _ _ _) as [cks|]; cbn [bind]; [|discriminate].
    intros H. eapply (zipret_nodup cks); [|exact H]. constructor.
  Qed.

  Theorem refresh_idempotent w path t p a esize ecks hashes dev ch size' cks' :
    update_entry_for_path L w path (EFile t p a esize ecks) (Some hashes) dev None = Ok (ch, size', cks') ->
    update_entry_for_path L w path (EFile t p a size' cks') (Some hashes) dev None = Ok (false, size', cks').
  Proof.
    intros F. pose proof (refresh_true L _ _ _ _ _ _ _ _ _ _ _ _ F) as
      (i & st & got & size & Ho & Hs & Ht & Hd & Hg & Ha & Hz & Hsz & Hc).
    unfold update_entry_for_path, gfm_open. rewrite Ho. cbn [bind gfm_stat]. rewrite Hs. cbn [bind].
    assert (Hdev : match dev with Some d0 => negb (st_dev st =? d0) | None => false end = false).
    { destruct dev as [dv|]; [|reflexivity]. rewrite (Hd dv eq_refl). rewrite N.eqb_refl. reflexivity. }
    rewrite Hdev, Ht. cbn [andb]. rewrite Hg. cbn [bind]. rewrite Ha.
    assert (Hsize : negb (st_size st =? 0) && negb (st_size st =? size) = false).
    { destruct Hz as [->| ->]; [reflexivity|]. rewrite N.eqb_refl. cbn. apply andb_false_r. }
    rewrite Hsize. fold (newcks_of got). subst size'. rewrite Z.eqb_refl. cbn [negb orb].
    assert (Heq : sums_eqb cks' (newcks_of got) = true).
    { destruct Hc as [[_ ->]|[_ [-> [_ E]]]]; [|exact E]. apply sums_eqb_refl. apply newcks_nodup. eapply gfm_checksums_nodup. exact Hg. }
    rewrite Heq. reflexivity.
  Qed.
End Idem.
