(* C15, corollaries of the main theorem read off the specification: what the search returns is never a Manifest on another device when
   crossing is disallowed - neither the directory nor the file itself (a Manifest that is a link to a file elsewhere) - and never a
   Manifest that IGNOREs the start path, nor one above such a Manifest or above the root directory. *)
From Coq Require Import List NArith ZArith Bool Lia.
From Gemato Require Import Py.PyStr Gen.Tables Gen.Util Model.Entry Model.Text Model.FindTop Spec.FindTop.
From Gemato Require Import Proofs.FindTopProof.
Import ListNotations.
Open Scope N_scope.

Theorem returned_manifest_is_local levels comps compr vs j n :
  Forall2 (fun lv v => view_of (manifest_filenames compr) lv = Some v) levels vs ->
  find_top_level levels comps false compr = Ok (Some (j, n)) ->
  exists v fdev es, nth_error vs j = Some v /\ v_man v = Some (n, fdev, es) /\
    v_dev v = dev0 vs /\ fdev = dev0 vs /\
    (* ... and nothing on the way up to it is on another device, IGNOREs the start path or is the root directory *)
    (forall k vk, (k <= j)%nat -> nth_error vs k = Some vk ->
       v_dev vk = dev0 vs /\ ignores comps k vk = false /\
       match v_man vk with Some (_, fd, _) => fd = dev0 vs | None => True end) /\
    (forall k vk, (k < j)%nat -> nth_error vs k = Some vk -> v_root vk = false).
Proof.
  intros Hv Hf. pose proof (find_top_level_spec _ _ _ _ _ _ Hv Hf) as [[R1 [R2 R3]] [Hn _]].
  unfold man_name in Hn. destruct (nth_error vs j) as [v|] eqn:Ej; [|discriminate].
  destruct (v_man v) as [[[n0 fdev] es]|] eqn:Em; [|discriminate]. inversion Hn; subst n0.
  assert (K : forall k vk, (k <= j)%nat -> nth_error vs k = Some vk ->
       v_dev vk = dev0 vs /\ ignores comps k vk = false /\ match v_man vk with Some (_, fd, _) => fd = dev0 vs | None => True end).
  { intros k vk Hk Ek. specialize (R1 k vk Hk Ek). unfold stops in R1. apply orb_false_iff in R1. destruct R1 as [O Hig].
    unfold other_device in O. cbn [negb andb] in O. apply orb_false_iff in O. destruct O as [O1 O2].
    apply negb_false_iff in O1. apply N.eqb_eq in O1. split; [exact O1|]. split; [exact Hig|].
    destruct (v_man vk) as [[[n1 fd] es1]|]; [|exact I]. apply negb_false_iff in O2. apply N.eqb_eq in O2. exact O2. }
  exists v, fdev, es. split; [reflexivity|]. split; [exact Em|].
  destruct (K j v (le_n j) Ej) as [K1 [_ K3]]. rewrite Em in K3. split; [exact K1|]. split; [exact K3|]. split; [exact K|exact R2].
Qed.
