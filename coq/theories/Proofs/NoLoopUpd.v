(* C16 for the update / create walk, through the whole walk: an update that returns has met no directory whose identity
   (st_dev, st_ino) is that of one of the directories passed on the way to it from the start - a symbolic link that leads back
   to an ancestor is never walked into and written through: the walk ends with the symlink-loop error (or an earlier error)
   instead.  The directories are those reached from the start through listed sub-directories that are not hidden and have no
   entry in the de-duplicated entry dictionary the update starts from ([reachu] records the identities of the directories
   passed).  Same argument as Proofs/NoLoop.v; the entry dictionary of the update only loses keys during the walk. *)
From Coq Require Import List NArith ZArith Bool Lia Arith.
From Gemato Require Import Py.PyStr Py.PyPath Gen.Tables Model.Entry Model.Text Model.OpenPGP Model.Hash Model.FS
  Model.Verify Model.Loader Model.Update.
From Gemato Require Import Proofs.Basics Proofs.WalkTerm Proofs.WalkComplete Proofs.UpdateTerm Proofs.NoLoop Proofs.NoLoopTop
  Proofs.Once Proofs.DictWf.
Import ListNotations.
Open Scope N_scope.

Definition ed_sub (e' e : ddict) : Prop := forall k, assoc k e = None -> assoc k e' = None.
Lemma ed_sub_refl e : ed_sub e e.
Proof. intros k H. exact H. Qed.
Lemma ed_sub_trans e1 e2 e3 : ed_sub e1 e2 -> ed_sub e2 e3 -> ed_sub e1 e3.
Proof. intros A B k H. apply A. apply B. exact H. Qed.
Lemma ed_sub_del k e : ed_sub (dict_del k e) e.
Proof. intros k' H. apply assoc_none_dict_del. exact H. Qed.

Section NLU.
  Variable L : hashlib.
  Variable decompress : list N -> list N -> res (list N).
  Variable pgp_verify : list N -> res sigdata.
  Variable w : world.
  Hypothesis Hw : wf_world w.
  Variable ed0 : ddict.

  Notation walk := (walk_update L decompress pgp_verify).
  Notation upd_entry := (Verify.update_entry_for_path L).

  Inductive reachu : list N -> list N -> list (N * N) -> list N -> list N -> list (N * N) -> Prop :=
  | reachu_here dp rel anc : reachu dp rel anc dp rel anc
  | reachu_down dp rel anc ents st d dp' rel' anc' :
      p_scandir w dp = Ok ents -> p_stat w dp = Ok st -> In d (map fst (filter snd ents)) -> py_startswith d [46] = false ->
      assoc (pjoin rel d) ed0 = None ->
      reachu (pjoin dp d) (pjoin rel d) (anc ++ [(st_dev st, st_ino st)]) dp' rel' anc' ->
      reachu dp rel anc dp' rel' anc'.

  (* scanning the files of a directory only removes keys from the entry dictionary *)
  Lemma scan_files_ed dirpath rel nm hashes lm : forall filenames s news lft s2 news2 lft2,
    fold_left (fun (acc : res (ustate * list entry * option (list N))) f =>
      '(s0, news, lastft) <- acc ;;
      if py_startswith f [46] then Ok (s0, news, lastft) else
      let l0 := us_l s0 in
      let fpath := pjoin rel f in
      let hit := assoc fpath (us_ed s0) in
      let ed' := dict_del fpath (us_ed s0) in
      let s1 := mk_us l0 ed' (us_stack s0) (us_ids s0) in
      match hit with
      | Some (mpath, id) =>
          match entry_at l0 mpath id with
          | None => Err (XInternal IKey)
          | Some fe =>
              match e_tag fe with
              | TIGNORE => Ok (s1, news, lastft)
              | tg =>
                  let stk := if tag_eqb tg TMANIFEST then us_stack s0 ++ [(fpath, rel)] else us_stack s0 in
                  if tag_eqb tg TMANIFEST && mem_str rel (l_updated l0) then Ok (mk_us l0 ed' stk (us_ids s0), news, lastft) else
                  '(changed, sz, ck) <- upd_entry w (pjoin dirpath f) fe (Some hashes) (l_dev l0) (if mem_str mpath nm || mem_str mpath (l_updated l0) then None else lm) ;;
                  let l1 := set_entry_at l0 mpath id (with_size_cks fe sz ck) in
                  let l2 := if changed then add_updated l1 mpath else l1 in
                  Ok (mk_us l2 ed' stk (us_ids s0), news, lastft)
              end
          end
      | None =>
          if ustr_eqb fpath (l_top l0) then Ok (s1, news, lastft) else
          let is_new_m := mem_str fpath nm in
          let ftype := if is_new_m then tag_str TMANIFEST else profile_entry_type (o_profile (l_opts l0)) fpath in
          let stk := if is_new_m then us_stack s0 ++ [(fpath, rel)] else us_stack s0 in
          fe <- mk_new_entry ftype fpath ;;
          if mem_str rel (l_updated l0) then Ok (mk_us l0 ed' stk (us_ids s0), news ++ [fe], Some ftype) else
          '(_, sz, ck) <- upd_entry w (pjoin dirpath f) fe (Some hashes) (l_dev l0) lm ;;
          Ok (mk_us l0 ed' stk (us_ids s0), news ++ [with_size_cks fe sz ck], Some ftype)
      end) filenames (Ok (s, news, lft)) = Ok (s2, news2, lft2) -> ed_sub (us_ed s2) (us_ed s).
  Proof.
    induction filenames as [|f r IH]; intros s news lft s2 news2 lft2 H.
    - inversion H; subst. apply ed_sub_refl.
    - cbn [fold_left] in H.
      match type of H with fold_left ?F r ?st = _ => destruct st as [[[s1 n1] l1]|e] eqn:E end.
      2:{ rewrite fold_err_stays in H by (intros; reflexivity). discriminate. }
      eapply ed_sub_trans; [exact (IH _ _ _ _ _ _ H)|]. clear H IH.
      cbn [bind] in E.
      destruct (py_startswith f [46]); [inversion E; apply ed_sub_refl|].
      destruct (assoc (pjoin rel f) (us_ed s)) as [[mpath id]|].
      + destruct (entry_at (us_l s) mpath id) as [fe|]; [|discriminate].
        destruct (e_tag fe); cbn [tag_eqb andb] in E; try (inversion E; apply ed_sub_del);
          try (destruct (mem_str rel (l_updated (us_l s))); [inversion E; apply ed_sub_del|]);
          (destruct (upd_entry w (pjoin dirpath f) fe (Some hashes) (l_dev (us_l s)) (if mem_str mpath nm || mem_str mpath (l_updated (us_l s)) then None else lm)) as [[[ch sz] ck]|]; cbn [bind] in E;
           [inversion E; apply ed_sub_del|discriminate]).
      + destruct (ustr_eqb (pjoin rel f) (l_top (us_l s))); [inversion E; apply ed_sub_del|].
        match type of E with context [mk_new_entry ?a ?b] => destruct (mk_new_entry a b) as [fe|] end; cbn [bind] in E; [|discriminate].
        destruct (mem_str rel (l_updated (us_l s))); [inversion E; apply ed_sub_del|].
        match type of E with context [upd_entry w ?a ?b ?c ?d ?e] => destruct (upd_entry w a b c d e) as [[[ch sz] ck]|] end; cbn [bind] in E;
          [inversion E; apply ed_sub_del|discriminate].
  Qed.

  Lemma scan_files_keeps_ed dirpath rel nm hashes lm filenames s s2 news lft :
    scan_files L w dirpath rel nm hashes lm filenames s = Ok (s2, news, lft) -> ed_sub (us_ed s2) (us_ed s).
  Proof. unfold scan_files. apply scan_files_ed. Qed.

  (* the selection of the sub-directories to descend into: keys are only removed, and every listed directory that is not
     hidden and has no entry is kept *)
  Lemma keep_spec_upd (l : loader) (dirpath rel : list N) (hashes : list (list N)) (dirnames : list (list N)) : forall kp0 e0 keep ed1,
    fold_left (fun (acc : res (list (list N) * ddict)) d =>
                '(kp, ed) <- acc ;;
                if py_startswith d [46] then Ok (kp, ed) else
                let dpath := pjoin rel d in
                match assoc dpath ed with
                | None => Ok (kp ++ [d], ed)
                | Some (mpath, id) =>
                    let ed' := dict_del dpath ed in
                    match entry_at l mpath id with
                    | Some (EIgn _) => Ok (kp, ed')
                    | Some de =>
                        _ <- upd_entry w (pjoin dirpath d) de (Some hashes) (l_dev l) None ;;
                        Err (XInternal IAssertion)
                    | None => Err (XInternal IKey)
                    end
                end) dirnames (Ok (kp0, e0)) = Ok (keep, ed1) ->
    ed_sub ed1 e0 /\ (forall d, In d kp0 -> In d keep) /\
    (forall d, In d dirnames -> py_startswith d [46] = false -> assoc (pjoin rel d) e0 = None -> In d keep).
  Proof.
    induction dirnames as [|x ds IH]; intros kp0 e0 keep ed1 H.
    - inversion H; subst. split; [apply ed_sub_refl|]. split; [intros d Hd; exact Hd|intros d []].
    - cbn [fold_left] in H.
      match type of H with fold_left ?F ds ?st = _ => destruct st as [[kp1 e1]|e] eqn:E end.
      2:{ rewrite fold_err_stays in H by (intros; reflexivity). discriminate. }
      destruct (IH _ _ _ _ H) as [I1 [I2 I3]]. clear IH H.
      cbn [bind] in E.
      destruct (py_startswith x [46]) eqn:Ehid.
      { inversion E; subst kp1 e1. split; [exact I1|]. split; [exact I2|].
        intros d [<-|Hd] Hh Ha; [rewrite Ehid in Hh; discriminate|apply I3; assumption]. }
      destruct (assoc (pjoin rel x) e0) as [[mpath id]|] eqn:Ea.
      + destruct (entry_at l mpath id) as [[dt|p|t p a sz c]|]; try discriminate.
        * inversion E; subst kp1 e1. split; [eapply ed_sub_trans; [exact I1|apply ed_sub_del]|]. split; [exact I2|].
          intros d [<-|Hd] Hh Ha; [rewrite Ea in Ha; discriminate|]. apply I3; [exact Hd|exact Hh|apply ed_sub_del; exact Ha].
        * match type of E with context [upd_entry ?a ?b ?c ?d ?e ?f] => destruct (upd_entry a b c d e f) end; cbn [bind] in E; discriminate.
      + inversion E; subst kp1 e1. split; [exact I1|]. split.
        * intros d Hd. apply I2. apply in_or_app. left. exact Hd.
        * intros d [<-|Hd] Hh Ha; [apply I2; apply in_or_app; right; left; reflexivity|apply I3; assumption].
  Qed.

  (* the entry dictionary only loses keys during the walk *)
  Lemma walk_ed_shrinks_upd f : forall X rel nm hashes lm s s',
    walk f w X rel nm hashes lm s = Ok s' -> ed_sub (us_ed s') (us_ed s).
  Proof.
    induction f as [|f IH]; intros X rel nm hashes lm s s' H; [discriminate|].
    cbn [walk_update] in H.
    destruct (p_scandir w X) as [ents|] eqn:Es; cbn [bind] in H; [|discriminate].
    destruct (p_stat w X) as [dst|] eqn:Et; cbn [bind] in H; [|discriminate].
    destruct (match l_dev (us_l s) with Some d => negb (st_dev dst =? d) | None => false end); [discriminate|].
    destruct (existsb _ _); [discriminate|].
    destruct (pop_until _ _ _) as [stk|]; cbn [bind] in H; [|discriminate].
    destruct (fold_left _ (map fst (filter snd ents)) (Ok ([], us_ed s))) as [[keep ed1]|] eqn:Ek; cbn [bind] in H; [|discriminate].
    destruct (keep_spec_upd _ _ _ _ _ _ _ _ _ Ek) as [K1 _].
    destruct (scan_files L w X rel nm hashes lm _ _) as [[[s2 news] lastft]|] eqn:Esf; cbn [bind] in H; [|discriminate].
    pose proof (scan_files_keeps_ed _ _ _ _ _ _ _ _ _ _ Esf) as Hed2. cbn [us_ed] in Hed2.
    destruct (stack_last (us_stack s2)) as [tos|]; cbn [bind] in H; [|discriminate].
    match type of H with context [r3 <- ?R ;; _] => destruct R as [[[[l4 stk4] news4] newign]|] end; cbn [bind] in H; [|discriminate].
    destruct (place_new_entries _ _ _ _ _) as [l5|]; cbn [bind] in H; [|discriminate].
    match type of H with fold_left _ keep (Ok ?st) = _ => set (st0 := st) in H end.
    fold (child_fold L decompress pgp_verify w f X rel nm hashes lm keep (Ok st0)) in H.
    assert (G : forall ks s0, child_fold L decompress pgp_verify w f X rel nm hashes lm ks (Ok s0) = Ok s' -> ed_sub (us_ed s') (us_ed s0)).
    { induction ks as [|d ds IHd]; intros s0 H0.
      - cbn in H0. inversion H0; subst. apply ed_sub_refl.
      - cbn [child_fold fold_left bind] in H0.
        destruct (walk f w (pjoin X d) (pjoin rel d) nm hashes lm s0) as [s1|e] eqn:Ew.
        + fold (child_fold L decompress pgp_verify w f X rel nm hashes lm ds (Ok s1)) in H0.
          eapply ed_sub_trans; [apply IHd; exact H0|eapply IH; exact Ew].
        + fold (child_fold L decompress pgp_verify w f X rel nm hashes lm ds (Err e)) in H0. rewrite child_fold_err in H0. discriminate. }
    eapply ed_sub_trans; [apply (G keep st0 H)|]. unfold st0. cbn [us_ed].
    eapply ed_sub_trans; [exact Hed2|exact K1].
  Qed.

  Lemma walk_no_loop_upd f : forall X rel nm hashes lm s s',
    walk f w X rel nm hashes lm s = Ok s' ->
    no_trailing_slash X -> ids_ok w (us_ids s) -> ed_sub (us_ed s) ed0 ->
    forall X' rel' anc', reachu X rel (plist (us_ids s) X) X' rel' anc' -> fresh_identity w X' anc'.
  Proof.
    induction f as [|f IH]; intros X rel nm hashes lm s s' H HX Hok Hsub X' rel' anc' Hr; [discriminate|].
    pose proof (proj1 HX) as HXne.
    cbn [walk_update] in H.
    destruct (p_scandir w X) as [ents|] eqn:Es; cbn [bind] in H; [|discriminate].
    destruct (p_stat w X) as [dst|] eqn:Et; cbn [bind] in H; [|discriminate].
    destruct (match l_dev (us_l s) with Some d => negb (st_dev dst =? d) | None => false end); [discriminate|].
    set (id := (st_dev dst, st_ino dst)) in *.
    fold (plist (us_ids s) X) in H. set (P := plist (us_ids s) X) in *.
    destruct (existsb _ P) eqn:El; [discriminate|].
    destruct (pop_until _ _ _) as [stk|]; cbn [bind] in H; [|discriminate].
    destruct (fold_left _ (map fst (filter snd ents)) (Ok ([], us_ed s))) as [[keep ed1]|] eqn:Ek; cbn [bind] in H; [|discriminate].
    destruct (keep_spec_upd _ _ _ _ _ _ _ _ _ Ek) as [K1 [_ K3]].
    set (ids1 := match keep with [] => us_ids s | _ :: _ => dict_set X (P ++ [id]) (us_ids s) end) in *.
    destruct (scan_files L w X rel nm hashes lm _ _) as [[[s2 news] lastft]|] eqn:Esf; cbn [bind] in H; [|discriminate].
    pose proof (scan_files_keeps_ids L w _ _ _ _ _ _ _ _ _ _ Esf) as Hids2. cbn [us_ids] in Hids2.
    pose proof (scan_files_keeps_ed _ _ _ _ _ _ _ _ _ _ Esf) as Hed2. cbn [us_ed] in Hed2.
    destruct (stack_last (us_stack s2)) as [tos|]; cbn [bind] in H; [|discriminate].
    match type of H with context [r3 <- ?R ;; _] => destruct R as [[[[l4 stk4] news4] newign]|] end; cbn [bind] in H; [|discriminate].
    destruct (place_new_entries _ _ _ _ _) as [l5|]; cbn [bind] in H; [|discriminate].
    rewrite Hids2 in H.
    assert (HP : NoDup P /\ incl P (dirids w)).
    { unfold P, plist. destruct (assoc (dirname X) (us_ids s)) as [x|] eqn:E; [apply (Hok _ _ E)|split; [constructor|intros a []]]. }
    assert (Hok1 : ids_ok w ids1).
    { unfold ids1. destruct keep; [exact Hok|]. intros k Q Hk.
      destruct (ustr_eqb k X) eqn:E.
      - apply ustr_eqb_eq in E. subst k. rewrite dict_set_get in Hk. inversion Hk; subst Q. split.
        + apply NoDup_app_snoc. split; [apply HP|apply existsb_id_false; exact El].
        + intros a Ha. apply in_app_or in Ha. destruct Ha as [Ha|[<-|[]]]; [apply HP; exact Ha|].
          eapply scandir_stat_dirid; eassumption.
      - rewrite dict_set_other in Hk by exact E. apply (Hok _ _ Hk). }
    assert (Hnames : forall d, In d keep -> valid_name d).
    { intros d Hd. destruct (keep_subset_upd L w _ _ _ _ _ _ _ _ _ Ek d Hd) as [[]|Hin].
      apply in_map_iff in Hin. destruct Hin as [[n b0] [E Hin]]. cbn in E. subst n. apply filter_In in Hin.
      eapply scandir_names; [exact Hw|exact Es|apply Hin]. }
    fold (child_fold L decompress pgp_verify w f X rel nm hashes lm keep (Ok (mk_us l5 (us_ed s2) stk4 ids1))) in H.
    assert (G : forall ds s0,
      (forall d, In d ds -> valid_name d) -> ids_ok w (us_ids s0) -> ed_sub (us_ed s0) ed0 -> (ds <> [] -> assoc X (us_ids s0) = Some (P ++ [id])) ->
      child_fold L decompress pgp_verify w f X rel nm hashes lm ds (Ok s0) = Ok s' ->
      forall d, In d ds -> forall X' rel' anc', reachu (pjoin X d) (pjoin rel d) (P ++ [id]) X' rel' anc' -> fresh_identity w X' anc').
    { induction ds as [|d ds IHd]; intros s0 Hn Hoki Hsubi HXi Hd; [intros d []|].
      cbn [child_fold fold_left bind] in Hd.
      destruct (walk f w (pjoin X d) (pjoin rel d) nm hashes lm s0) as [s1|e] eqn:Ew.
      2:{ fold (child_fold L decompress pgp_verify w f X rel nm hashes lm ds (Err e)) in Hd. rewrite child_fold_err in Hd. discriminate. }
      fold (child_fold L decompress pgp_verify w f X rel nm hashes lm ds (Ok s1)) in Hd.
      assert (Hvd : valid_name d) by (apply Hn; left; reflexivity).
      assert (HX' : no_trailing_slash (pjoin X d)) by (apply pjoin_no_trailing; assumption).
      assert (Hpl : plist (us_ids s0) (pjoin X d) = P ++ [id]).
      { unfold plist. rewrite (dirname_pjoin X d HX Hvd). rewrite HXi by discriminate. reflexivity. }
      destruct (walk_ids L decompress pgp_verify w Hw f _ _ _ _ _ _ _ Ew (proj1 HX') Hoki) as [Hok2 Hk2].
      intros d' [<-|Hin] X'' rel'' anc'' Hr'.
      - rewrite <- Hpl in Hr'. eapply IH; [exact Ew|exact HX'|exact Hoki|exact Hsubi|exact Hr'].
      - eapply (IHd s1); [intros d0 H0; apply Hn; right; exact H0|exact Hok2| | |exact Hd|exact Hin|exact Hr'].
        + eapply ed_sub_trans; [eapply walk_ed_shrinks_upd; exact Ew|exact Hsubi].
        + intros _. rewrite Hk2; [apply HXi; discriminate|]. pose proof (pjoin_longer X d HXne Hvd). lia. }
    inversion Hr as [|? ? ? ents' st' d ? ? ? R1 R0 R2 R3 R4 R5]; subst.
    - intros st Hst. rewrite Et in Hst. inversion Hst; subst st. apply existsb_id_false. exact El.
    - rewrite Es in R1. inversion R1; subst ents'. rewrite Et in R0. inversion R0; subst st'.
      assert (Hdk : In d keep) by (apply K3; [exact R2|exact R3|apply Hsub; exact R4]).
      eapply (G keep (mk_us l5 (us_ed s2) stk4 ids1) Hnames); [exact Hok1| | |exact H|exact Hdk|exact R5].
      + cbn [us_ed]. eapply ed_sub_trans; [exact Hed2|]. eapply ed_sub_trans; [exact K1|exact Hsub].
      + intros _. cbn [us_ids]. unfold ids1. destruct keep; [destruct Hdk|]. apply dict_set_get.
  Qed.
End NLU.

(* the whole operation, for every relative path *)
Theorem update_walks_into_no_loop (L : hashlib) decompress pgp_verify w l path hashes lm l' :
  wf_world w -> rel_start path ->
  update_entries_for_directory L decompress pgp_verify w l path hashes lm = Ok l' ->
  exists l1 nm l2 ed,
    load_unregistered_manifests L decompress pgp_verify w l path false = Ok (l1, nm) /\
    get_dedup_dict L decompress pgp_verify w l1 path false = Ok (l2, ed) /\
    forall dp rel anc, reachu w ed (walk_top path) path [] dp rel anc ->
      forall st, p_stat w dp = Ok st -> ~ In (st_dev st, st_ino st) anc.
Proof.
  intros Hw Hp. unfold update_entries_for_directory.
  destruct (match hashes with Some h => Some h | None => o_hashes (l_opts l) end) as [hs|]; [|discriminate].
  destruct (load_unregistered_manifests L decompress pgp_verify w l path false) as [[l1 nm]|] eqn:E1; cbn [bind]; [|discriminate].
  destruct (get_dedup_dict L decompress pgp_verify w l1 path false) as [[l2 ed]|] eqn:E2; cbn [bind]; [|discriminate].
  match goal with |- context [walk_update L decompress pgp_verify ?f w ?X path nm hs lm ?s0] =>
    destruct (walk_update L decompress pgp_verify f w X path nm hs lm s0) as [s|] eqn:Ew end; cbn [bind]; [|discriminate].
  intros _. exists l1, nm, l2, ed. split; [reflexivity|]. split; [exact E2|].
  intros dp rel anc Hr.
  eapply (walk_no_loop_upd L decompress pgp_verify w Hw ed _ _ _ _ _ _ _ _ Ew (walk_top_no_trailing _ Hp)); cbn [us_ids us_ed];
    [intros k P Hk; discriminate|apply ed_sub_refl|exact Hr].
Qed.

(* structural errors of the other two walks: a directory whose identity is recorded for one of the directories passed on the way to
   it ends the scan for unregistered Manifests and the update / create walk with the symlink-loop error, a directory on another
   device ends them with the cross-device error in one-file-system mode - before anything in it is read or written *)
Lemma update_walk_loop_raised (L : hashlib) decompress pgp_verify f w X rel nm hashes lm s ents dst :
  p_scandir w X = Ok ents -> p_stat w X = Ok dst ->
  (match l_dev (us_l s) with Some d => negb (st_dev dst =? d) | None => false end) = false ->
  In (st_dev dst, st_ino dst) (match assoc (dirname X) (us_ids s) with Some x => x | None => [] end) ->
  walk_update L decompress pgp_verify (S f) w X rel nm hashes lm s = Err (XSymlinkLoop X).
Proof.
  intros Hs Ht Hd Hin. cbn [walk_update]. rewrite Hs. cbn [bind]. rewrite Ht. cbn [bind]. rewrite Hd.
  assert (E : existsb (fun x => (fst x =? fst (st_dev dst, st_ino dst)) && (snd x =? snd (st_dev dst, st_ino dst)))
                      (match assoc (dirname X) (us_ids s) with Some x => x | None => [] end) = true).
  { apply existsb_exists. exists (st_dev dst, st_ino dst). split; [exact Hin|]. cbn. rewrite !N.eqb_refl. reflexivity. }
  rewrite E. reflexivity.
Qed.

Lemma update_walk_xdev_raised (L : hashlib) decompress pgp_verify f w X rel nm hashes lm s ents dst d :
  p_scandir w X = Ok ents -> p_stat w X = Ok dst -> l_dev (us_l s) = Some d -> st_dev dst <> d ->
  walk_update L decompress pgp_verify (S f) w X rel nm hashes lm s = Err (XCrossDevice X).
Proof.
  intros Hs Ht Hc Hd. cbn [walk_update]. rewrite Hs. cbn [bind]. rewrite Ht. cbn [bind]. rewrite Hc.
  assert (negb (st_dev dst =? d) = true) as -> by (apply negb_true_iff; apply N.eqb_neq; exact Hd). reflexivity.
Qed.

Lemma unreg_walk_loop_raised (L : hashlib) decompress pgp_verify f w l X rel ids ed found ents dst :
  p_scandir w X = Ok ents -> p_stat w X = Ok dst ->
  (match l_dev l with Some d => negb (st_dev dst =? d) | None => false end) = false ->
  In (st_dev dst, st_ino dst) (match assoc (dirname X) ids with Some x => x | None => [] end) ->
  walk_unreg L decompress pgp_verify (S f) w l X rel ids ed found = Err (XSymlinkLoop X).
Proof.
  intros Hs Ht Hd Hin. cbn [walk_unreg]. rewrite Hs. cbn [bind]. rewrite Ht. cbn [bind]. rewrite Hd.
  assert (E : existsb (fun x => (fst x =? fst (st_dev dst, st_ino dst)) && (snd x =? snd (st_dev dst, st_ino dst)))
                      (match assoc (dirname X) ids with Some x => x | None => [] end) = true).
  { apply existsb_exists. exists (st_dev dst, st_ino dst). split; [exact Hin|]. cbn. rewrite !N.eqb_refl. reflexivity. }
  rewrite E. reflexivity.
Qed.

Lemma unreg_walk_xdev_raised (L : hashlib) decompress pgp_verify f w l X rel ids ed found ents dst d :
  p_scandir w X = Ok ents -> p_stat w X = Ok dst -> l_dev l = Some d -> st_dev dst <> d ->
  walk_unreg L decompress pgp_verify (S f) w l X rel ids ed found = Err (XCrossDevice X).
Proof.
  intros Hs Ht Hc Hd. cbn [walk_unreg]. rewrite Hs. cbn [bind]. rewrite Ht. cbn [bind]. rewrite Hc.
  assert (negb (st_dev dst =? d) = true) as -> by (apply negb_true_iff; apply N.eqb_neq; exact Hd). reflexivity.
Qed.

Lemma update_walks_raise : forall (L : hashlib) decompress pgp f w X rel nm hashes lm s ents dst,
  p_scandir w X = Ok ents -> p_stat w X = Ok dst ->
  (In (st_dev dst, st_ino dst) (match assoc (dirname X) (us_ids s) with Some x => x | None => [] end) ->
   (match l_dev (us_l s) with Some d => negb (st_dev dst =? d) | None => false end) = false ->
   walk_update L decompress pgp (S f) w X rel nm hashes lm s = Err (XSymlinkLoop X)) /\
  (forall d, l_dev (us_l s) = Some d -> st_dev dst <> d ->
   walk_update L decompress pgp (S f) w X rel nm hashes lm s = Err (XCrossDevice X)) /\
  (forall l ids ed found, In (st_dev dst, st_ino dst) (match assoc (dirname X) ids with Some x => x | None => [] end) ->
   (match l_dev l with Some d => negb (st_dev dst =? d) | None => false end) = false ->
   walk_unreg L decompress pgp (S f) w l X rel ids ed found = Err (XSymlinkLoop X)) /\
  (forall l ids ed found d, l_dev l = Some d -> st_dev dst <> d ->
   walk_unreg L decompress pgp (S f) w l X rel ids ed found = Err (XCrossDevice X)).
Proof.
  intros L decompress pgp f w X rel nm hashes lm s ents dst Hs Ht. split; [|split; [|split]].
  - intros Hin Hd. eapply update_walk_loop_raised; eassumption.
  - intros d Hc Hd. eapply update_walk_xdev_raised; eassumption.
  - intros l ids ed found Hin Hd. eapply unreg_walk_loop_raised; eassumption.
  - intros l ids ed found d Hc Hd. eapply unreg_walk_xdev_raised; eassumption.
Qed.
