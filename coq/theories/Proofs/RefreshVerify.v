(* C03 at the level of one entry: what the update writes for a file verifies.  If update_entry_for_path returns
   (size, checksums) for a file, then verify_path on the same file state with an entry carrying exactly these - if it
   returns at all - returns success with no differences.  The digests of the two runs are related through the
   streaming law of the hash library (C17): both are the digest of the whole content. *)
From Coq Require Import List NArith ZArith Bool Lia ZifyBool ZifyN Permutation.
From Gemato Require Import Py.PyStr Py.PyPath Gen.Tables Model.Entry Model.Hash Model.FS Model.Verify.
From Gemato Require Import Proofs.Basics Proofs.HashStream Proofs.Refresh Proofs.RefreshIdem Proofs.SortTheory Proofs.VerifyPath.
Import ListNotations.
Open Scope N_scope.

Lemma size_not_a_hash : assoc s_size manifest_hash_mapping = None.
Proof. vm_compute. reflexivity. Qed.

Fixpoint lib_names (hs : list (list N)) (libs : list (list N)) : Prop :=
  match hs, libs with
  | [], [] => True
  | h :: hr, l :: lr => assoc h manifest_hash_mapping = Some l /\ lib_names hr lr
  | _, _ => False
  end.
Lemma mh2h_spec hs : forall libs, manifest_hashes_to_hashlib hs = Ok libs -> lib_names hs libs.
Proof.
  induction hs as [|h r IH]; intros libs H.
  - cbn [manifest_hashes_to_hashlib] in H. injection H as <-. exact I.
  - cbn [manifest_hashes_to_hashlib] in H. destruct (assoc h manifest_hash_mapping) as [n|] eqn:E; [|discriminate].
    destruct (manifest_hashes_to_hashlib r) as [t|]; cbn [bind] in H; [|discriminate]. injection H as <-.
    cbn [lib_names]. split; [exact E|apply IH; reflexivity].
Qed.

(* the pairing relation of zipret's two lists: a Manifest hash name with its hashlib name, or __size__ with itself *)
Definition pairR (ek k : list N) : Prop := assoc ek manifest_hash_mapping = Some k \/ (ek = s_size /\ k = s_size).
Lemma pairR_fun ek k k' : pairR ek k -> pairR ek k' -> k = k'.
Proof.
  intros [H|[-> ->]] [H'|[E' ->]]; try congruence.
  - subst ek. rewrite size_not_a_hash in H. discriminate.
  - rewrite size_not_a_hash in H'. discriminate.
Qed.
Fixpoint paired (eks ks : list (list N)) : Prop :=
  match eks, ks with
  | [], [] => True
  | e :: er, k :: kr => pairR e k /\ paired er kr
  | _, _ => False
  end.
Lemma paired_app hs libs : lib_names hs libs -> paired (hs ++ [s_size]) (libs ++ [s_size]).
Proof.
  revert libs. induction hs as [|h r IH]; intros [|l lr] H; cbn in *; try contradiction.
  - split; [right; split; reflexivity|exact I].
  - destruct H as [H1 H2]. split; [left; exact H1|apply IH; exact H2].
Qed.

Lemma zipret_spec cks : forall eks ks acc r, paired eks ks -> zipret cks eks ks acc = Ok r ->
  forall x, (In x eks -> exists k v, pairR x k /\ assoc k cks = Some v /\ assoc x r = Some v) /\
            (~ In x eks -> assoc x r = assoc x acc).
Proof.
  induction eks as [|ek er IH]; intros ks acc r P H x.
  - destruct ks; [|contradiction]. cbn in H. inversion H; subst. split; [intros []|reflexivity].
  - destruct ks as [|k kr]; [contradiction|]. destruct P as [P1 P2]. cbn [zipret] in H.
    destruct (assoc k cks) as [v|] eqn:Ek; [|discriminate].
    specialize (IH kr (dict_set ek v acc) r P2 H x). destruct IH as [IH1 IH2].
    destruct (in_dec (list_eq_dec N.eq_dec) x er) as [Hin|Hn].
    + split; [intros _; exact (IH1 Hin)|intros C; exfalso; apply C; right; exact Hin].
    + split.
      * intros [->|Hin]; [|contradiction]. exists k, v. split; [exact P1|]. split; [exact Ek|].
        rewrite (IH2 Hn). apply dict_set_get.
      * intros C. rewrite (IH2 Hn). apply dict_set_other. destruct (ustr_eqb x ek) eqn:E; [|reflexivity].
        apply ustr_eqb_eq in E. subst. exfalso. apply C. left. reflexivity.
Qed.

Lemma paired_in eks : forall ks x, paired eks ks -> In x eks -> exists k, pairR x k /\ In k ks.
Proof.
  induction eks as [|e er IH]; intros [|k kr] x P Hin; cbn in *; try contradiction.
  destruct P as [P1 P2]. destruct Hin as [<-|Hin]; [exists k; split; [exact P1|left; reflexivity]|].
  destruct (IH kr x P2 Hin) as [k' [H1 H2]]. exists k'. split; [exact H1|right; exact H2].
Qed.
Lemma in_mem_str x l : In x l -> mem_str x l = true.
Proof.
  unfold mem_str. intros H. apply existsb_exists. exists x. split; [exact H|apply ustr_eqb_eq; reflexivity].
Qed.

Section RV.
  Variable L : hashlib.
  Hypothesis upd_app : forall s a b, hl_update L (hl_update L s a) b = hl_update L s (a ++ b).
  Hypothesis upd_nil : forall s, hl_update L s [] = s.

  (* what get_file_metadata's checksum dict contains: for every requested name (and __size__) the ideal value of
     the whole content under the algorithm the name denotes *)
  Lemma gfm_spec w i st hs got : gfm_checksums L w i st hs = Ok got ->
    exists data, p_read w i = Ok data /\
      (forall x, In x (sorted_strs hs ++ [s_size]) ->
        exists k v, pairR x k /\ ideal L k data = Ok v /\ assoc x got = Some v) /\
      (forall x, ~ In x (sorted_strs hs ++ [s_size]) -> assoc x got = None).
  Proof.
    unfold gfm_checksums. destruct (manifest_hashes_to_hashlib (sorted_strs hs)) as [libs|] eqn:Em; cbn [bind]; [|discriminate].
    destruct (make_hashes _ _ _ _); cbn [bind]; [|discriminate]. destruct (p_read w i) as [data|]; cbn [bind]; [|discriminate].
    destruct (hash_file L (w_avail w) (libs ++ [s_size]) _ data (st_size st)) as [cks|] eqn:Eh; cbn [bind]; [|discriminate].
    intros Z. exists data. split; [reflexivity|].
    pose proof (paired_app _ _ (mh2h_spec _ _ Em)) as P.
    split; [|intros x Hx; destruct (zipret_spec cks _ _ _ _ P Z x) as [_ Z2]; rewrite (Z2 Hx); reflexivity].
    intros x Hx.
    destruct (zipret_spec cks _ _ _ _ P Z x) as [Z1 _]. destruct (Z1 Hx) as [k [v [R [Ak Ax]]]].
    exists k, v. split; [exact R|]. split; [|exact Ax].
    destruct (paired_in _ _ x P Hx) as [k' [R' Hin]]. rewrite <- (pairR_fun x k' k R' R) in *. clear R'.
    assert (Hc : exists sched, Forall (fun b : list N => b <> []) sched /\ concat sched = data /\
                 hash_file L (w_avail w) (libs ++ [s_size]) sched (concat sched) (st_size st) = Ok cks).
    { destruct data as [|c0 cr]; [exists []; repeat split; [constructor|exact Eh]|].
      exists [c0 :: cr]. split; [constructor; [discriminate|constructor]|]. cbn [concat]. rewrite app_nil_r. split; [reflexivity|exact Eh]. }
    destruct Hc as [sched [Hf [Hcat Hh]]].
    destruct (hash_file_correct L (w_avail w) upd_app upd_nil _ _ _ _ k' Hf Hh (in_mem_str _ _ Hin)) as [v' [Hi Ha]].
    rewrite Hcat in Hi. rewrite Ak in Ha. inversion Ha; subst. exact Hi.
  Qed.

  Lemma cmp_loop_ok ecks cks hs :
    (forall h, In h hs -> exists ex g, assoc h ecks = Some ex /\ assoc h cks = Some g /\ hval_eqb_str g ex = true) ->
    cmp_loop ecks cks hs = Ok [].
  Proof.
    induction hs as [|h r IH]; intros H; [reflexivity|]. cbn [cmp_loop].
    destruct (H h (or_introl eq_refl)) as [ex [g [E1 [E2 E3]]]]. rewrite E1, E2.
    fold (cmp_loop ecks cks r). rewrite IH by (intros h' Hh; apply H; right; exact Hh). cbn [bind]. rewrite E3. reflexivity.
  Qed.

  Lemma newcks_assoc got h dd : NoDup (map fst got) -> In (h, dd) (newcks_of got) -> assoc h got = Some (HStr dd).
  Proof.
    intros Hn Hin. unfold newcks_of in Hin. apply in_flat_map in Hin. destruct Hin as [[k v] [Hk Hv]].
    cbn [fst snd] in Hv. destruct v as [d0|n0]; [|destruct Hv]. destruct Hv as [E|[]]. inversion E; subst.
    apply assoc_nodup_in; [exact Hn|]. clear -Hk. induction got as [|[k' v'] r IH]; [destruct Hk|].
    cbn [dict_del] in Hk. destruct (ustr_eqb s_size k'); [right; exact Hk|]. destruct Hk as [E|Hk]; [left; exact E|right; apply IH; exact Hk].
  Qed.

  Theorem refresh_then_verify w path t p a esize ecks hashes dev ch size' cks' b d :
    update_entry_for_path L w path (EFile t p a esize ecks) (Some hashes) dev None = Ok (ch, size', cks') ->
    verify_path L w path (Some (EFile t p a size' cks')) dev None = Ok (b, d) ->
    b = true /\ d = [].
  Proof.
    intros F V. pose proof (refresh_true L _ _ _ _ _ _ _ _ _ _ _ _ F) as
      (i & st & got & size & Ho & Hs & Ht & Hd & Hg & Ha & Hz & Hsz & Hc).
    pose proof (gfm_checksums_nodup L _ _ _ _ _ Hg) as Hnd.
    destruct (gfm_spec _ _ _ _ _ Hg) as [data [Hr [G1 G1n]]].
    (* every key of the returned checksums maps to the value the first run computed *)
    assert (K : forall h, In h (map fst cks') -> exists ex, assoc h cks' = Some ex /\ assoc h got = Some (HStr ex)).
    { intros h Hh. destruct (assoc h cks') as [ex|] eqn:E; [|apply assoc_none in E; contradiction].
      exists ex. split; [reflexivity|]. destruct Hc as [[_ ->]|[_ [-> [_ Eq]]]].
      - apply newcks_assoc; [exact Hnd|]. apply assoc_in. exact E.
      - unfold sums_eqb in Eq. apply andb_true_iff in Eq. destruct Eq as [_ Eq]. rewrite forallb_forall in Eq.
        specialize (Eq (h, ex) (assoc_in _ _ _ E)). cbn in Eq.
        destruct (assoc h (newcks_of got)) as [v'|] eqn:E2; [|discriminate]. apply ustr_eqb_eq in Eq. subst v'.
        apply newcks_assoc; [exact Hnd|]. apply assoc_in. exact E2. }
    unfold verify_path, gfm_open in V. rewrite Ho in V. cbn [bind Bool.eqb negb gfm_stat] in V. rewrite Hs in V. cbn [bind] in V.
    assert (Hdev : match dev with Some d0 => negb (st_dev st =? d0) | None => false end = false).
    { destruct dev as [dv|]; [|reflexivity]. rewrite (Hd dv eq_refl). rewrite N.eqb_refl. reflexivity. }
    rewrite Hdev, Ht in V.
    assert (Hsize : negb (st_size st =? 0) && negb (Z.of_N (st_size st) =? size')%Z = false).
    { subst size'. destruct Hz as [->| ->]; [reflexivity|]. rewrite Z.eqb_refl. cbn. apply andb_false_r. }
    rewrite Hsize in V. cbn [andb] in V.
    destruct (gfm_checksums L w i st (map fst cks')) as [got2|] eqn:Hg2; cbn [bind] in V; [|discriminate].
    destruct (gfm_spec _ _ _ _ _ Hg2) as [data2 [Hr2 [G2 _]]]. rewrite Hr in Hr2. inversion Hr2; subst data2. clear Hr2.
    (* __size__ *)
    assert (Ssz : assoc s_size got2 = Some (HInt size)).
    { assert (Y2 : In s_size (sorted_strs (map fst cks') ++ [s_size])) by (apply in_or_app; right; left; reflexivity).
      assert (Y1 : In s_size (sorted_strs hashes ++ [s_size])) by (apply in_or_app; right; left; reflexivity).
      destruct (G2 s_size Y2) as [k2 [v2 [R2 [I2 A2]]]].
      destruct (G1 s_size Y1) as [k1 [v1 [R1 [I1 A1]]]].
      rewrite (pairR_fun _ _ _ R2 R1) in I2. rewrite I1 in I2. inversion I2; subst v2. rewrite A2, <- A1. exact Ha. }
    rewrite Ssz in V. unfold hval_eqb_Z in V. subst size'. rewrite Z.eqb_refl in V.
    fold (cmp_loop cks' got2) in V.
    rewrite cmp_loop_ok in V.
    - cbn [bind app] in V. inversion V. split; reflexivity.
    - intros h Hh. apply (proj1 (in_sorted_strs _ _)) in Hh. destruct (K h Hh) as [ex [E1 E2]]. exists ex.
      assert (Hin1 : In h (sorted_strs hashes ++ [s_size])).
      { destruct (in_dec (list_eq_dec N.eq_dec) h (sorted_strs hashes ++ [s_size])) as [Y|Nn]; [exact Y|].
        rewrite (G1n h Nn) in E2. discriminate. }
      destruct (G1 h Hin1) as [k1 [v1 [R1 [I1 A1]]]]. rewrite E2 in A1. inversion A1; subst v1.
      assert (Hin2 : In h (sorted_strs (map fst cks') ++ [s_size])) by (apply in_or_app; left; apply (proj2 (in_sorted_strs _ _)); exact Hh).
      destruct (G2 h Hin2) as [k2 [v2 [R2 [I2 A2]]]]. rewrite (pairR_fun _ _ _ R2 R1) in I2. rewrite I1 in I2. inversion I2; subst v2.
      exists (HStr ex). split; [exact E1|]. split; [exact A2|]. cbn. apply ustr_eqb_eq. reflexivity.
  Qed.
End RV.
