(* C10 for the single-path API, the frame: update_entry_for_path(path, ...) leaves every entry that is not a file entry for
   [path] itself exactly as it was - in every Manifest that was loaded before the call, in the same order.  At most one new
   entry is appended (to one Manifest). *)
From Coq Require Import List NArith ZArith Bool Lia.
From Gemato Require Import Py.PyStr Py.PyPath Py.PyTime Gen.Tables Gen.Util Gen.Profile
  Model.Entry Model.Text Model.OpenPGP Model.Hash Model.FS Model.Verify Model.Loader Model.Update.
From Gemato Require Import Proofs.Basics Proofs.SortTheory Proofs.OnePath.
Import ListNotations.
Open Scope N_scope.

Section Frame.
  Variable path : list N.

  (* an entry of the Manifest [mp] that speaks about [path]: a file entry (not IGNORE / DIST / TIMESTAMP) whose full path is [path] *)
  Definition target (mp : list N) (e : entry) : bool :=
    match e_tag e with
    | TIGNORE | TDIST | TTIMESTAMP => false
    | _ => ustr_eqb (pjoin (dirname mp) (e_path e)) path
    end.
  Definition others (mp : list N) (m : mfile) : list entry := filter (fun e => negb (target mp e)) (map snd (mf_entries m)).

  (* every Manifest loaded in [l] is loaded in [l'], with the same other entries followed by at most [k] new ones *)
  Definition framed (k : nat) (l l' : loader) : Prop :=
    forall mp m, get_m l mp = Some m -> exists m' extra, get_m l' mp = Some m' /\ others mp m' = others mp m ++ extra /\ (length extra <= k)%nat.

  Lemma framed_refl l : framed 0 l l.
  Proof. intros mp m H. exists m, []. rewrite app_nil_r. split; [exact H|split; [reflexivity|cbn; lia]]. Qed.
  Lemma framed_trans a b c j k : framed j a b -> framed k b c -> framed (j + k) a c.
  Proof.
    intros H1 H2 mp m H. destruct (H1 mp m H) as [m1 [x1 [E1 [D1 L1]]]]. destruct (H2 mp m1 E1) as [m2 [x2 [E2 [D2 L2]]]].
    exists m2, (x1 ++ x2). split; [exact E2|]. split; [rewrite D2, D1, app_assoc; reflexivity|rewrite app_length; lia].
  Qed.
  Lemma framed_weaken j k l l' : (j <= k)%nat -> framed j l l' -> framed k l l'.
  Proof. intros Hjk H mp m Hm. destruct (H mp m Hm) as [m' [x [E [D Lx]]]]. exists m', x. split; [exact E|split; [exact D|lia]]. Qed.
  Lemma framed_same_loaded l l' : l_loaded l' = l_loaded l -> framed 0 l l'.
  Proof. intros E mp m H. exists m, []. unfold get_m in *. rewrite E, app_nil_r. split; [exact H|split; [reflexivity|cbn; lia]]. Qed.

  Lemma framed_put l mp m0 m1 extra : get_m l mp = Some m0 -> others mp m1 = others mp m0 ++ extra ->
    framed (length extra) l (put_m l mp m1).
  Proof.
    intros H0 Hd mp' m H. destruct (list_eq_dec N.eq_dec mp' mp) as [->|Hne].
    - exists m1, extra. rewrite get_put_same. split; [reflexivity|]. split; [congruence|lia].
    - exists m, []. rewrite get_put_other by exact Hne. rewrite app_nil_r. split; [exact H|split; [reflexivity|cbn; lia]].
  Qed.

  Lemma framed_add_updated k l l' p : framed k l l' -> framed k l (add_updated l' p).
  Proof.
    intros H. replace k with (k + 0)%nat by lia. eapply framed_trans; [exact H|]. apply framed_same_loaded. apply add_updated_loaded.
  Qed.

  Lemma set_id_others mp es id e e' : find_id es id = Some e -> target mp e = true -> target mp e' = true ->
    filter (fun x => negb (target mp x)) (map snd (set_id es id e')) = filter (fun x => negb (target mp x)) (map snd es).
  Proof.
    induction es as [|[j x] es IH]; intros H He He'; [discriminate|]. cbn [find_id set_id] in *.
    destruct (id =? j).
    - inversion H; subst. cbn [map snd filter]. rewrite He, He'. reflexivity.
    - cbn [map snd filter]. rewrite IH by assumption. reflexivity.
  Qed.

  Lemma set_entry_at_framed l mp id e e' : entry_at l mp id = Some e -> target mp e = true -> target mp e' = true ->
    framed 0 l (set_entry_at l mp id e').
  Proof.
    unfold entry_at, set_entry_at. intros H He He'.
    destruct (get_m l mp) as [m|] eqn:Em; [|apply framed_same_loaded; reflexivity].
    destruct (find_id (mf_entries m) id) as [x|] eqn:Ef; [|apply framed_same_loaded; reflexivity].
    inversion H; subst x. apply (framed_put l mp m _ [] Em). unfold others. cbn [mf_entries]. rewrite app_nil_r.
    eapply set_id_others; eassumption.
  Qed.

  Lemma append_entry_framed l mp e : framed 1 l (append_entry l mp e).
  Proof.
    unfold append_entry. destruct (get_m l mp) as [m|] eqn:Em; [|apply (framed_weaken 0 1); [lia|apply framed_refl]].
    replace 1%nat with (1 + 0)%nat by lia.
    apply (framed_trans l (put_m l mp (mk_mf (mf_entries m ++ [(l_next l, e)]) (mf_signed m))) _ 1 0); [|apply framed_same_loaded; reflexivity].
    intros mp' m0 H. destruct (list_eq_dec N.eq_dec mp' mp) as [->|Hne].
    - rewrite Em in H. inversion H; subst m0. exists (mk_mf (mf_entries m ++ [(l_next l, e)]) (mf_signed m)).
      exists (if negb (target mp e) then [e] else []). rewrite get_put_same. split; [reflexivity|]. split.
      + unfold others. cbn [mf_entries]. rewrite map_app, filter_app. cbn [map snd filter]. destruct (negb (target mp e)); reflexivity.
      + destruct (negb (target mp e)); cbn; lia.
    - exists m0, []. rewrite get_put_other by exact Hne. rewrite app_nil_r. split; [exact H|split; [reflexivity|cbn; lia]].
  Qed.

  Lemma entry_eqb_target mp a b : entry_eqb a b = true -> target mp a = target mp b.
  Proof.
    destruct a as [x|p|t p a s c], b as [y|q|t' p' a' s' c']; cbn [entry_eqb]; try discriminate; try reflexivity.
    intros H. apply andb_true_iff in H. destruct H as [H _]. apply andb_true_iff in H. destruct H as [H _].
    apply andb_true_iff in H. destruct H as [Ht Hp]. apply tag_str_inj in Ht. apply Basics.ustr_eqb_eq in Hp. subst. reflexivity.
  Qed.

  Lemma remove_eq_others mp es x : target mp x = true -> forall es' d, remove_eq es x = Some (es', d) ->
    filter (fun y => negb (target mp y)) (map snd es') = filter (fun y => negb (target mp y)) (map snd es).
  Proof.
    intros Hx. induction es as [|[j e] es IH]; intros es' d H; [discriminate|]. cbn [remove_eq] in H.
    destruct (entry_eqb e x) eqn:E.
    - inversion H; subst. cbn [map snd filter]. rewrite (entry_eqb_target mp _ _ E), Hx. reflexivity.
    - destruct (remove_eq es x) as [[r' d']|] eqn:Er; [|discriminate]. inversion H; subst.
      cbn [map snd filter]. rewrite (IH _ _ eq_refl). reflexivity.
  Qed.

  Lemma remove_entry_eq_framed l mp x l' : target mp x = true -> remove_entry_eq l mp x = Ok l' -> framed 0 l l'.
  Proof.
    intros Hx. unfold remove_entry_eq. destruct (get_m l mp) as [m|] eqn:Em; [|discriminate].
    destruct (remove_eq (mf_entries m) x) as [[es d]|] eqn:Er; [|discriminate].
    intros H. inversion H; subst. replace 0%nat with (0 + 0)%nat by lia.
    apply (framed_trans l (put_m l mp (mk_mf es (mf_signed m))) _ 0 0); [|apply framed_same_loaded; reflexivity].
    apply (framed_put l mp m _ [] Em). unfold others. cbn [mf_entries]. rewrite app_nil_r. eapply remove_eq_others; eassumption.
  Qed.

  Lemma remove_all_framed mp rm : Forall (fun e => target mp e = true) rm -> forall l l',
    fold_left (fun (acc : res loader) e => l0 <- acc ;; remove_entry_eq l0 mp e) rm (Ok l) = Ok l' -> framed 0 l l'.
  Proof.
    induction rm as [|e rm IH]; intros Hrm l l' H; [inversion H; apply framed_refl|].
    inversion Hrm as [|? ? He Hr]; subst. cbn [fold_left bind] in H.
    destruct (remove_entry_eq l mp e) as [l1|] eqn:E.
    - replace 0%nat with (0 + 0)%nat by lia. eapply framed_trans; [eapply remove_entry_eq_framed; eassumption|]. apply IH; assumption.
    - exfalso. clear -H. induction rm as [|y rm IHr]; [discriminate|]. cbn [fold_left bind] in H. apply IHr. exact H.
  Qed.

  Lemma with_size_cks_target mp e s c : target mp (with_size_cks e s c) = target mp e.
  Proof. destruct e; reflexivity. Qed.
End Frame.

Section FrameLoad.
  Variable L : hashlib.
  Variable decompress : list N -> list N -> res (list N).
  Variable pgp_verify : list N -> res sigdata.
  Variable path : list N.

  Lemma load_manifests_framed fuel w : forall l p rec v l',
    load_manifests_for_path L decompress pgp_verify fuel w l p rec v = Ok l' -> framed path 0 l l'.
  Proof.
    induction fuel as [|f IH]; intros l p rec v l' H; [discriminate|]. cbn [load_manifests_for_path] in H.
    destruct (to_load l p rec v) as [|x tl] eqn:Et; [inversion H; apply framed_refl|].
    destruct (load_list L decompress pgp_verify w l (x :: tl)) as [l1|] eqn:El; cbn [bind] in H; [|discriminate].
    replace 0%nat with (0 + 0)%nat by lia. eapply framed_trans; [|eapply IH; exact H].
    intros mp m Hm. exists m, []. rewrite app_nil_r. split; [|split; [reflexivity|cbn; lia]].
    rewrite (load_list_frame L decompress pgp_verify w _ _ _ El mp); [exact Hm|].
    intros Hin. rewrite <- Et in Hin. apply to_load_fresh in Hin. congruence.
  Qed.

  Lemma iter_manifests_dir l p rec : Forall (fun kdv : list N * list N * mfile => snd (fst kdv) = dirname (fst (fst kdv))) (iter_manifests l p rec).
  Proof.
    unfold iter_manifests. apply Forall_forall. intros kdv Hin.
    apply (Permutation.Permutation_in _ (py_sorted_perm _ _)) in Hin. apply in_rev in Hin.
    apply in_flat_map in Hin. destruct Hin as [[k v] [_ Hin]]. cbn [fst snd] in Hin.
    destruct (path_starts_with p (dirname k)); [destruct Hin as [<-|[]]; reflexivity|].
    destruct (rec && path_starts_with (dirname k) p); [destruct Hin as [<-|[]]; reflexivity|destruct Hin].
  Qed.

  Theorem update_one_path_framed w l ty hs l' :
    update_one_path L decompress pgp_verify w l path ty hs = Ok l' -> framed path 1 l l'.
  Proof.
    unfold update_one_path.
    destruct (load_manifests_for_path L decompress pgp_verify rounds_fuel w l path false true) as [l1|] eqn:El; cbn [bind]; [|discriminate].
    pose proof (load_manifests_framed _ _ _ _ _ _ _ El) as P1.
    set (hashes := match hs with Some h => Some h | None => o_hashes (l_opts l) end).
    match goal with |- (r <- fold_left ?F ?items ?init ;; _) = _ -> _ => set (F0 := F); set (items0 := items) end.
    assert (Hdir : Forall (fun kdv : list N * list N * mfile => snd (fst kdv) = dirname (fst (fst kdv))) items0) by apply iter_manifests_dir.
    assert (Loop : forall items la had r, Forall (fun kdv : list N * list N * mfile => snd (fst kdv) = dirname (fst (fst kdv))) items ->
              framed path 0 l la -> fold_left F0 items (Ok (la, had)) = Ok r -> framed path 0 l (fst r)).
    { induction items as [|[[mpath relp] m] items IH]; intros la had r Hd Pa H; [inversion H; exact Pa|].
      inversion Hd as [|? ? Hd1 Hd']; subst. cbn [fst snd] in Hd1. subst relp.
      cbn [fold_left] in H.
      destruct (F0 (Ok (la, had)) (mpath, dirname mpath, m)) as [[lb hb]|] eqn:Eb.
      - eapply IH; [exact Hd'| |exact H]. clear IH H. unfold F0 in Eb. cbn [bind] in Eb.
        match type of Eb with (r1 <- fold_left ?G ?es ?i0 ;; _) = _ => set (G0 := G) in Eb end.
        assert (Inner : forall es l0 had0 rm r1, framed path 0 l l0 -> Forall (fun e => target path mpath e = true) rm ->
                  fold_left G0 es (Ok (l0, had0, rm)) = Ok r1 ->
                  framed path 0 l (fst (fst r1)) /\ Forall (fun e => target path mpath e = true) (snd r1)).
        { induction es as [|ie es IHe]; intros l0 had0 rm r1 P0 Hrm H; [inversion H; split; assumption|].
          cbn [fold_left] in H.
          destruct (G0 (Ok (l0, had0, rm)) ie) as [[[l2 h2] rm2]|] eqn:E2.
          - assert (P2 : framed path 0 l l2 /\ Forall (fun e => target path mpath e = true) rm2).
            { unfold G0 in E2. cbn [bind] in E2.
              destruct (entry_at l0 mpath (fst ie)) as [e|] eqn:Ee; [|inversion E2; subst; split; assumption].
              assert (Body : (match e_tag e with TIGNORE | TDIST | TTIMESTAMP => false | _ => true end) = true ->
                (let fullpath := pjoin (dirname mpath) (e_path e) in
                 if negb (ustr_eqb fullpath path) then Ok (l0, had0, rm) else
                 if had0 then Ok (l0, had0, rm ++ [e]) else
                 match Verify.update_entry_for_path L w (pjoin rootdir fullpath) e hashes (l_dev l0) None with
                 | Ok (_, sz, ck) => Ok (add_updated (set_entry_at l0 mpath (fst ie) (with_size_cks e sz ck)) mpath, true, rm)
                 | Err (XInvalidPath p what) => if ustr_eqb what s_exists then Ok (l0, true, rm ++ [e]) else Err (XInvalidPath p what)
                 | Err x => Err x
                 end) = Ok (l2, h2, rm2) -> framed path 0 l l2 /\ Forall (fun e => target path mpath e = true) rm2).
              { intros Htag. cbn zeta. destruct (ustr_eqb (pjoin (dirname mpath) (e_path e)) path) eqn:Ep; cbn [negb];
                  [|intros H0; inversion H0; subst; split; assumption].
                assert (Te : target path mpath e = true).
                { unfold target. destruct (e_tag e); try discriminate Htag; exact Ep. }
                destruct had0; [intros H0; inversion H0; subst; split; [assumption|apply Forall_app; split; [assumption|constructor; [exact Te|constructor]]]|].
                destruct (Verify.update_entry_for_path L w (pjoin rootdir (pjoin (dirname mpath) (e_path e))) e hashes (l_dev l0) None) as [[[ch sz] ck]|ex].
                - intros H0. inversion H0; subst. split; [|assumption]. apply framed_add_updated.
                  replace 0%nat with (0 + 0)%nat by lia. eapply framed_trans; [exact P0|].
                  eapply set_entry_at_framed; [exact Ee|exact Te|rewrite with_size_cks_target; exact Te].
                - destruct ex; try discriminate. destruct (ustr_eqb what s_exists); [|discriminate].
                  intros H0. inversion H0; subst. split; [assumption|apply Forall_app; split; [assumption|constructor; [exact Te|constructor]]]. }
              destruct (e_tag e) eqn:Et.
              + inversion E2; subst; split; assumption.
              + apply Body; [reflexivity|exact E2].
              + destruct (path_starts_with path (pjoin (dirname mpath) (e_path e))); [discriminate|]. inversion E2; subst; split; assumption.
              + apply Body; [reflexivity|exact E2].
              + inversion E2; subst; split; assumption.
              + apply Body; [reflexivity|exact E2].
              + apply Body; [reflexivity|exact E2].
              + apply Body; [reflexivity|exact E2]. }
            destruct P2 as [P2 R2]. eapply IHe; eassumption.
          - exfalso. clear -H. induction es as [|y es IHr]; [discriminate|]. cbn [fold_left] in H. apply IHr. exact H. }
        destruct (fold_left G0 (mf_entries m) (Ok (la, had, []))) as [[[l2 h2] rm]|] eqn:Ei; cbn [bind] in Eb; [|discriminate].
        destruct (Inner _ _ _ _ _ Pa (Forall_nil _) Ei) as [P2 R2]. cbn [fst snd] in P2, R2.
        destruct rm as [|x rm]; [inversion Eb; subst; exact P2|].
        match type of Eb with (l3 <- ?X ;; _) = _ => destruct X as [l3|] eqn:E3; cbn [bind] in Eb; [|discriminate] end.
        inversion Eb; subst. cbn [fst]. apply framed_add_updated.
        replace 0%nat with (0 + 0)%nat by lia. eapply framed_trans; [exact P2|].
        eapply remove_all_framed; [exact R2|exact E3].
      - exfalso. clear -H. induction items as [|y items IHr]; [discriminate|]. cbn [fold_left] in H. apply IHr. exact H. }
    destruct (fold_left F0 items0 (Ok (l1, false))) as [[l4 had]|] eqn:Ef; cbn [bind]; [|discriminate].
    pose proof (Loop _ _ _ _ Hdir P1 Ef) as P4. cbn [fst] in P4.
    destruct had; [intros H; inversion H; subst; apply (framed_weaken path 0 1); [lia|exact P4]|].
    destruct hashes as [hh|]; [|discriminate].
    destruct (iter_manifests l4 path false) as [|[[mpath mdir] m0] rest]; [intros H; inversion H; subst; apply (framed_weaken path 0 1); [lia|exact P4]|].
    destruct (ustr_eqb ty (tag_str TDIST) || ustr_eqb ty (tag_str TIGNORE)); [discriminate|].
    match goal with |- (np <- ?X ;; _) = _ -> _ => destruct X as [np|]; cbn [bind]; [|discriminate] end.
    destruct (mk_new_entry ty np) as [e|] eqn:Em; cbn [bind]; [|discriminate].
    destruct (Verify.update_entry_for_path L w (pjoin rootdir path) e (Some hh) (l_dev l4) None) as [[[ch sz] ck]|]; cbn [bind]; [|discriminate].
    intros H. inversion H; subst. apply framed_add_updated.
    replace 1%nat with (0 + 1)%nat by lia. eapply framed_trans; [exact P4|apply append_entry_framed].
  Qed.
End FrameLoad.
