(* C17: the digests and the size reported by hash_file are those of the whole content,
   whatever the read schedule and whatever the size hint. *)
From Coq Require Import List NArith ZArith Bool Lia ZifyBool ZifyN Arith.
From Gemato Require Import Py.PyStr Gen.Tables Model.Entry Model.Hash.
From Gemato Require Import Proofs.Basics.
Import ListNotations.
Open Scope N_scope.

Section Stream.
  Variable L : hashlib.
  Variable available : list ustr.
  (* the two laws of a streaming hash object (validated against hashlib on every run) *)
  Hypothesis upd_app : forall s a b, hl_update L (hl_update L s a) b = hl_update L s (a ++ b).
  Hypothesis upd_nil : forall s, hl_update L s [] = s.

  Lemma obj_update_app o a b : obj_update L (obj_update L o a) b = obj_update L o (a ++ b).
  Proof. destruct o as [n|s]; cbn; [rewrite app_length; f_equal; lia|rewrite upd_app; reflexivity]. Qed.
  Lemma obj_update_nil o : obj_update L o [] = o.
  Proof. destruct o as [n|s]; cbn; [f_equal; lia|rewrite upd_nil; reflexivity]. Qed.

  Lemma update_all_app hs a b : update_all L (update_all L hs a) b = update_all L hs (a ++ b).
  Proof. unfold update_all. rewrite map_map. apply map_ext. intros [k o]. cbn. rewrite obj_update_app. reflexivity. Qed.
  Lemma update_all_nil hs : update_all L hs [] = hs.
  Proof. unfold update_all. rewrite <- (map_id hs) at 2. apply map_ext. intros [k o]. cbn. rewrite obj_update_nil. reflexivity. Qed.

  (* any schedule of non-empty chunks is the same as one update with the concatenation *)
  Lemma feed_concat schedule : forall hs, Forall (fun b => b <> []) schedule ->
    feed L hs schedule = update_all L hs (concat schedule).
  Proof.
    induction schedule as [|b r IH]; intros hs H.
    - cbn. rewrite update_all_nil. reflexivity.
    - inversion H as [|? ? Hb Hr]; subst. cbn [feed concat]. destruct b as [|c b]; [congruence|].
      rewrite IH by exact Hr. apply update_all_app.
  Qed.

  Theorem hash_file_schedule_irrelevant names schedule hint :
    Forall (fun b => b <> []) schedule ->
    hash_file L available names schedule (concat schedule) hint =
    (hs <- make_hashes L available names [] ;; finish L (update_all L hs (concat schedule))).
  Proof.
    intros H. unfold hash_file. destruct (make_hashes L available names []) as [hs|]; cbn [bind]; [|reflexivity].
    destruct (negb (hint =? 0) && (hint <? MAX_SLURP_SIZE)); [reflexivity|].
    rewrite feed_concat by exact H. reflexivity.
  Qed.

  (* what the one-shot computation returns, name by name *)
  Definition ideal (name : ustr) (content : list N) : res hval :=
    if ustr_eqb name s_size then Ok (HInt (N.of_nat (length content)))
    else d <- hl_hexdigest L (hl_update L (hl_new L name) content) ;; Ok (HStr d).

  Lemma make_hashes_assoc names : forall acc hs, make_hashes L available names acc = Ok hs ->
    forall n, assoc n hs =
      if mem_str n names then (match get_hash_by_name L available n with Ok o => Some o | Err _ => None end)
      else assoc n acc.
  Proof.
    induction names as [|m names IH]; intros acc hs H n.
    - inversion H; subst. reflexivity.
    - cbn [make_hashes] in H. destruct (get_hash_by_name L available m) as [o|] eqn:E; [|discriminate].
      cbn [bind] in H. rewrite (IH _ _ H n). unfold mem_str. cbn [existsb].
      destruct (existsb (ustr_eqb n) names) eqn:Em; [rewrite orb_true_r; reflexivity|]. rewrite orb_false_r.
      destruct (ustr_eqb n m) eqn:Enm.
      + apply ustr_eqb_eq in Enm. subst. rewrite dict_set_get, E. reflexivity.
      + apply dict_set_other. exact Enm.
  Qed.

  Lemma finish_assoc hs : forall r, finish L hs = Ok r -> NoDup (map fst hs) ->
    forall n o, assoc n hs = Some o -> exists v, obj_hex L o = Ok v /\ assoc n r = Some v.
  Proof.
    induction hs as [|[k o'] hs IH]; intros r H Hnd n o Ha; [discriminate|].
    cbn [finish] in H. destruct (obj_hex L o') as [v|] eqn:Ev; [|discriminate]. cbn [bind] in H.
    destruct (finish L hs) as [t|] eqn:Et; [|discriminate]. cbn [bind] in H. inversion H; subst.
    cbn [assoc] in *. destruct (ustr_eqb n k).
    - inversion Ha; subst. exists v. split; [exact Ev|reflexivity].
    - inversion Hnd; subst. eapply IH; eauto.
  Qed.

  Lemma update_all_assoc hs b n : assoc n (update_all L hs b) = option_map (fun o => obj_update L o b) (assoc n hs).
  Proof.
    induction hs as [|[k o] hs IH]; [reflexivity|]. cbn. destruct (ustr_eqb n k); [reflexivity|exact IH].
  Qed.

  Lemma make_hashes_nodup names : forall acc hs, make_hashes L available names acc = Ok hs ->
    NoDup (map fst acc) -> NoDup (map fst hs).
  Proof.
    induction names as [|m names IH]; intros acc hs H Hn.
    - inversion H; subst. exact Hn.
    - cbn [make_hashes] in H. destruct (get_hash_by_name L available m) as [o|]; [|discriminate].
      cbn [bind] in H. eapply IH; [exact H|].
      destruct (in_dec (list_eq_dec N.eq_dec) m (map fst acc)) as [Hin|Hnin].
      + rewrite dict_set_keys by exact Hin. exact Hn.
      + rewrite dict_set_fresh by exact Hnin. rewrite map_app. cbn.
        apply NoDup_rev in Hn. rewrite <- (rev_involutive (map fst acc ++ [m])). apply NoDup_rev.
        rewrite rev_app_distr. cbn. constructor; [rewrite <- in_rev; exact Hnin|exact Hn].
  Qed.

  (* C17: every requested name gets the digest of the whole content under the algorithm of that
     name, and __size__ is the number of bytes; any chunking, any hint *)
  Theorem hash_file_correct names schedule hint r n :
    Forall (fun b => b <> []) schedule ->
    hash_file L available names schedule (concat schedule) hint = Ok r ->
    mem_str n names = true ->
    exists v, ideal n (concat schedule) = Ok v /\ assoc n r = Some v.
  Proof.
    intros Hs H Hn. rewrite hash_file_schedule_irrelevant in H by exact Hs.
    destruct (make_hashes L available names []) as [hs|] eqn:Em; [|discriminate]. cbn [bind] in H.
    pose proof (make_hashes_assoc _ _ _ Em n) as Ha. rewrite Hn in Ha.
    destruct (get_hash_by_name L available n) as [o|] eqn:Eg.
    2:{ (* impossible: make_hashes succeeded, so every name resolved *)
      exfalso. clear -Em Hn Eg. revert Em. generalize (@nil (ustr * hobj L)).
      induction names as [|m names IH]; intros acc Em; [discriminate|].
      cbn [make_hashes] in Em. cbn [mem_str existsb] in Hn.
      destruct (ustr_eqb n m) eqn:E.
      - apply ustr_eqb_eq in E. subst. rewrite Eg in Em. discriminate.
      - cbn [orb] in Hn. destruct (get_hash_by_name L available m); [|discriminate]. cbn [bind] in Em. eapply IH; eauto. }
    pose proof (make_hashes_nodup _ _ _ Em (NoDup_nil _)) as Hnd.
    assert (Hnd' : NoDup (map fst (update_all L hs (concat schedule)))).
    { unfold update_all. rewrite map_map. cbn. exact Hnd. }
    destruct (finish_assoc _ _ H Hnd' n (obj_update L o (concat schedule))) as [v [Hv Hr]].
    { rewrite update_all_assoc, Ha. reflexivity. }
    exists v. split; [|exact Hr].
    unfold ideal. unfold get_hash_by_name in Eg. destruct (ustr_eqb n s_size).
    - inversion Eg; subst. cbn in Hv. inversion Hv; subst. first [reflexivity|f_equal; f_equal; lia].
    - destruct (mem_str n available); [|discriminate]. inversion Eg; subst. cbn in Hv. exact Hv.
  Qed.

  (* unsupported names are reported, never ignored or mapped to something else *)
  Theorem hash_file_unsupported names schedule whole hint n :
    mem_str n names = true -> ustr_eqb n s_size = false -> mem_str n available = false ->
    exists m, hash_file L available names schedule whole hint = Err (XUnsupportedHash m).
  Proof.
    intros Hn Hs Ha. unfold hash_file.
    assert (G : forall acc, exists m, make_hashes L available names acc = Err (XUnsupportedHash m)).
    { induction names as [|k names IH]; intros acc; [discriminate|].
      cbn [make_hashes]. cbn [mem_str existsb] in Hn. unfold get_hash_by_name at 1.
      destruct (ustr_eqb n k) eqn:E.
      - apply ustr_eqb_eq in E. subst. rewrite Hs, Ha. eexists. reflexivity.
      - cbn [orb] in Hn. destruct (ustr_eqb k s_size); cbn [bind]; [apply IH; exact Hn|].
        destruct (mem_str k available); cbn [bind]; [apply IH; exact Hn|eexists; reflexivity]. }
    destruct (G []) as [m ->]. exists m. reflexivity.
  Qed.
End Stream.

(* the Manifest-name table maps each of the ten GLEP 74 names to the hashlib algorithm it denotes *)
Definition glep74_names : list (ustr * ustr) :=
  [ ([77;68;53], [109;100;53])                                   (* MD5 -> md5 *)
  ; ([83;72;65;49], [115;104;97;49])                             (* SHA1 -> sha1 *)
  ; ([83;72;65;50;53;54], [115;104;97;50;53;54])                 (* SHA256 -> sha256 *)
  ; ([83;72;65;53;49;50], [115;104;97;53;49;50])                 (* SHA512 -> sha512 *)
  ; ([82;77;68;49;54;48], [114;105;112;101;109;100;49;54;48])    (* RMD160 -> ripemd160 *)
  ; ([87;72;73;82;76;80;79;79;76], [119;104;105;114;108;112;111;111;108])  (* WHIRLPOOL -> whirlpool *)
  ; ([66;76;65;75;69;50;66], [98;108;97;107;101;50;98])          (* BLAKE2B -> blake2b *)
  ; ([66;76;65;75;69;50;83], [98;108;97;107;101;50;115])         (* BLAKE2S -> blake2s *)
  ; ([83;72;65;51;95;50;53;54], [115;104;97;51;95;50;53;54])     (* SHA3_256 -> sha3_256 *)
  ; ([83;72;65;51;95;53;49;50], [115;104;97;51;95;53;49;50]) ].  (* SHA3_512 -> sha3_512 *)
Theorem hash_names_table : manifest_hash_mapping = glep74_names.
Proof. vm_compute. reflexivity. Qed.

Theorem unknown_manifest_name hashes h :
  In h hashes -> assoc h manifest_hash_mapping = None ->
  exists m, manifest_hashes_to_hashlib hashes = Err (XUnsupportedHash m).
Proof.
  induction hashes as [|k hashes IH]; intros Hin Hn; [destruct Hin|].
  cbn [manifest_hashes_to_hashlib]. destruct (assoc k manifest_hash_mapping) eqn:E.
  - destruct Hin as [->|Hin]; [congruence|]. destruct (IH Hin Hn) as [m ->]. exists m. reflexivity.
  - eexists. reflexivity.
Qed.
