(* C16: the verification walk over an arbitrary (possibly cyclic) directory graph terminates:
   with fuel |nodes| + 3 the fuel is never what stops it.  Stated as stability: the result is the
   same for every larger amount of fuel. *)
From Coq Require Import List NArith ZArith Bool Lia Arith.
From Gemato Require Import Py.PyStr Py.PyPath Gen.Tables Model.Entry Model.Text Model.OpenPGP Model.Hash Model.FS
  Model.Verify Model.Loader.
From Gemato Require Import Proofs.Basics.
Import ListNotations.
Open Scope N_scope.

(* ---- identities of directories --------------------------------------------------------- *)
Definition dirids (w : world) : list (N * N) :=
  flat_map (fun kn => match snd kn with IDir d _ _ => [(d, fst kn)] | _ => [] end) (w_nodes w).

Lemma lookup_ino_in nodes i n : lookup_ino nodes i = Some n -> In (i, n) nodes.
Proof.
  induction nodes as [|[j m] r IH]; cbn; [discriminate|].
  destruct (i =? j) eqn:E; [intros H; inversion H; subst; apply N.eqb_eq in E; subst; left; reflexivity|intros H; right; apply IH; exact H].
Qed.

Lemma scandir_stat_dirid w X ents dst :
  p_scandir w X = Ok ents -> p_stat w X = Ok dst -> In (st_dev dst, st_ino dst) (dirids w).
Proof.
  unfold p_scandir, p_stat. destruct (resolve w X) as [i|]; cbn [bind]; [|discriminate].
  destruct (fault w PScandir i); [discriminate|].
  destruct (node w i) as [[d p e|d m s dt|d k]|] eqn:En; try discriminate.
  intros _. destruct (fault w PStat i); [discriminate|]. intros H. inversion H; subst. cbn.
  unfold dirids. apply in_flat_map. exists (i, IDir d p e). split; [apply lookup_ino_in; exact En|left; reflexivity].
Qed.

(* ---- names and path strings -------------------------------------------------------------- *)
Definition valid_name (d : list N) : Prop := d <> [] /\ ~ In sl d.
Definition wf_world (w : world) : Prop :=
  forall i dev par ents, In (i, IDir dev par ents) (w_nodes w) -> forall n t, In (n, t) ents -> valid_name n.

Lemma scandir_names w X ents : wf_world w -> p_scandir w X = Ok ents -> forall n b, In (n, b) ents -> valid_name n.
Proof.
  intros Hw. unfold p_scandir. destruct (resolve w X) as [i|]; cbn [bind]; [|discriminate].
  destruct (fault w PScandir i); [discriminate|].
  destruct (node w i) as [[d p e|d m s dt|d k]|] eqn:En; try discriminate.
  intros H n b Hin. inversion H; subst. apply in_map_iff in Hin. destruct Hin as [[n' t] [E Hin]]. inversion E; subst.
  eapply Hw; [apply lookup_ino_in; exact En|exact Hin].
Qed.

Definition no_trailing_slash (X : list N) : Prop := X <> [] /\ py_endswith X [sl] = false.

Lemma endswith_snoc X c : py_endswith (X ++ [c]) [sl] = (c =? sl).
Proof. unfold py_endswith. rewrite rev_app_distr. cbn. rewrite andb_true_r. reflexivity. Qed.

Lemma endswith_last X : X <> [] -> exists Y c, X = Y ++ [c] /\ py_endswith X [sl] = (c =? sl).
Proof.
  intros H. destruct (exists_last H) as [Y [c ->]]. exists Y, c. split; [reflexivity|apply endswith_snoc].
Qed.

Lemma valid_name_last d : valid_name d -> exists Y c, d = Y ++ [c] /\ c <> sl.
Proof.
  intros [Hne Hns]. destruct (exists_last Hne) as [Y [c ->]]. exists Y, c. split; [reflexivity|].
  intros ->. apply Hns. apply in_or_app. right. left. reflexivity.
Qed.

(* pjoin X d for a valid name: longer than X, no trailing slash *)
Lemma pjoin_shape X d : X <> [] -> valid_name d ->
  (pjoin X d = X ++ d /\ py_endswith X [sl] = true) \/ (pjoin X d = X ++ sl :: d /\ py_endswith X [sl] = false).
Proof.
  intros HX [Hne Hns]. unfold pjoin. destruct d as [|c r]; [congruence|].
  assert (c =? sl = false) as ->.
  { destruct (c =? sl) eqn:E; [|reflexivity]. apply N.eqb_eq in E. subst. exfalso. apply Hns. left. reflexivity. }
  destruct X as [|x X']; [congruence|]. destruct (py_endswith (x :: X') [sl]); [left|right]; split; reflexivity.
Qed.

Lemma pjoin_longer X d : X <> [] -> valid_name d -> (length X < length (pjoin X d))%nat.
Proof.
  intros HX Hd. destruct (pjoin_shape X d HX Hd) as [[-> _]|[-> _]]; rewrite app_length; destruct Hd as [Hne _];
    destruct d; try congruence; cbn; lia.
Qed.

Lemma pjoin_no_trailing X d : X <> [] -> valid_name d -> no_trailing_slash (pjoin X d).
Proof.
  intros HX Hd. destruct (valid_name_last d Hd) as [Y [c [-> Hc]]].
  assert (c =? sl = false) by (apply N.eqb_neq; exact Hc).
  destruct (pjoin_shape X (Y ++ [c]) HX Hd) as [[-> _]|[-> _]]; split.
  - destruct X; [congruence|discriminate].
  - rewrite app_assoc, endswith_snoc. exact H.
  - destruct X; [congruence|discriminate].
  - change (X ++ sl :: Y ++ [c]) with (X ++ (sl :: Y) ++ [c]). rewrite app_assoc, endswith_snoc. exact H.
Qed.

(* rsplit_slash on  head ++ "/" ++ name  with a slash-free name *)
Lemma span_noslash_app l : ~ In sl l -> forall rest, span_noslash (l ++ sl :: rest) = (l, sl :: rest).
Proof.
  induction l as [|x l IH]; intros Hn rest; cbn [app span_noslash].
  - rewrite N.eqb_refl. reflexivity.
  - assert (x =? sl = false) as -> by (apply N.eqb_neq; intros ->; apply Hn; left; reflexivity).
    rewrite IH by (intros H; apply Hn; right; exact H). reflexivity.
Qed.
Lemma rsplit_head_name H d : ~ In sl d -> rsplit_slash (H ++ sl :: d) = (H ++ [sl], d).
Proof.
  intros Hn. unfold rsplit_slash. rewrite rev_app_distr. cbn [rev]. rewrite <- app_assoc. cbn [app].
  rewrite span_noslash_app by (intros Hx; apply Hn; apply in_rev; exact Hx).
  rewrite rev_involutive. cbn [rev]. rewrite rev_involutive. reflexivity.
Qed.

Lemma rstrip_no_trailing X : no_trailing_slash X -> py_rstrip (X ++ [sl]) [sl] = X.
Proof.
  intros [Hne He]. destruct (endswith_last X Hne) as [Y [c [-> Ec]]]. rewrite He in Ec.
  unfold py_rstrip. rewrite !rev_app_distr. cbn [rev app lstrip_set existsb N.eqb]. rewrite N.eqb_refl. cbn [orb].
  rewrite <- Ec. cbn [orb rev]. rewrite rev_involutive. reflexivity.
Qed.

Lemma dirname_pjoin X d : no_trailing_slash X -> valid_name d -> dirname (pjoin X d) = X.
Proof.
  intros HX Hd. destruct HX as [Hne He]. destruct (pjoin_shape X d Hne Hd) as [[_ E]|[-> _]]; [congruence|].
  unfold dirname. rewrite rsplit_head_name by apply Hd. cbn [fst].
  assert (forallb (N.eqb sl) (X ++ [sl]) = false) as ->.
  { destruct (endswith_last X Hne) as [Y [c [-> Ec]]]. rewrite He in Ec. rewrite <- app_assoc, forallb_app.
    cbn [app forallb]. assert (sl =? c = false) as -> by (rewrite N.eqb_sym; symmetry; exact Ec).
    cbn [andb]. apply andb_false_r. }
  apply rstrip_no_trailing. split; assumption.
Qed.

(* for the start directory "R/" (verification of the whole tree): dirname("R/" + d) = "R" *)
Lemma dirname_pjoin_slash X d : X <> [] -> py_endswith X [sl] = true -> forallb (N.eqb sl) X = false -> valid_name d ->
  (length (dirname (pjoin X d)) < length X)%nat.
Proof.
  intros Hne He Hns Hd. destruct (pjoin_shape X d Hne Hd) as [[-> _]|[_ E]]; [|congruence].
  destruct (endswith_last X Hne) as [Y [c [-> Ec]]]. rewrite He in Ec. symmetry in Ec. apply N.eqb_eq in Ec. subst c.
  unfold dirname. rewrite <- app_assoc. cbn [app]. rewrite rsplit_head_name by apply Hd. cbn [fst].
  destruct (forallb (N.eqb sl) (Y ++ [sl])) eqn:Ea.
  - congruence.
  - unfold py_rstrip. rewrite rev_app_distr. cbn [rev app lstrip_set existsb N.eqb]. rewrite N.eqb_refl. cbn [orb].
    assert (L : forall s, (length (lstrip_set s [sl]) <= length s)%nat).
    { induction s as [|x s IH]; [cbn; lia|]. cbn [lstrip_set]. destruct (existsb (N.eqb x) [sl]); cbn [length]; lia. }
    rewrite rev_length. specialize (L (rev Y)). rewrite rev_length in L. rewrite app_length. cbn. lia.
Qed.

Lemma NoDup_app_snoc {A} (l : list A) x : NoDup l /\ ~ In x l -> NoDup (l ++ [x]).
Proof.
  intros [H1 H2]. apply NoDup_rev in H1. rewrite <- (rev_involutive (l ++ [x])). apply NoDup_rev.
  rewrite rev_app_distr. cbn. constructor; [rewrite <- in_rev; exact H2|exact H1].
Qed.

(* ---- the bookkeeping of directory identities ---------------------------------------------- *)
Section Walk.
  Variable L : hashlib.
  Variable w : world.
  Hypothesis Hw : wf_world w.

  Definition ids_ok (ids : ids_map) : Prop :=
    forall k P, assoc k ids = Some P -> NoDup P /\ incl P (dirids w).
  Definition plist (ids : ids_map) (X : list N) : list (N * N) :=
    match assoc (dirname X) ids with Some x => x | None => [] end.

  Lemma existsb_id_false (id : N * N) P :
    existsb (fun x => (fst x =? fst id) && (snd x =? snd id)) P = false -> ~ In id P.
  Proof.
    intros H Hin. assert (existsb (fun x => (fst x =? fst id) && (snd x =? snd id)) P = true).
    { apply existsb_exists. exists id. split; [exact Hin|]. rewrite !N.eqb_refl. reflexivity. }
    congruence.
  Qed.

  Lemma assoc_dict_set_len {A} (k X : list N) (v : A) ids : length k <> length X -> assoc k (dict_set X v ids) = assoc k ids.
  Proof.
    intros H. apply dict_set_other. apply ustr_eqb_neq. intros ->. congruence.
  Qed.

  (* the pruning fold only keeps names that scandir returned as directories *)
  Lemma keep_subset (dirnames : list (list N)) :
    forall kp0 dd0 kp dd,
    fold_left (fun (acc : list (list N) * list (list N * entry)) d =>
      let '(kp, dd) := acc in
      if py_startswith d [46] then (kp, dd)
      else match assoc d dd with
           | None => (kp ++ [d], dd)
           | Some (EIgn _) => (kp, dict_del d dd)
           | Some _ => (kp, dd)
           end) dirnames (kp0, dd0) = (kp, dd) ->
    forall d, In d kp -> In d kp0 \/ In d dirnames.
  Proof.
    induction dirnames as [|x ds IH]; intros kp0 dd0 kp dd H d Hin.
    - inversion H; subst. left. exact Hin.
    - cbn [fold_left] in H.
      destruct (py_startswith x [46]).
      + destruct (IH _ _ _ _ H d Hin) as [X|X]; [left; exact X|right; right; exact X].
      + destruct (assoc x dd0) as [[dt|p|t p a s c]|].
        * destruct (IH _ _ _ _ H d Hin) as [X|X]; [left; exact X|right; right; exact X].
        * destruct (IH _ _ _ _ H d Hin) as [X|X]; [left; exact X|right; right; exact X].
        * destruct (IH _ _ _ _ H d Hin) as [X|X]; [left; exact X|right; right; exact X].
        * destruct (IH _ _ _ _ H d Hin) as [X|X]; [|right; right; exact X].
          apply in_app_or in X. destruct X as [X|[<-|[]]]; [left; exact X|right; left; reflexivity].
  Qed.

  Definition child_fold (f : nat) (c : vctx) (X rel : list N) :=
    fold_left (fun (acc : res (ids_map * edict * bool * list call)) d =>
      '(i, e, r, lg) <- acc ;; walk_verify L f w c (pjoin X d) (pjoin rel d) i e r lg).

  Lemma child_fold_err f c X rel ds e : child_fold f c X rel ds (Err e) = Err e.
  Proof. induction ds as [|d ds IH]; [reflexivity|exact IH]. Qed.

  (* what a completed walk of the directory X leaves in the identity map *)
  Lemma walk_ids f : forall c X rel ids ed ret log ids' ed' ret' log',
    walk_verify L f w c X rel ids ed ret log = Ok (ids', ed', ret', log') ->
    X <> [] -> ids_ok ids ->
    ids_ok ids' /\ (forall k, (length k < length X)%nat -> assoc k ids' = assoc k ids).
  Proof.
    induction f as [|f IH]; intros c X rel ids ed ret log ids' ed' ret' log' H HX Hok; [discriminate|].
    cbn [walk_verify] in H.
    destruct (p_scandir w X) as [ents|] eqn:Es; cbn [bind] in H; [|discriminate].
    destruct (p_stat w X) as [dst|] eqn:Et; cbn [bind] in H; [|discriminate].
    destruct (match vc_dev c with Some d => negb (st_dev dst =? d) | None => false end); [discriminate|].
    set (id := (st_dev dst, st_ino dst)) in *.
    set (P := match assoc (dirname X) ids with Some x => x | None => [] end) in *.
    destruct (existsb _ P) eqn:El; [discriminate|].
    destruct (fold_left _ (map fst (filter snd ents)) ([], _)) as [keep dirdict1] eqn:Ek.
    destruct (verify_dir L w c X rel keep _ dirdict1 log) as [[b log1]|]; cbn [bind] in H; [|discriminate].
    set (ids1 := match keep with [] => ids | _ :: _ => dict_set X (P ++ [id]) ids end) in *.
    assert (HP : NoDup P /\ incl P (dirids w)).
    { unfold P. destruct (assoc (dirname X) ids) as [x|] eqn:E; [apply (Hok _ _ E)|split; [constructor|intros a []]]. }
    assert (Hok1 : ids_ok ids1).
    { unfold ids1. destruct keep; [exact Hok|]. intros k Q Hk.
      destruct (ustr_eqb k X) eqn:E.
      - apply ustr_eqb_eq in E. subst k. rewrite dict_set_get in Hk. inversion Hk; subst Q. split.
        + apply NoDup_app_snoc. split; [apply HP|apply existsb_id_false; exact El].
        + intros a Ha. apply in_app_or in Ha. destruct Ha as [Ha|[<-|[]]]; [apply HP; exact Ha|].
          eapply scandir_stat_dirid; eassumption.
      - rewrite dict_set_other in Hk by exact E. apply (Hok _ _ Hk). }
    assert (Hk1 : forall k, (length k < length X)%nat -> assoc k ids1 = assoc k ids).
    { intros k Hk. unfold ids1. destruct keep; [reflexivity|]. apply assoc_dict_set_len. lia. }
    assert (Hnames : forall d, In d keep -> valid_name d).
    { intros d Hd. destruct (keep_subset _ _ _ _ _ Ek d Hd) as [[]|Hin].
      apply in_map_iff in Hin. destruct Hin as [[n b0] [E Hin]]. cbn in E. subst n. apply filter_In in Hin.
      eapply scandir_names; [exact Hw|exact Es|apply Hin]. }
    fold (child_fold f c X rel keep (Ok (ids1, ed, ret && b, log1))) in H.
    clear Ek. revert H Hok1 Hk1. generalize (ret && b) log1 (dict_del rel ed) ids1. clear El.
    induction keep as [|d ds IHd]; intros r0 l0 e0 i0 H Hok0 Hk0.
    - cbn in H. inversion H; subst. split; [exact Hok0|exact Hk0].
    - cbn [child_fold fold_left bind] in H.
      destruct (walk_verify L f w c (pjoin X d) (pjoin rel d) i0 e0 r0 l0) as [[[[i1 e1] r1] l1]|e] eqn:Ew.
      + fold (child_fold f c X rel ds (Ok (i1, e1, r1, l1))) in H.
        assert (Hvd : valid_name d) by (apply Hnames; left; reflexivity).
        assert (HX' : pjoin X d <> []) by (pose proof (pjoin_longer X d HX Hvd); intros E; rewrite E in *; cbn in *; lia).
        destruct (IH _ _ _ _ _ _ _ _ _ _ _ Ew HX' Hok0) as [Hok2 Hk2].
        apply (IHd (fun d' Hd' => Hnames d' (or_intror Hd')) _ _ _ _ H Hok2).
        intros k Hk. rewrite Hk2; [apply Hk0; exact Hk|]. pose proof (pjoin_longer X d HX Hvd). lia.
      + fold (child_fold f c X rel ds (Err e)) in H. rewrite child_fold_err in H. discriminate.
  Qed.

  Definition D : nat := length (dirids w).

  (* a directory that is not at the start of the walk: its parent's identities are found in the map *)
  Lemma walk_stable f1 : forall f2 c X rel ids ed ret log,
    no_trailing_slash X -> ids_ok ids ->
    (D - length (plist ids X) < f1)%nat -> (D - length (plist ids X) < f2)%nat ->
    walk_verify L f1 w c X rel ids ed ret log = walk_verify L f2 w c X rel ids ed ret log.
  Proof.
    induction f1 as [|f1 IH]; intros f2 c X rel ids ed ret log HX Hok H1 H2; [lia|].
    destruct f2 as [|f2]; [lia|].
    cbn [walk_verify].
    destruct (p_scandir w X) as [ents|] eqn:Es; cbn [bind]; [|reflexivity].
    destruct (p_stat w X) as [dst|] eqn:Et; cbn [bind]; [|reflexivity].
    destruct (match vc_dev c with Some d => negb (st_dev dst =? d) | None => false end); [reflexivity|].
    set (id := (st_dev dst, st_ino dst)) in *.
    fold (plist ids X). set (P := plist ids X) in *.
    destruct (existsb _ P) eqn:El; [reflexivity|].
    destruct (fold_left _ (map fst (filter snd ents)) ([], _)) as [keep dirdict1] eqn:Ek.
    destruct (verify_dir L w c X rel keep _ dirdict1 log) as [[b log1]|]; cbn [bind]; [|reflexivity].
    set (ids1 := match keep with [] => ids | _ :: _ => dict_set X (P ++ [id]) ids end).
    assert (HP : NoDup P /\ incl P (dirids w)).
    { unfold P, plist. destruct (assoc (dirname X) ids) as [x|] eqn:E; [apply (Hok _ _ E)|split; [constructor|intros a []]]. }
    assert (Hnd : NoDup (P ++ [id])) by (apply NoDup_app_snoc; split; [apply HP|apply existsb_id_false; exact El]).
    assert (Hincl : incl (P ++ [id]) (dirids w)).
    { intros a Ha. apply in_app_or in Ha. destruct Ha as [Ha|[<-|[]]]; [apply HP; exact Ha|eapply scandir_stat_dirid; eassumption]. }
    assert (Hlen : (length P + 1 <= D)%nat).
    { pose proof (NoDup_incl_length Hnd Hincl) as X0. rewrite app_length in X0. cbn in X0. exact X0. }
    assert (Hnames : forall d, In d keep -> valid_name d).
    { intros d Hd. destruct (keep_subset _ _ _ _ _ Ek d Hd) as [[]|Hin].
      apply in_map_iff in Hin. destruct Hin as [[n b0] [E Hin]]. cbn in E. subst n. apply filter_In in Hin.
      eapply scandir_names; [exact Hw|exact Es|apply Hin]. }
    fold (child_fold f1 c X rel keep (Ok (ids1, dict_del rel ed, ret && b, log1))).
    fold (child_fold f2 c X rel keep (Ok (ids1, dict_del rel ed, ret && b, log1))).
    destruct keep as [|d0 ds0]; [reflexivity|].
    assert (Hok1 : ids_ok ids1).
    { unfold ids1. intros k Q Hk. destruct (ustr_eqb k X) eqn:E.
      - apply ustr_eqb_eq in E. subst k. rewrite dict_set_get in Hk. inversion Hk; subst Q. split; assumption.
      - rewrite dict_set_other in Hk by exact E. apply (Hok _ _ Hk). }
    assert (HX1 : assoc X ids1 = Some (P ++ [id])) by (unfold ids1; apply dict_set_get).
    clear Ek. revert Hok1 HX1. generalize (ret && b) log1 (dict_del rel ed) ids1.
    generalize dependent (d0 :: ds0). clear d0 ds0.
    intros keep Hnames. induction keep as [|d ds IHd]; intros r0 l0 e0 i0 Hok0 HX0; [reflexivity|].
    cbn [child_fold fold_left bind].
    assert (Hvd : valid_name d) by (apply Hnames; left; reflexivity).
    assert (HXd : no_trailing_slash (pjoin X d)) by (apply pjoin_no_trailing; [apply HX|exact Hvd]).
    assert (Hpl : plist i0 (pjoin X d) = P ++ [id]).
    { unfold plist. rewrite dirname_pjoin by assumption. rewrite HX0. reflexivity. }
    rewrite (IH f2 c (pjoin X d) (pjoin rel d) i0 e0 r0 l0 HXd Hok0);
      [|rewrite Hpl, app_length; cbn; lia|rewrite Hpl, app_length; cbn; lia].
    destruct (walk_verify L f2 w c (pjoin X d) (pjoin rel d) i0 e0 r0 l0) as [[[[i1 e1] r1] l1]|e] eqn:Ew.
    - fold (child_fold f1 c X rel ds (Ok (i1, e1, r1, l1))). fold (child_fold f2 c X rel ds (Ok (i1, e1, r1, l1))).
      assert (HX' : pjoin X d <> []) by apply HXd.
      destruct (walk_ids f2 _ _ _ _ _ _ _ _ _ _ _ Ew HX' Hok0) as [Hok2 Hk2].
      apply (IHd (fun d' Hd' => Hnames d' (or_intror Hd'))); [exact Hok2|].
      rewrite Hk2; [exact HX0|]. apply pjoin_longer; [apply HX|exact Hvd].
    - fold (child_fold f1 c X rel ds (Err e)). fold (child_fold f2 c X rel ds (Err e)). rewrite !child_fold_err. reflexivity.
  Qed.

  (* C16: started on any directory path "R..." with an empty identity map, the walk gives the same
     result for every amount of fuel >= |directory identities| + 2: it is never the fuel that ends it *)
  Theorem walk_terminates f1 f2 c X rel ed ret log :
    X <> [] -> forallb (N.eqb sl) X = false ->
    (D + 2 <= f1)%nat -> (D + 2 <= f2)%nat ->
    walk_verify L f1 w c X rel [] ed ret log = walk_verify L f2 w c X rel [] ed ret log.
  Proof.
    intros HX Hns H1 H2.
    assert (Hok0 : ids_ok []) by (intros k P Hk; discriminate).
    destruct (py_endswith X [sl]) eqn:He.
    2:{ apply walk_stable; [split; assumption|exact Hok0| |]; unfold plist; cbn; lia. }
    (* the start directory has a trailing slash ("R/"): its children do not find it in the map *)
    destruct f1 as [|f1]; [lia|]. destruct f2 as [|f2]; [lia|].
    cbn [walk_verify].
    destruct (p_scandir w X) as [ents|] eqn:Es; cbn [bind]; [|reflexivity].
    destruct (p_stat w X) as [dst|] eqn:Et; cbn [bind]; [|reflexivity].
    destruct (match vc_dev c with Some d => negb (st_dev dst =? d) | None => false end); [reflexivity|].
    set (id := (st_dev dst, st_ino dst)) in *.
    cbn [assoc existsb].
    destruct (fold_left _ (map fst (filter snd ents)) ([], _)) as [keep dirdict1] eqn:Ek.
    destruct (verify_dir L w c X rel keep _ dirdict1 log) as [[b log1]|]; cbn [bind]; [|reflexivity].
    assert (Hnames : forall d, In d keep -> valid_name d).
    { intros d Hd. destruct (keep_subset _ _ _ _ _ Ek d Hd) as [[]|Hin].
      apply in_map_iff in Hin. destruct Hin as [[n b0] [E Hin]]. cbn in E. subst n. apply filter_In in Hin.
      eapply scandir_names; [exact Hw|exact Es|apply Hin]. }
    destruct keep as [|d0 ds0]; [reflexivity|].
    set (ids1 := dict_set X ([] ++ [id]) (@nil (list N * list (N * N)))).
    fold (child_fold f1 c X rel (d0 :: ds0) (Ok (ids1, dict_del rel ed, ret && b, log1))).
    fold (child_fold f2 c X rel (d0 :: ds0) (Ok (ids1, dict_del rel ed, ret && b, log1))).
    assert (Hok1 : ids_ok ids1).
    { unfold ids1. intros k Q Hk. cbn in Hk. destruct (ustr_eqb k X); [|discriminate].
      inversion Hk; subst Q. split; [constructor; [intros []|constructor]|].
      intros a [<-|[]]. eapply scandir_stat_dirid; eassumption. }
    assert (Hshort : forall k, (length k < length X)%nat -> assoc k ids1 = None).
    { intros k Hk. unfold ids1. cbn. destruct (ustr_eqb k X) eqn:E; [|reflexivity].
      apply ustr_eqb_eq in E. subst. lia. }
    clearbody ids1. clear Ek. revert Hok1 Hshort. generalize (ret && b) log1 (dict_del rel ed) ids1.
    generalize dependent (d0 :: ds0). clear d0 ds0. intros keep Hnames.
    induction keep as [|d ds IHd]; intros r0 l0 e0 i0 Hok1 Hshort; [reflexivity|].
    cbn [child_fold fold_left bind].
    assert (Hvd : valid_name d) by (apply Hnames; left; reflexivity).
    assert (HXd : no_trailing_slash (pjoin X d)) by (apply pjoin_no_trailing; assumption).
    assert (Hpl : plist i0 (pjoin X d) = []).
    { unfold plist. rewrite Hshort; [reflexivity|]. apply dirname_pjoin_slash; assumption. }
    rewrite (walk_stable f1 f2 c (pjoin X d) (pjoin rel d) i0 e0 r0 l0 HXd Hok1);
      [|rewrite Hpl; cbn; lia|rewrite Hpl; cbn; lia].
    destruct (walk_verify L f2 w c (pjoin X d) (pjoin rel d) i0 e0 r0 l0) as [[[[i1 e1] r1] l1]|e] eqn:Ew.
    - fold (child_fold f1 c X rel ds (Ok (i1, e1, r1, l1))). fold (child_fold f2 c X rel ds (Ok (i1, e1, r1, l1))).
      destruct (walk_ids f2 _ _ _ _ _ _ _ _ _ _ _ Ew (proj1 HXd) Hok1) as [Hok2 Hk2].
      apply (IHd (fun d' Hd' => Hnames d' (or_intror Hd'))); [exact Hok2|].
      intros k Hk. rewrite Hk2; [apply Hshort; exact Hk|]. pose proof (pjoin_longer X d HX Hvd). lia.
    - fold (child_fold f1 c X rel ds (Err e)). fold (child_fold f2 c X rel ds (Err e)). rewrite !child_fold_err. reflexivity.
  Qed.

  Lemma dirids_le_nodes : (D <= length (w_nodes w))%nat.
  Proof.
    unfold D, dirids. induction (w_nodes w) as [|[i n] r IH]; [cbn; lia|].
    cbn [flat_map]. rewrite app_length. destruct n; cbn [snd length]; lia.
  Qed.
End Walk.

(* structural errors are raised whatever the failure handler answers *)
Lemma walk_loop_raised (L : hashlib) f w c X rel ids ed ret log ents dst :
  p_scandir w X = Ok ents -> p_stat w X = Ok dst ->
  (match vc_dev c with Some d => negb (st_dev dst =? d) | None => false end) = false ->
  In (st_dev dst, st_ino dst) (match assoc (dirname X) ids with Some x => x | None => [] end) ->
  walk_verify L (S f) w c X rel ids ed ret log = Err (XSymlinkLoop X).
Proof.
  intros Hs Ht Hd Hin. cbn [walk_verify]. rewrite Hs. cbn [bind]. rewrite Ht. cbn [bind]. rewrite Hd.
  assert (E : existsb (fun x => (fst x =? fst (st_dev dst, st_ino dst)) && (snd x =? snd (st_dev dst, st_ino dst)))
                      (match assoc (dirname X) ids with Some x => x | None => [] end) = true).
  { apply existsb_exists. exists (st_dev dst, st_ino dst). split; [exact Hin|]. cbn. rewrite !N.eqb_refl. reflexivity. }
  rewrite E. reflexivity.
Qed.

Lemma walk_xdev_raised (L : hashlib) f w c X rel ids ed ret log ents dst d :
  p_scandir w X = Ok ents -> p_stat w X = Ok dst -> vc_dev c = Some d -> st_dev dst <> d ->
  walk_verify L (S f) w c X rel ids ed ret log = Err (XCrossDevice X).
Proof.
  intros Hs Ht Hc Hd. cbn [walk_verify]. rewrite Hs. cbn [bind]. rewrite Ht. cbn [bind]. rewrite Hc.
  assert (negb (st_dev dst =? d) = true) as -> by (apply negb_true_iff; apply N.eqb_neq; exact Hd). reflexivity.
Qed.

Lemma verify_path_xdev (L : hashlib) w path t p a s c d lm i st :
  p_open w path = Ok i -> p_fstat w i = Ok st -> st_dev st <> d ->
  verify_path L w path (Some (EFile t p a s c)) (Some d) lm = Err (XCrossDevice path).
Proof.
  intros Ho Hf Hd. unfold verify_path, gfm_open. rewrite Ho. cbn [bind Bool.eqb negb gfm_stat]. rewrite Hf. cbn [bind].
  assert (negb (st_dev st =? d) = true) as -> by (apply negb_true_iff; apply N.eqb_neq; exact Hd). reflexivity.
Qed.
