(* C12 / C10: saving with nothing queued writes nothing; the compression policy. *)
From Coq Require Import List NArith ZArith Bool Lia.
From Gemato Require Import Py.PyStr Py.PyPath Py.PyTime Gen.Tables Gen.Util Gen.Profile
  Model.Entry Model.Text Model.OpenPGP Model.Hash Model.FS Model.Verify Model.Loader Model.Update.
From Gemato Require Import Proofs.Basics.
Import ListNotations.
Open Scope N_scope.

Section Save.
  Variable L : hashlib.
  Variable decompress compress : list N -> list N -> res (list N).
  Variable pgp_verify : list N -> res sigdata.
  Variable pgp_sign : list N -> option (list N) -> res (list N).
  Variable wmtime : Z.

  Lemma fold_left_inv {A B} (f : res A -> B -> res A) (P : A -> Prop) (l : list B) :
    (forall a b r, P a -> f (Ok a) b = Ok r -> P r) -> (forall e b, f (Err e) b = Err e) ->
    forall a r, P a -> fold_left f l (Ok a) = Ok r -> P r.
  Proof.
    intros Hs He. induction l as [|b l IH]; intros a r Pa H.
    - inversion H; subst. exact Pa.
    - cbn [fold_left] in H. destruct (f (Ok a) b) as [a'|e] eqn:E.
      + eapply IH; [eapply Hs; eassumption|exact H].
      + exfalso. clear -H He. induction l as [|x l IHl]; [discriminate|]. cbn [fold_left] in H. rewrite He in H. apply IHl. exact H.
  Qed.

  (* nothing queued, not forced: save_manifests touches neither the filesystem nor the loader's queue *)
  Theorem save_nothing_queued w l o w' l' :
    l_updated l = [] -> so_force o = false ->
    save_manifests L decompress compress pgp_verify pgp_sign wmtime w l o = Ok (w', l') ->
    w' = w /\ l_updated l' = [] /\ l_loaded l' = l_loaded l.
  Proof.
    intros Hu Hf. unfold save_manifests. rewrite Hf. cbn [bind].
    set (P := fun x : world * loader * list (list N) * list (list N * list N) =>
                let '(w0, l1, _, ren) := x in w0 = w /\ l_updated l1 = [] /\ l_loaded l1 = l_loaded l /\ ren = []).
    match goal with |- context [fold_left ?F (iter_manifests l [] true) ?init] =>
      destruct (fold_left F (iter_manifests l [] true) init) as [r|] eqn:E; cbn [bind]; [|discriminate];
      assert (Pr : P r)
    end.
    { refine (fold_left_inv _ P _ _ _ (w, l, [], []) r _ E).
      3:{ unfold P. repeat split; exact Hu. }
      - (* one Manifest of the snapshot *)
        intros [[[w0 l1] fx] ren] [[mpath relp] m0] r0 [Hw [Hu1 [Hl1 Hr]]] H. subst w0 ren. unfold P. cbn [bind] in H.
        destruct (get_m l1 mpath) as [m|]; [|discriminate].
        match type of H with context [fold_left ?G (mf_entries m) ?init2] =>
          assert (Inner : forall es l2 fx2, l_updated l2 = [] -> fold_left G es (Ok (l2, fx2)) = Ok (l2, fx2)) end.
        { induction es as [|ie es IHe]; intros l2 fx2 Hu2; [reflexivity|].
          cbn [fold_left bind]. destruct (entry_at l2 mpath (fst ie)) as [[d|p|t p a s c]|]; try (apply IHe; exact Hu2).
          destruct t; try (apply IHe; exact Hu2). rewrite Hu2. cbn. apply IHe. exact Hu2. }
        rewrite (Inner (mf_entries m) l1 fx Hu1) in H. cbn [bind] in H.
        rewrite Hu1 in H. cbn [orb mem_str existsb] in H. inversion H; subst. repeat split; assumption.
      - intros e [[mpath relp] m0]. reflexivity. }
    destruct r as [[[w9 l9] fx] ren]. unfold P in Pr. destruct Pr as [-> [Hu9 [Hl9 ->]]].
    rewrite Hu9. cbn [filter]. intros H. inversion H; subst. cbn. repeat split; assumption.
  Qed.
End Save.

(* ---- the compression policy (translated from profile.py) ---------------------------------- *)
Definition s_Manifest : list N := [77;97;110;105;102;101;115;116].

(* default and ebuild profiles: compress iff the uncompressed size reaches the watermark, and never
   a file named exactly "Manifest" (the top-level one) *)
Theorem default_want_compressed relpath tags unc wm :
  DefaultProfile_want_compressed_manifest relpath tags unc wm
  = Some ((wm <=? unc)%Z && negb (ustr_eqb relpath s_Manifest)).
Proof. reflexivity. Qed.
Theorem ebuild_want_compressed relpath tags unc wm :
  EbuildRepositoryProfile_want_compressed_manifest relpath tags unc wm
  = Some ((wm <=? unc)%Z && negb (ustr_eqb relpath s_Manifest)).
Proof. reflexivity. Qed.
(* the backwards-compatible profile never compresses a Manifest holding an EBUILD entry *)
Theorem old_ebuild_want_compressed relpath tags unc wm :
  BackwardsCompatEbuildRepositoryProfile_want_compressed_manifest relpath tags unc wm
  = if existsb (fun t => ustr_eqb t [69;66;85;73;76;68]) tags then Some false
    else Some ((wm <=? unc)%Z && negb (ustr_eqb relpath s_Manifest)).
Proof. reflexivity. Qed.

(* C13, reading side: the entries (and the signed flag) obtained from a Manifest file do not depend on whether
   the file is stored compressed - given only that the stored bytes decompress to the same text *)
Section Transparent.
  Variable L : hashlib.
  Variable decompress : list N -> list N -> res (list N).
  Variable pgp_verify : list N -> res sigdata.

  Theorem read_transparent w1 p1 fmt i1 d1 raw w2 p2 i2 v es sg st1 :
    compressed_suffix p1 = Some fmt -> mem_str fmt codec_suffixes = true ->
    p_open_file w1 p1 = Ok i1 -> p_read w1 i1 = Ok d1 -> decompress fmt d1 = Ok raw ->
    compressed_suffix p2 = None -> p_open_file w2 p2 = Ok i2 -> p_read w2 i2 = Ok raw ->
    read_manifest decompress pgp_verify w1 p1 v = Ok (es, sg, st1) ->
    forall st2, p_fstat w2 i2 = Ok st2 -> read_manifest decompress pgp_verify w2 p2 v = Ok (es, sg, st2).
  Proof.
    intros Hc1 Hm Ho1 Hr1 Hd Hc2 Ho2 Hr2 H st2 Hs2. unfold read_manifest in *.
    rewrite Hc1, Ho1 in H. cbn [bind] in H. rewrite Hr1 in H. cbn [bind] in H. rewrite Hm, Hd in H. cbn [bind] in H.
    rewrite Hc2, Ho2. cbn [bind]. rewrite Hr2. cbn [bind].
    destruct (utf8_decode raw) as [t|]; cbn [bind] in *; [|discriminate].
    destruct (load_with_env t v pgp_verify) as [[[es0 sg0] x]|]; cbn [bind] in *; [|discriminate].
    rewrite Hs2. cbn [bind]. destruct (p_fstat w1 i1); cbn [bind] in H; [|discriminate]. inversion H; subst. reflexivity.
  Qed.
End Transparent.
