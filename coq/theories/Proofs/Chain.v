(* C02: a sub-Manifest is only ever loaded (and hence consulted by any API) after its file
   matched a MANIFEST entry of an already loaded Manifest.  Invariant over the loading rounds,
   for chains of any depth. *)
From Coq Require Import List NArith ZArith Bool Lia Permutation.
From Gemato Require Import Py.PyStr Py.PyPath Gen.Tables Gen.Util Model.Entry Model.Text Model.OpenPGP Model.Hash
  Model.FS Model.Verify Model.Loader.
From Gemato Require Import Proofs.Basics.
Import ListNotations.
Open Scope N_scope.

Section Chain.
  Variable L : hashlib.
  Variable decompress : list N -> list N -> res (list N).
  Variable pgp_verify : list N -> res sigdata.
  Variable w : world.

  Notation read := (read_manifest decompress pgp_verify w).
  Definition keys (l : loader) : list (list N) := map fst (l_loaded l).
  Definition vflag (l : loader) : bool := o_verify_openpgp (l_opts l).

  (* every loaded Manifest object holds exactly the entries of its file *)
  Definition Faithful (l : loader) : Prop :=
    forall mp m, In (mp, m) (l_loaded l) ->
    exists sg st, read (pjoin rootdir mp) (vflag l) = Ok (entries_of m, sg, st).

  (* every loaded Manifest other than the top-level one is vouched for by a MANIFEST entry of the
     file of some loaded Manifest, and its own file matched that entry (size and every listed
     checksum of the stored bytes, compressed or not) when it was loaded *)
  Definition vouched (l : loader) (mp : list N) : Prop :=
    exists pm es sg st t p a s c d,
      In pm (keys l) /\ read (pjoin rootdir pm) (vflag l) = Ok (es, sg, st) /\
      In (EFile t p a s c) es /\ t = TMANIFEST /\ pjoin (dirname pm) p = mp /\
      Verify.verify_path L w (pjoin rootdir mp) (Some (EFile t p a s c)) None None = Ok (true, d).
  Definition Accepted (l : loader) : Prop :=
    forall mp, In mp (keys l) -> mp = l_top l \/ vouched l mp.

  Lemma number_entries_values es : forall next, map snd (fst (number_entries es next)) = es.
  Proof.
    induction es as [|e es IH]; intros next; [reflexivity|].
    cbn [number_entries]. specialize (IH (next + 1)). destruct (number_entries es (next + 1)) as [t n']. cbn in *. f_equal. exact IH.
  Qed.

  Lemma in_dict_set {A} k (v : A) l k' v' : In (k', v') (dict_set k v l) -> (k' = k /\ v' = v) \/ In (k', v') l.
  Proof.
    induction l as [|[k2 v2] l IH]; cbn.
    - intros [H|[]]. inversion H; subst. left; split; reflexivity.
    - destruct (ustr_eqb k k2) eqn:E.
      + intros [H|H]; [inversion H; subst; left; split; reflexivity|right; right; exact H].
      + intros [H|H]; [right; left; exact H|]. destruct (IH H) as [X|X]; [left; exact X|right; right; exact X].
  Qed.
  Lemma keys_dict_set {A} k (v : A) l x : In x (map fst (dict_set k v l)) <-> x = k \/ In x (map fst l).
  Proof.
    induction l as [|[k2 v2] l IH]; cbn.
    - split; [intros [H|[]]; left; congruence|intros [H|[]]; left; congruence].
    - destruct (ustr_eqb k k2) eqn:E.
      + apply ustr_eqb_eq in E. subst. cbn. split; [intros [H|H]; [left; congruence|right; right; exact H]|intros [H|[H|H]]; [left; congruence|left; exact H|right; exact H]].
      + cbn. rewrite IH. tauto.
  Qed.

  (* loading one Manifest with verification: its file matched the entry *)
  Lemma load_manifest_verified l mp e l' m :
    load_manifest L decompress pgp_verify w l mp (Some e) false false = Ok (l', m) ->
    (exists d, Verify.verify_path L w (pjoin rootdir mp) (Some e) None None = Ok (true, d)) /\
    (exists sg st, read (pjoin rootdir mp) (vflag l) = Ok (entries_of m, sg, st)) /\
    l_loaded l' = dict_set mp m (l_loaded l) /\ l_top l' = l_top l /\ l_opts l' = l_opts l.
  Proof.
    unfold load_manifest.
    destruct (verify_and_load L decompress pgp_verify w l mp (Some e)) as [[[es sg] st]|ex] eqn:Ev.
    2:{ destruct ex; try discriminate. destruct e0; discriminate. }
    unfold verify_and_load in Ev.
    destruct (Verify.verify_path L w (pjoin rootdir mp) (Some e) None None) as [[ok diff]|] eqn:Evp; cbn [bind] in Ev; [|discriminate].
    destruct ok; [|discriminate]. cbn [bind] in Ev.
    destruct (number_entries es (l_next l)) as [ids nx] eqn:En. cbn [bind].
    intros H. inversion H; subst. clear H.
    split; [eexists; reflexivity|]. split.
    - exists sg, st. unfold entries_of. cbn [mf_entries].
      pose proof (number_entries_values es (l_next l)) as Hv. rewrite En in Hv. cbn in Hv. rewrite Hv. exact Ev.
    - repeat split; reflexivity.
  Qed.

  Lemma vouched_mono l l' mp :
    (forall k, In k (keys l) -> In k (keys l')) -> vflag l' = vflag l -> vouched l mp -> vouched l' mp.
  Proof.
    intros Hk Hv [pm [es [sg [st [t [p [a [s [c [d [H1 [H2 H3]]]]]]]]]]]].
    exists pm, es, sg, st, t, p, a, s, c, d. rewrite Hv. split; [apply Hk; exact H1|]. split; [exact H2|exact H3].
  Qed.

  (* a list of (path, entry) pairs each justified by the current loader *)
  Definition justified (l : loader) (tl : list (list N * option entry)) : Prop :=
    forall mp ve, In (mp, ve) tl ->
    exists pm es sg st t p a s c,
      ve = Some (EFile t p a s c) /\ In pm (keys l) /\ read (pjoin rootdir pm) (vflag l) = Ok (es, sg, st) /\
      In (EFile t p a s c) es /\ t = TMANIFEST /\ pjoin (dirname pm) p = mp.

  Lemma load_list_accepted tl : forall l l', Faithful l -> Accepted l -> justified l tl ->
    load_list L decompress pgp_verify w l tl = Ok l' ->
    Faithful l' /\ Accepted l' /\ (forall k, In k (keys l) -> In k (keys l')) /\ vflag l' = vflag l /\ l_top l' = l_top l.
  Proof.
    induction tl as [|[mp ve] tl IH]; intros l l' HF HA HJ H.
    - inversion H; subst. repeat split; auto.
    - cbn [load_list] in H.
      destruct (HJ mp ve (or_introl eq_refl)) as [pm [es [sg [st [t [p [a [s [c [Hve [Hpm [Hr [Hin [Ht Hmp]]]]]]]]]]]]]].
      subst ve.
      destruct (load_manifest L decompress pgp_verify w l mp (Some (EFile t p a s c)) false false) as [[l1 m]|] eqn:El; [|discriminate].
      cbn [bind] in H.
      destruct (load_manifest_verified _ _ _ _ _ El) as [[d Hd] [[sg1 [st1 Hr1]] [Hl [Htop Hopts]]]].
      assert (Hv1 : vflag l1 = vflag l) by (unfold vflag; rewrite Hopts; reflexivity).
      assert (Hk1 : forall k, In k (keys l) -> In k (keys l1)).
      { intros k Hk. unfold keys. rewrite Hl. apply keys_dict_set. right. exact Hk. }
      assert (HF1 : Faithful l1).
      { intros k mk Hk. rewrite Hl in Hk. rewrite Hv1. destruct (in_dict_set _ _ _ _ _ Hk) as [[-> ->]|Hk'].
        - exists sg1, st1. exact Hr1.
        - apply (HF k mk Hk'). }
      assert (HA1 : Accepted l1).
      { intros k Hk. unfold keys in Hk. rewrite Hl in Hk. apply keys_dict_set in Hk. rewrite Htop. destruct Hk as [->|Hk].
        - right. exists pm, es, sg, st, t, p, a, s, c, d. rewrite Hv1.
          split; [apply Hk1; exact Hpm|]. repeat (split; [assumption|]). exact Hd.
        - destruct (HA k Hk) as [X|X]; [left; exact X|right; eapply vouched_mono; eassumption]. }
      assert (HJ1 : justified l1 tl).
      { intros mp' ve' Hin'. destruct (HJ mp' ve' (or_intror Hin')) as [pm' [es' [sg' [st' [t' [p' [a' [s' [c' [E1 [E2 [E3 E4]]]]]]]]]]]].
        exists pm', es', sg', st', t', p', a', s', c'. rewrite Hv1. split; [exact E1|]. split; [apply Hk1; exact E2|]. split; [exact E3|exact E4]. }
      destruct (IH l1 l' HF1 HA1 HJ1 H) as [R1 [R2 [R3 [R4 R5]]]].
      split; [exact R1|]. split; [exact R2|]. split; [intros k Hk; apply R3; apply Hk1; exact Hk|]. split; congruence.
  Qed.

  (* what one round wants to load comes from MANIFEST entries of loaded Manifests *)
  Lemma in_iter_manifests l path rec k d m : In (k, d, m) (iter_manifests l path rec) -> In (k, m) (l_loaded l) /\ d = dirname k.
  Proof.
    unfold iter_manifests. intros H.
    apply (Permutation_in _ (py_sorted_perm _ _)) in H. apply in_rev in H. apply in_flat_map in H.
    destruct H as [[k' m'] [Hin Hx]]. cbn [fst snd] in Hx.
    destruct (path_starts_with path (dirname k')); [|destruct (rec && path_starts_with (dirname k') path)];
      try (destruct Hx as [Hx|[]]; inversion Hx; subst; split; [exact Hin|reflexivity]). destruct Hx.
  Qed.

  Lemma to_load_justified l path rec : Faithful l -> justified l (to_load l path rec true).
  Proof.
    intros HF mp ve Hin. unfold to_load in Hin. apply in_flat_map in Hin.
    destruct Hin as [[[k d] m] [Hi Hx]]. apply in_iter_manifests in Hi. destruct Hi as [Hl ->].
    apply in_flat_map in Hx. destruct Hx as [e [He Hx]].
    destruct e as [dt|ip|t p a s c]; try (destruct Hx; fail).
    destruct t; try (destruct Hx; fail).
    destruct (ustr_eqb k (pjoin (dirname k) p) || _); [destruct Hx|].
    destruct (path_starts_with path (dirname (pjoin (dirname k) p)) || _); [|destruct Hx].
    destruct Hx as [Hx|[]]. inversion Hx; subst. clear Hx.
    destruct (HF k m Hl) as [sg [st Hr]].
    exists k, (entries_of m), sg, st, TMANIFEST, p, a, s, c.
    split; [reflexivity|]. split; [unfold keys; apply in_map_iff; exists (k, m); split; [reflexivity|exact Hl]|].
    split; [exact Hr|]. split; [exact He|]. split; reflexivity.
  Qed.

  (* C02 invariant: every round of load_manifests_for_path (with verification) preserves it *)
  Theorem load_manifests_accepted fuel : forall l path rec l', Faithful l -> Accepted l ->
    load_manifests_for_path L decompress pgp_verify fuel w l path rec true = Ok l' ->
    Faithful l' /\ Accepted l' /\ l_top l' = l_top l.
  Proof.
    induction fuel as [|f IH]; intros l path rec l' HF HA H; [discriminate|].
    cbn [load_manifests_for_path] in H.
    destruct (to_load l path rec true) as [|x tl] eqn:Et.
    - inversion H; subst. repeat split; auto.
    - destruct (load_list L decompress pgp_verify w l (x :: tl)) as [l1|] eqn:El; [|discriminate]. cbn [bind] in H.
      assert (HJ : justified l (x :: tl)) by (rewrite <- Et; apply to_load_justified; exact HF).
      destruct (load_list_accepted _ _ _ HF HA HJ El) as [R1 [R2 [_ [_ R5]]]].
      destruct (IH l1 path rec l' R1 R2 H) as [S1 [S2 S3]]. split; [exact S1|]. split; [exact S2|congruence].
  Qed.

  Lemma load_manifest_none l mp store l' m :
    load_manifest L decompress pgp_verify w l mp None false store = Ok (l', m) ->
    (exists sg st, read (pjoin rootdir mp) (vflag l) = Ok (entries_of m, sg, st)) /\
    l_loaded l' = dict_set mp m (l_loaded l) /\ l_top l' = l_top l /\ l_opts l' = l_opts l.
  Proof.
    unfold load_manifest.
    destruct (verify_and_load L decompress pgp_verify w l mp None) as [[[es sg] st]|ex] eqn:Ev.
    2:{ destruct ex; try discriminate. destruct e; discriminate. }
    unfold verify_and_load in Ev. cbn [bind] in Ev.
    destruct (number_entries es (l_next l)) as [ids nx] eqn:En. cbn [bind].
    intros H. inversion H; subst. clear H. split.
    - exists sg, st. unfold entries_of. cbn [mf_entries].
      pose proof (number_entries_values es (l_next l)) as Hv. rewrite En in Hv. cbn in Hv. rewrite Hv. exact Ev.
    - destruct store; repeat split; reflexivity.
  Qed.

  (* a freshly constructed loader satisfies the invariant: only the top-level Manifest is loaded *)
  Theorem new_loader_accepted top opts xdev l :
    new_loader L decompress pgp_verify w top opts false xdev = Ok l -> Faithful l /\ Accepted l.
  Proof.
    unfold new_loader.
    destruct (load_manifest L decompress pgp_verify w _ top None false (negb xdev)) as [[l1 m]|] eqn:El; cbn [bind]; [|discriminate].
    destruct (load_manifest_none _ _ _ _ _ El) as [[sg [st Hr]] [Hl [Ht Ho]]]. cbn in Hl, Ht, Ho, Hr.
    intros H. injection H as <-. unfold Faithful, Accepted, keys, vflag. cbn [l_loaded l_top l_opts].
    rewrite Hl, Ht, Ho. split.
    - intros mp m0 [Hin|[]]. inversion Hin; subst. exists sg, st. exact Hr.
    - intros mp [Hin|[]]. left. symmetry. exact Hin.
  Qed.
End Chain.
