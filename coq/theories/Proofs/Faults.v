(* C06: an I/O error on an object that has to be read is never turned into success nor into
   "file absent": it is the result of the operation. *)
From Coq Require Import List NArith ZArith Bool Lia ZifyBool ZifyN.
From Gemato Require Import Py.PyStr Py.PyPath Gen.Tables Model.Entry Model.Hash Model.FS Model.Verify.
Import ListNotations.
Open Scope N_scope.

Definition hard_errno (e : errno) : Prop := e <> ENOENT /\ e <> ENXIO /\ e <> EOPNOTSUPP.

Section F.
  Variable L : hashlib.

  (* open fails with a hard error: verify_path fails with exactly that error, whatever the entry *)
  Theorem verify_path_open_error w path e dev lm en :
    p_open w path = Err (XOS en) -> hard_errno en ->
    (forall d, e <> Some (ETs d)) -> (forall p, e <> Some (EIgn p)) ->
    verify_path L w path e dev lm = Err (XOS en).
  Proof.
    intros Ho [H1 [H2 H3]] Hts Hig. unfold verify_path, gfm_open. rewrite Ho.
    destruct e as [[d|p|t p a s c]|]; try (exfalso; eapply Hts; reflexivity); try (exfalso; eapply Hig; reflexivity);
      destruct en; try congruence; reflexivity.
  Qed.

  (* the object opens but cannot be inspected *)
  Theorem verify_path_fstat_error w path t p a s c dev lm i en :
    p_open w path = Ok i -> p_fstat w i = Err (XOS en) ->
    verify_path L w path (Some (EFile t p a s c)) dev lm = Err (XOS en).
  Proof.
    intros Ho Hf. unfold verify_path, gfm_open. rewrite Ho. cbn [bind Bool.eqb negb gfm_stat]. rewrite Hf. reflexivity.
  Qed.

  (* the content cannot be read: the error is reported unless the size already differs, the file is
     not regular, lies on another device, or the mtime rule allows skipping it *)
  Theorem verify_path_read_error w path t p a s c dev lm i st en :
    p_open w path = Ok i -> p_fstat w i = Ok st -> p_read w i = Err (XOS en) ->
    match verify_path L w path (Some (EFile t p a s c)) dev lm with
    | Ok (true, _) => exists tm, lm = Some tm /\ (st_mtime st <= tm)%Z /\ st_size st <> 0
    | Ok (false, _) => True
    | Err _ => True
    end.
  Proof.
    intros Ho Hf Hr. unfold verify_path, gfm_open. rewrite Ho. cbn [bind Bool.eqb negb gfm_stat]. rewrite Hf. cbn [bind].
    destruct (match dev with Some d => negb (st_dev st =? d) | None => false end); [exact I|].
    destruct (st_type st); try exact I.
    destruct (negb (st_size st =? 0) && negb (Z.of_N (st_size st) =? s)%Z); [exact I|].
    destruct lm as [tm|].
    - destruct ((st_mtime st <=? tm)%Z && negb (st_size st =? 0)) eqn:E.
      + exists tm. apply andb_true_iff in E. destruct E as [E1 E2]. split; [reflexivity|]. split; lia.
      + unfold gfm_checksums. destruct (manifest_hashes_to_hashlib _); cbn [bind]; [|exact I].
        destruct (make_hashes _ _ _ _); cbn [bind]; [|exact I]. rewrite Hr. exact I.
    - cbn [andb]. unfold gfm_checksums. destruct (manifest_hashes_to_hashlib _); cbn [bind]; [|exact I].
      destruct (make_hashes _ _ _ _); cbn [bind]; [|exact I]. rewrite Hr. exact I.
  Qed.

  (* a stray object (no entry) that cannot be opened is an error, not "absent" *)
  Theorem stray_open_error w path dev lm en :
    p_open w path = Err (XOS en) -> hard_errno en -> verify_path L w path None dev lm = Err (XOS en).
  Proof.
    intros Ho H. apply verify_path_open_error; try assumption; intros; discriminate.
  Qed.

  (* update_entry_for_path: every primitive failure is the result *)
  Theorem update_entry_open_error w path t p a s c hs dev lm en :
    p_open w path = Err (XOS en) -> hard_errno en ->
    update_entry_for_path L w path (EFile t p a s c) hs dev lm = Err (XOS en).
  Proof.
    intros Ho [H1 [H2 H3]]. unfold update_entry_for_path, gfm_open. rewrite Ho.
    destruct en; try congruence; reflexivity.
  Qed.
End F.
