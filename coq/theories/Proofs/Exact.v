(* C01, exactness of the lookup during the walk: every visible file of a reached directory is checked against THE entry that the
   merged dictionary records for its path - [lookup ed rel f] - or, when it records none, as a stray file.  (WalkComplete.v shows
   "an entry of the dictionary, or none"; here the dictionary is read exactly as it was when the walk started, because a
   directory visit only removes the dictionary of the directory visited and of directories below it, and no relative path is
   visited twice.)  Needs names that are non-empty and slash-free and listings without repetition, as Once.v. *)
From Coq Require Import List NArith ZArith Bool Lia Arith.
From Gemato Require Import Py.PyStr Py.PyPath Gen.Tables Model.Entry Model.Text Model.OpenPGP Model.Hash Model.FS
  Model.Verify Model.Loader.
From Gemato Require Import Proofs.Basics Proofs.DirSpec Proofs.OnlyOffending Proofs.WalkTerm Proofs.WalkComplete Proofs.NoLoop Proofs.Once Proofs.DictWf Proofs.Relative.
Import ListNotations.
Open Scope N_scope.

Definition lookup (ed : edict) (rel f : list N) : option entry :=
  match assoc rel ed with Some dd => assoc f dd | None => None end.

(* k is rel or lies below it (everything, when rel is the top directory '') *)
Definition within (rel k : list N) : Prop := k = rel \/ below rel k.

Lemma within_child rel d k : key_ok rel -> valid_name d -> within (pjoin rel d) k -> exists s, k = prefix rel ++ d ++ s /\ (s = [] \/ exists t, s = sl :: t).
Proof.
  intros Hr Hd [->|[s ->]].
  - exists []. rewrite app_nil_r. split; [apply pjoin_prefix; [exact Hr|apply Hd]|left; reflexivity].
  - pose proof (key_ok_child rel d Hr Hd) as Hc. exists (sl :: s). split; [|right; exists s; reflexivity].
    unfold prefix at 1. destruct (pjoin rel d) eqn:E; [destruct Hc; congruence|]. rewrite <- E.
    rewrite (pjoin_prefix rel d Hr (proj2 Hd)). rewrite <- !app_assoc. reflexivity.
Qed.

Lemma within_child_below rel d k : key_ok rel -> valid_name d -> within (pjoin rel d) k -> below rel k /\ k <> rel.
Proof.
  intros Hr Hd Hw. destruct (within_child rel d k Hr Hd Hw) as [s [-> Hs]]. split; [exists (d ++ s); reflexivity|].
  intros E. destruct rel as [|x r]; cbn [prefix app] in E.
  - destruct d; [destruct Hd; congruence|discriminate].
  - assert (length ((x :: r) ++ [sl] ++ d ++ s) = length (x :: r)) by (rewrite <- app_assoc in E; cbn [app] in E |- *; rewrite E; reflexivity).
    rewrite !app_length in H. cbn in H. lia.
Qed.

Lemma within_siblings rel d1 d2 k : key_ok rel -> valid_name d1 -> valid_name d2 -> d1 <> d2 ->
  within (pjoin rel d1) k -> within (pjoin rel d2) k -> False.
Proof.
  intros Hr H1 H2 Hne W1 W2.
  destruct (within_child rel d1 k Hr H1 W1) as [s1 [E1 S1]]. destruct (within_child rel d2 k Hr H2 W2) as [s2 [E2 S2]].
  rewrite E1 in E2. apply app_inv_head in E2. apply Hne.
  destruct S1 as [->|[t1 ->]], S2 as [->|[t2 ->]]; rewrite ?app_nil_r in E2.
  - exact E2.
  - exfalso. apply (proj2 H1). rewrite E2. apply in_or_app. right. left. reflexivity.
  - exfalso. apply (proj2 H2). rewrite <- E2. apply in_or_app. right. left. reflexivity.
  - destruct (first_component d1 d2 t1 t2 (proj2 H1) (proj2 H2) E2) as [E _]. exact E.
Qed.

Section Exact.
  Variable L : hashlib.
  Variable w : world.
  Hypothesis Hw : wf_world w.
  Hypothesis Hnd : forall X ents, p_scandir w X = Ok ents -> NoDup (map fst ents).
  Variable c : vctx.

  (* a walk changes the dictionary only at keys within the directory walked *)
  Lemma walk_frame f : forall X rel ids ed ret log ids' ed' ret' log',
    walk_verify L f w c X rel ids ed ret log = Ok (ids', ed', ret', log') -> key_ok rel ->
    forall k, ~ within rel k -> assoc k ed' = assoc k ed.
  Proof.
    induction f as [|f IH]; intros X rel ids ed ret log ids' ed' ret' log' H Hr k Hk; [discriminate|].
    cbn [walk_verify] in H.
    destruct (p_scandir w X) as [ents|] eqn:Es; cbn [bind] in H; [|discriminate].
    destruct (p_stat w X) as [dst|]; cbn [bind] in H; [|discriminate].
    destruct (match vc_dev c with Some d => negb (st_dev dst =? d) | None => false end); [discriminate|].
    destruct (existsb _ _); [discriminate|].
    destruct (fold_left _ (map fst (filter snd ents)) ([], _)) as [keep dirdict1] eqn:Ek.
    assert (Hvalid : forall d, In d keep -> valid_name d).
    { intros d Hd. destruct (keep_subset _ _ _ _ _ Ek d Hd) as [[]|Hin].
      apply in_map_iff in Hin. destruct Hin as [[n b0] [E Hin]]. cbn in E. subst n. apply filter_In in Hin.
      eapply scandir_names; [exact Hw|exact Es|apply Hin]. }
    destruct (verify_dir L w c X rel keep _ dirdict1 log) as [[b log1]|]; cbn [bind] in H; [|discriminate].
    assert (E1 : assoc k (dict_del rel ed) = assoc k ed) by (apply assoc_del_other; intros ->; apply Hk; left; reflexivity).
    rewrite <- E1. clear E1. revert H Hvalid. generalize (dict_del rel ed) (ret && b) log1.
    match goal with |- forall e b0 l, fold_left _ _ (Ok (?i, _, _, _)) = _ -> _ => generalize i end.
    clear Ek. induction keep as [|d ds IHd]; intros i0 e0 r0 l0 Hd Hv; [cbn in Hd; inversion Hd; reflexivity|].
    cbn [fold_left bind] in Hd.
    destruct (walk_verify L f w c (pjoin X d) (pjoin rel d) i0 e0 r0 l0) as [[[[i2 e2] r2] l2]|] eqn:E.
    2:{ exfalso. rewrite fold_err_stays' in Hd by reflexivity. discriminate. }
    rewrite (IHd _ _ _ _ Hd (fun d' H' => Hv d' (or_intror H'))).
    eapply IH; [exact E|right; apply key_ok_child; [exact Hr|apply Hv; left; reflexivity]|].
    intros Hwk. apply Hk. right. apply (within_child_below rel d k Hr (Hv d (or_introl eq_refl)) Hwk).
  Qed.

  (* the pruning only deletes entries recorded for listed sub-directories *)
  Lemma prune_keeps_other (dirnames : list (list N)) n : ~ In n dirnames -> forall kp0 dd0 kp dd,
    fold_left (fun (acc : list (list N) * list (list N * entry)) d =>
      let '(kp, dd) := acc in
      if py_startswith d [46] then (kp, dd)
      else match assoc d dd with
           | None => (kp ++ [d], dd)
           | Some (EIgn _) => (kp, dict_del d dd)
           | Some _ => (kp, dd)
           end) dirnames (kp0, dd0) = (kp, dd) -> assoc n dd = assoc n dd0.
  Proof.
    induction dirnames as [|d ds IH]; intros Hn kp0 dd0 kp dd H; [cbn in H; inversion H; reflexivity|].
    cbn [fold_left] in H. assert (Hn' : ~ In n ds) by (intros X; apply Hn; right; exact X).
    assert (Hnd' : n <> d) by (intros ->; apply Hn; left; reflexivity).
    destruct (py_startswith d [46]); [apply (IH Hn' _ _ _ _ H)|].
    destruct (assoc d dd0) as [[ts|p|t p a s ck]|]; try apply (IH Hn' _ _ _ _ H).
    rewrite (IH Hn' _ _ _ _ H). apply assoc_del_other. exact Hnd'.
  Qed.

  Variable ed0 : edict.

  Definition files_exact (dp rel : list N) (log : list call) : Prop :=
    forall ents f, p_scandir w dp = Ok ents -> In f (map fst (filter (fun x => negb (snd x)) ents)) ->
      visible (vc_top c) rel f = true -> presented_at L w c (pjoin dp f) (pjoin rel f) (lookup ed0 rel f) log.

  Lemma files_exact_mono dp rel log log' : pre log log' -> files_exact dp rel log -> files_exact dp rel log'.
  Proof. intros Hp H ents f A1 A2 A3. eapply presented_at_mono; [exact Hp|apply (H ents f A1 A2 A3)]. Qed.

  (* [agree ed rel]: on every key within rel the current dictionary still is the original one *)
  Definition agree (ed : edict) (rel : list N) : Prop := forall k, within rel k -> assoc k ed = assoc k ed0.

  Variable path0 : list N.

  Lemma walk_exact f : forall X rel ids ed ret log ids' ed' ret' log',
    walk_verify L f w c X rel ids ed ret log = Ok (ids', ed', ret', log') ->
    paired path0 X rel -> key_ok rel -> agree ed rel -> (forall k dd, In (k, dd) ed0 -> NoDup (map fst dd)) ->
    pre log log' /\ forall X' rel', reach w ed0 X rel X' rel' -> files_exact X' rel' log'.
  Proof.
    induction f as [|f IH]; intros X rel ids ed ret log ids' ed' ret' log' H Hp Hr Hag Hdd; [discriminate|].
    cbn [walk_verify] in H.
    destruct (p_scandir w X) as [ents|] eqn:Es; cbn [bind] in H; [|discriminate].
    destruct (p_stat w X) as [dst|]; cbn [bind] in H; [|discriminate].
    destruct (match vc_dev c with Some d => negb (st_dev dst =? d) | None => false end); [discriminate|].
    destruct (existsb _ _); [discriminate|].
    assert (Hrel0 : assoc rel ed = assoc rel ed0) by (apply Hag; left; reflexivity).
    set (dirdict := match assoc rel ed with Some d => d | None => [] end) in *.
    destruct (fold_left _ (map fst (filter snd ents)) ([], dirdict)) as [keep dirdict1] eqn:Ek.
    assert (Hddn : NoDup (map fst dirdict)).
    { unfold dirdict. rewrite Hrel0. destruct (assoc rel ed0) as [dd|] eqn:Ea; [apply (Hdd rel dd), assoc_in, Ea|constructor]. }
    pose proof (nodup_map_filter_split ents (Hnd _ _ Es)) as Hsplit.
    destruct (prune_keep _ _ _ _ _ Ek (nodup_app_l _ _ Hsplit) (NoDup_nil _) (fun x (Hx : In x []) => match Hx with end) Hddn) as [K1 [K2 [K3 K4]]].
    destruct (prune_spec _ _ _ _ _ Ek) as [_ [P2 _]].
    set (filenames := map fst (filter (fun x => negb (snd x)) ents)) in *.
    assert (Hdisj : forall x, In x (map fst (filter snd ents)) -> In x filenames -> False).
    { intros x Hd Hf. clear -Hsplit Hd Hf. unfold filenames in *. induction (map fst (filter snd ents)) as [|y l IHl]; [destruct Hd|].
      cbn in Hsplit. inversion Hsplit; subst. destruct Hd as [->|Hd]; [apply H1; apply in_or_app; right; exact Hf|apply IHl; assumption]. }
    assert (Hkf : NoDup (keep ++ filenames)).
    { apply nodup_app2; [exact K1|eapply nodup_app_r; exact Hsplit|]. intros x Hx Hf. destruct (K2 x Hx) as [[]|Hd]. exact (Hdisj x Hd Hf). }
    assert (Hvalid : forall d, In d keep -> valid_name d).
    { intros d Hd. destruct (K2 d Hd) as [[]|Hin]. apply in_map_iff in Hin. destruct Hin as [[n b0] [E Hin]]. cbn in E. subst n.
      apply filter_In in Hin. eapply scandir_names; [exact Hw|exact Es|apply Hin]. }
    destruct (verify_dir L w c X rel keep filenames dirdict1 log) as [[b log1]|] eqn:Ev; cbn [bind] in H; [|discriminate].
    rewrite verify_dir_items in Ev.
    destruct (verify_items_presented L w c path0 X rel Hp _ _ _ _ _ Ev) as [V1 V2].
    destruct (dir_items_spec (vc_top c) rel keep filenames dirdict1 Hkf K3) as [_ I2].
    (* the files of this directory *)
    assert (FP : files_exact X rel log1).
    { intros ents' f0 Es' Hf0 Hv0. rewrite Es in Es'. inversion Es'; subst ents'. fold filenames in Hf0.
      assert (Hit : In (f0, assoc f0 dirdict1) (dir_items (vc_top c) rel keep filenames dirdict1)).
      { apply I2. right. left. split; [exact Hf0|split; [exact Hv0|reflexivity]]. }
      pose proof (V2 _ Hit) as Hpr. cbn [fst snd] in Hpr.
      assert (El : assoc f0 dirdict1 = lookup ed0 rel f0).
      { rewrite (prune_keeps_other _ f0 (fun Hx => Hdisj f0 Hx Hf0) _ _ _ _ Ek). unfold lookup. rewrite <- Hrel0. unfold dirdict.
        destruct (assoc rel ed); reflexivity. }
      rewrite <- El. exact Hpr. }
    (* the recursion *)
    assert (G : forall ds i0 e0 r0 l0 i1 e1 r1 l1, NoDup ds -> (forall d, In d ds -> valid_name d) ->
      (forall d, In d ds -> agree e0 (pjoin rel d)) ->
      fold_left (fun (acc : res (ids_map * edict * bool * list call)) d =>
        '(i, e, r, lg) <- acc ;; walk_verify L f w c (pjoin X d) (pjoin rel d) i e r lg)
        ds (Ok (i0, e0, r0, l0)) = Ok (i1, e1, r1, l1) ->
      pre l0 l1 /\ forall d, In d ds -> forall X' rel', reach w ed0 (pjoin X d) (pjoin rel d) X' rel' -> files_exact X' rel' l1).
    { induction ds as [|d ds IHd]; intros i0 e0 r0 l0 i1 e1 r1 l1 Hnds Hv Hags Hd.
      - cbn in Hd. inversion Hd; subst. split; [apply pre_refl|intros d []].
      - cbn [fold_left bind] in Hd. inversion Hnds as [|? ? Hdn Hdsn]; subst.
        destruct (walk_verify L f w c (pjoin X d) (pjoin rel d) i0 e0 r0 l0) as [[[[i2 e2] r2] l2]|] eqn:E.
        2:{ exfalso. rewrite fold_err_stays' in Hd by reflexivity. discriminate. }
        assert (Hvd : valid_name d) by (apply Hv; left; reflexivity).
        assert (Hrc : key_ok (pjoin rel d)) by (right; apply key_ok_child; assumption).
        destruct (IH _ _ _ _ _ _ _ _ _ _ E (paired_step path0 X rel d Hp) Hrc (Hags d (or_introl eq_refl)) Hdd) as [W1 W2].
        assert (Hags2 : forall d', In d' ds -> agree e2 (pjoin rel d')).
        { intros d' Hd' k Hk. rewrite (walk_frame f _ _ _ _ _ _ _ _ _ _ E Hrc k).
          - apply (Hags d' (or_intror Hd')). exact Hk.
          - intros Hk2. apply (within_siblings rel d' d k Hr (Hv d' (or_intror Hd')) Hvd); [intros ->; exact (Hdn Hd')|exact Hk|exact Hk2]. }
        destruct (IHd _ _ _ _ _ _ _ _ Hdsn (fun d' H' => Hv d' (or_intror H')) Hags2 Hd) as [V1' V2'].
        split; [eapply pre_trans; eassumption|].
        intros d' [<-|Hin] X' rel' Hreach; [eapply files_exact_mono; [exact V1'|apply W2; exact Hreach]|eapply V2'; eassumption]. }
    assert (Hags1 : forall d, In d keep -> agree (dict_del rel ed) (pjoin rel d)).
    { intros d Hd k Hk. destruct (within_child_below rel d k Hr (Hvalid d Hd) Hk) as [B1 B2].
      rewrite assoc_del_other by exact B2. apply Hag. right. exact B1. }
    destruct (G _ _ _ _ _ _ _ _ _ K1 Hvalid Hags1 H) as [G1 G2].
    split; [eapply pre_trans; eassumption|].
    intros X' rel' Hreach. inversion Hreach as [|? ? ents' d ? ? R1 R2 R3 R4 R5]; subst.
    - eapply files_exact_mono; [exact G1|exact FP].
    - rewrite Es in R1. inversion R1; subst ents'. eapply G2; [|exact R5].
      apply P2; [exact R2|exact R3|]. unfold dirdict. rewrite Hrel0. destruct (assoc rel ed0) as [dd|] eqn:Ea; [|reflexivity].
      apply R4. apply assoc_in. exact Ea.
  Qed.
End Exact.

(* the whole operation *)
Theorem found_files_checked_against_their_entries (L : hashlib) decompress pgp_verify w l path pol lm l' b log :
  wf_world w -> nodup_world w -> key_ok path ->
  assert_directory_verifies L decompress pgp_verify w l path pol lm = Ok (l', b, log) ->
  forall ed, get_file_entry_dict L decompress pgp_verify w l path None true = Ok (l', ed) ->
    (forall k dd, In (k, dd) ed -> NoDup (map fst dd)) ->
    forall dp rel ents f, reach w ed (walk_top path) path dp rel -> p_scandir w dp = Ok ents ->
      In f (map fst (filter (fun x => negb (snd x)) ents)) -> visible (l_top l') rel f = true ->
      presented_at L w (mk_vctx (l_top l') (l_dev l') pol lm) (pjoin dp f) (pjoin rel f) (lookup ed rel f) log.
Proof.
  intros Hw Hn Hp H ed Hg Hdd dp rel ents f Hreach Hs Hf Hv. unfold assert_directory_verifies in H. rewrite Hg in H. cbn [bind] in H.
  set (c := mk_vctx (l_top l') (l_dev l') pol lm) in *.
  destruct (walk_verify L (nodes_fuel w) w c _ path [] ed true []) as [[[[ids' ed'] ret] lg]|] eqn:Ew; cbn [bind] in H; [|discriminate].
  destruct (walk_exact L w Hw (scandir_nodup w Hn) c ed path _ _ _ _ _ _ _ _ _ _ _ Ew (paired_start path) Hp (fun k _ => eq_refl) Hdd) as [W1 W2].
  match type of H with context [bind ?x _] => destruct x as [[r9 l9]|] eqn:E9 end; cbn [bind] in H; [|discriminate].
  assert (O1 : pre lg l9).
  { match type of E9 with ?x = _ => replace x with (run_steps L w c (trailing_steps ed') (Ok (ret, lg))) in E9 by (symmetry; apply trailing_is_run_steps) end.
    clear -E9. revert ret lg E9. induction (trailing_steps ed') as [|st sts IHs]; intros ret lg E9; [cbn in E9; inversion E9; apply pre_refl|].
    cbn [run_steps fold_left bind] in E9.
    destruct (verify_one L w c (fst (fst st)) (snd (fst st)) (snd st) lg) as [[b0 lg0]|] eqn:E; cbn [bind] in E9.
    2:{ exfalso. rewrite fold_err_stays' in E9 by reflexivity. discriminate. }
    eapply pre_trans; [apply (proj1 (verify_one_presented L w c _ _ _ _ _ _ E))|apply (IHs _ _ E9)]. }
  inversion H; subst. cbn [snd].
  eapply presented_at_mono; [exact O1|]. exact (W2 dp rel Hreach ents f Hs Hf Hv).
Qed.

(* ... with the premise on the dictionary discharged for a loader whose Manifests name relative paths *)
Theorem found_files_checked_exactly (L : hashlib) decompress pgp_verify w l path pol lm l' b log :
  wf_world w -> nodup_world w -> key_ok path -> lrel l ->
  assert_directory_verifies L decompress pgp_verify w l path pol lm = Ok (l', b, log) ->
  exists ed, get_file_entry_dict L decompress pgp_verify w l path None true = Ok (l', ed) /\
    forall dp rel ents f, reach w ed (walk_top path) path dp rel -> p_scandir w dp = Ok ents ->
      In f (map fst (filter (fun x => negb (snd x)) ents)) -> visible (l_top l') rel f = true ->
      presented_at L w (mk_vctx (l_top l') (l_dev l') pol lm) (pjoin dp f) (pjoin rel f) (lookup ed rel f) log.
Proof.
  intros Hw Hn Hp Hl H.
  destruct (directory_verification_complete L decompress pgp_verify w l path pol lm l' b log H) as [ed [E1 _]].
  exists ed. split; [exact E1|].
  destruct (entry_dict_wf_rel L decompress pgp_verify w l path true l' ed Hl E1) as [_ [_ Hwf]].
  apply (found_files_checked_against_their_entries L decompress pgp_verify w l path pol lm l' b log Hw Hn Hp H ed E1).
  intros k dd Hin. apply (proj1 (proj2 (Hwf k dd Hin))).
Qed.
