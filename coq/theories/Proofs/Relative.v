(* The Manifests of a loader name relative paths only: every loaded Manifest has a non-empty relative path, its entries are those the
   parser accepts (non-empty, not absolute: C09_accepted_sane).  Loading keeps that.  Consequence: the merged entry dictionary of a
   directory verification is well-formed for ANY requested path, the top directory included, and so no path is reported twice. *)
From Coq Require Import List NArith ZArith Bool Lia Arith Permutation.
From Gemato Require Import Py.PyStr Py.PyPath Gen.Tables Gen.Util Model.Entry Model.Text Model.OpenPGP Model.Hash Model.FS
  Model.Verify Model.Loader.
From Gemato Require Import Proofs.Basics Proofs.SortTheory Proofs.Reject Proofs.UtilSpec Proofs.DirSpec Proofs.WalkTerm Proofs.ReadSafe
  Proofs.EntryDict Proofs.Once Proofs.DictWf.
Import ListNotations.
Open Scope N_scope.

Definition rel_path (p : list N) : Prop := p <> [] /\ rel_start p.

Lemma rel_start_hd p : p <> [] -> hd 0 p <> Entry.slash -> rel_path p.
Proof. intros H1 H2. split; [exact H1|]. destruct p; [congruence|exact H2]. Qed.

Lemma sane_path e : entry_sane e -> e_tag e <> TTIMESTAMP -> rel_path (e_path e).
Proof.
  destruct e as [d|p|t p a s c]; cbn [entry_sane e_tag e_path].
  - intros _ H. congruence.
  - intros [H1 H2] _. apply rel_start_hd; assumption.
  - intros [_ H] Ht. destruct t; try congruence; try (destruct H as [H1 [H2 _]]; apply rel_start_hd; assumption); try (destruct H as [H1 H2]; apply rel_start_hd; assumption).
    destruct H as [H1 [H2 ->]]. destruct a as [|x a']; [congruence|]. cbn [hd] in H2.
    assert (E : (x =? Entry.slash) = false) by (apply N.eqb_neq; exact H2).
    assert (X : path_join s_files (x :: a') = s_files ++ [Entry.slash] ++ x :: a').
    { unfold path_join. rewrite E. reflexivity. }
    rewrite X. split; [discriminate|]. cbn. intros E3. discriminate.
Qed.

(* a prefix of a relative path is relative *)
Lemma rel_start_prefix a b : rel_start (a ++ b) -> rel_start a.
Proof. destruct a; [intros _; exact I|cbn; auto]. Qed.

Lemma rstrip_prefix h : exists t, h = py_rstrip h [sl] ++ t.
Proof.
  unfold py_rstrip. destruct (lstrip_spec (rev h)) as [pre [S1 _]]. exists (rev pre).
  apply (f_equal (@rev N)) in S1. rewrite rev_involutive, rev_app_distr in S1. exact S1.
Qed.

Lemma dirname_prefix p : exists t, p = dirname p ++ t.
Proof.
  unfold dirname. pose proof (rsplit_concat p) as Hc. destruct (forallb (N.eqb sl) (fst (rsplit_slash p))).
  - exists (snd (rsplit_slash p)). symmetry. exact Hc.
  - destruct (rstrip_prefix (fst (rsplit_slash p))) as [t Ht]. exists (t ++ snd (rsplit_slash p)).
    rewrite app_assoc, <- Ht. symmetry. exact Hc.
Qed.

Lemma dirname_rel p : rel_start p -> rel_start (dirname p).
Proof. intros H. destruct (dirname_prefix p) as [t Ht]. rewrite Ht in H. eapply rel_start_prefix. exact H. Qed.

(* joining a relative directory (or '') with a relative path gives a relative path *)
Lemma pjoin_rel d p : rel_start d -> rel_path p -> rel_path (pjoin d p).
Proof.
  intros Hd [Hp1 Hp2]. unfold pjoin. destruct p as [|x p']; [congruence|]. cbn in Hp2.
  assert (E : (x =? sl) = false) by (apply N.eqb_neq; exact Hp2). rewrite E.
  destruct d as [|y d']; [split; [discriminate|exact Hp2]|].
  destruct (py_endswith (y :: d') [sl]); (split; [discriminate|exact Hd]).
Qed.

(* ---- the loader ---------------------------------------------------------------------------------------------------- *)
Definition lrel (l : loader) : Prop :=
  forall mp m, In (mp, m) (l_loaded l) -> rel_path mp /\ Forall entry_sane (entries_of m).

Section Rel.
  Variable L : hashlib.
  Variable decompress : list N -> list N -> res (list N).
  Variable pgp_verify : list N -> res sigdata.
  Variable w : world.

  Lemma read_manifest_sane path v es sg st :
    read_manifest decompress pgp_verify w path v = Ok (es, sg, st) -> Forall entry_sane es.
  Proof.
    unfold read_manifest.
    destruct (p_open_file w path) as [i|]; cbn [bind]; [|discriminate].
    destruct (p_read w i) as [data|]; cbn [bind]; [|discriminate].
    destruct (match compressed_suffix path with None => Ok data | Some fmt => _ end) as [plain|]; cbn [bind]; [|discriminate].
    destruct (utf8_decode plain) as [text|]; cbn [bind]; [|discriminate].
    unfold load_with_env. destruct (load text v) as [[es0 o]|] eqn:El; cbn [bind]; [|discriminate].
    pose proof (load_sane _ _ _ _ El) as Hs.
    destruct o as [t|]; cbn [bind].
    - destruct (pgp_verify t); cbn [bind]; [|discriminate]. destruct (p_fstat w i); cbn [bind]; [|discriminate].
      intros H. inversion H; subst. exact Hs.
    - destruct (p_fstat w i); cbn [bind]; [|discriminate]. intros H. inversion H; subst. exact Hs.
  Qed.

  Lemma load_manifest_rel l relpath ve sd l' m : rel_path relpath -> lrel l ->
    load_manifest L decompress pgp_verify w l relpath ve false sd = Ok (l', m) -> lrel l'.
  Proof.
    intros Hr Hl. unfold load_manifest.
    destruct (verify_and_load L decompress pgp_verify w l relpath ve) as [[[es sg] st]|e] eqn:E.
    - assert (Hs : Forall entry_sane es).
      { unfold verify_and_load in E. destruct ve as [e0|]; cbn [bind] in E.
        - destruct (Verify.verify_path L w (pjoin rootdir relpath) (Some e0) None None) as [[ok diff]|]; cbn [bind] in E; [|discriminate].
          destruct ok; cbn [bind] in E; [|discriminate]. eapply read_manifest_sane; exact E.
        - eapply read_manifest_sane; exact E. }
      pose proof (number_entries_snd es (l_next l)) as Hn.
      destruct (number_entries es (l_next l)) as [ids nx]. cbn [bind fst] in *.
      intros H. inversion H; subst. clear H.
      assert (G : forall l2, l_loaded l2 = l_loaded l -> lrel (set_loaded l2 (dict_set relpath (mk_mf ids sg) (l_loaded l2)))).
      { intros l2 E2 mp m0 Hin. cbn in Hin. rewrite E2 in Hin. apply In_dict_set' in Hin. destruct Hin as [Hin|Hin].
        - inversion Hin; subst. split; [exact Hr|]. unfold entries_of. cbn [mf_entries]. first [exact Hs|rewrite Hn; exact Hs].
        - exact (Hl mp m0 Hin). }
      destruct sd; apply G; reflexivity.
    - destruct e; cbn [bind]; try discriminate. match goal with e0 : errno |- _ => destruct e0 end; cbn [bind]; discriminate.
  Qed.

  Lemma to_load_rel l path rc v : lrel l -> Forall (fun x => rel_path (fst x)) (to_load l path rc v).
  Proof.
    intros Hl. unfold to_load. apply Forall_forall. intros [mp ve] Hin. apply in_flat_map in Hin. destruct Hin as [[[cur rel] m] [Hk Hin]].
    assert (Hm : rel_path cur /\ rel = dirname cur /\ Forall entry_sane (entries_of m)).
    { unfold iter_manifests in Hk. apply (Permutation.Permutation_in _ (py_sorted_perm _ _)) in Hk. apply in_rev in Hk. apply in_flat_map in Hk.
      destruct Hk as [[k m'] [Hk0 Hk]]. cbn [fst snd] in Hk. destruct (Hl k m' Hk0) as [R1 R2].
      destruct (path_starts_with path (dirname k)); [|destruct (_ && _)]; try (destruct Hk as [Hk|[]]; inversion Hk; subst; split; [exact R1|split; [reflexivity|exact R2]]).
      destruct Hk. }
    destruct Hm as [Rc [-> Hs]].
    apply in_flat_map in Hin. destruct Hin as [e [He Hin]]. rewrite Forall_forall in Hs. specialize (Hs e He).
    destruct e as [d|p|t p a s c]; try destruct Hin.
    destruct t; try destruct Hin. destruct (_ || _); [destruct Hin|]. destruct (_ || _); [|destruct Hin].
    destruct Hin as [H|[]]. inversion H; subst. cbn [fst].
    apply pjoin_rel; [apply dirname_rel; apply Rc|]. apply (sane_path (EFile TMANIFEST p a s c) Hs). discriminate.
  Qed.

  Lemma load_list_rel tl : forall l l', Forall (fun x => rel_path (fst x)) tl -> lrel l ->
    load_list L decompress pgp_verify w l tl = Ok l' -> lrel l'.
  Proof.
    induction tl as [|[mp ve] r IH]; intros l l' Ht Hl H; [cbn in H; inversion H; subst; exact Hl|].
    inversion Ht; subst. cbn [load_list] in H.
    destruct (load_manifest L decompress pgp_verify w l mp ve false false) as [[l1 m]|] eqn:E; cbn [bind] in H; [|discriminate].
    eapply IH; [eassumption| |exact H]. eapply load_manifest_rel; [|exact Hl|exact E]. assumption.
  Qed.

  Lemma load_manifests_rel fuel : forall l path rc v l', lrel l ->
    load_manifests_for_path L decompress pgp_verify fuel w l path rc v = Ok l' -> lrel l'.
  Proof.
    induction fuel as [|f IH]; intros l path rc v l' Hl H; [discriminate|].
    cbn [load_manifests_for_path] in H. pose proof (to_load_rel l path rc v Hl) as Ht.
    destruct (to_load l path rc v) as [|x tl] eqn:E; [inversion H; subst; exact Hl|].
    destruct (load_list L decompress pgp_verify w l (x :: tl)) as [l1|] eqn:El; cbn [bind] in H; [|discriminate].
    eapply IH; [|exact H]. eapply load_list_rel; eassumption.
  Qed.

  (* a loader constructed on a relative top-level Manifest name *)
  Lemma new_loader_rel top opts ax l : rel_path top ->
    new_loader L decompress pgp_verify w top opts false ax = Ok l -> lrel l.
  Proof.
    intros Ht. unfold new_loader.
    destruct (load_manifest L decompress pgp_verify w _ top None false (negb ax)) as [[l1 m]|] eqn:E; cbn [bind]; [|discriminate].
    intros H. inversion H; subst. cbn [l_loaded]. intros mp m0 Hin.
    eapply (load_manifest_rel _ top None (negb ax) l1 m Ht); [|exact E|exact Hin]. intros mp' m' [].
  Qed.

  (* the dictionary step under "the path it is handed is relative" *)
  Lemma dict_step_wf_rel path : forall es rel out out', rel_start rel -> Forall entry_sane es ->
    snd (fold_left (dict_step path) es (rel, Ok out)) = Ok out' -> dict_wf out -> dict_wf out'.
  Proof.
    induction es as [|e es IH]; intros rel out out' Hrel Hes H Hw; [cbn in H; inversion H; subst; exact Hw|].
    cbn [fold_left] in H. inversion Hes as [|? ? Hse Hes']; subst.
    assert (Hc : forall es' rel' x, snd (fold_left (dict_step path) es' (rel', @Err edict x)) = Err x).
    { induction es' as [|e1 es' IH']; intros rel' x; [reflexivity|]. cbn [fold_left]. unfold dict_step at 2. cbv beta iota. apply IH'. }
    destruct (dict_step path (rel, Ok out) e) as [rel2 acc2] eqn:Estep.
    assert (Step : rel2 = rel /\ match acc2 with Ok out2 => dict_wf out2 | Err _ => True end).
    { revert Estep. unfold dict_step. cbv beta iota zeta.
      destruct (e_tag e) eqn:Et; try (intros Hx; inversion Hx; subst; split; [reflexivity|exact Hw]).
      all: destruct (path_starts_with (pjoin rel (e_path e)) path) eqn:Ep; [|intros Hx; inversion Hx; subst; split; [reflexivity|exact Hw]].
      all: assert (Kd : key_ok (dirname (pjoin rel (e_path e)))) by (apply dirname_key_ok; apply (pjoin_rel rel (e_path e) Hrel); apply sane_path; [exact Hse|rewrite Et; discriminate]).
      all: pose proof (basename_noslash (e_path e)) as Hb.
      all: destruct (assoc (basename (e_path e)) _) as [old|].
      all: try (intros Hx; inversion Hx; subst; split; [reflexivity|apply dict_wf_step; assumption]).
      all: destruct (merge_entry old e) as [e'|x]; intros Hx; inversion Hx; subst; (split; [reflexivity|]); [apply dict_wf_step; assumption|exact I]. }
    destruct Step as [-> Step].
    destruct acc2 as [out2|x]; [eapply IH; [exact Hrel|exact Hes'|exact H|exact Step]|rewrite Hc in H; discriminate].
  Qed.

  Theorem entry_dict_wf_rel l path v l' ed : lrel l ->
    get_file_entry_dict L decompress pgp_verify w l path None v = Ok (l', ed) -> lrel l' /\ dict_wf ed.
  Proof.
    intros Hl. unfold get_file_entry_dict.
    destruct (load_manifests_for_path L decompress pgp_verify rounds_fuel w l path true v) as [l1|] eqn:El; cbn [bind]; [|discriminate].
    pose proof (load_manifests_rel _ _ _ _ _ _ Hl El) as Hl1.
    match goal with |- context [bind (fold_left ?F ?items ?init) _] => set (FF := F) end.
    destruct (fold_left FF (iter_manifests l1 path true) (Ok [])) as [out|] eqn:Ef; cbn [bind]; [|discriminate].
    intros H. inversion H; subst l1 out. clear H. split; [exact Hl1|].
    assert (Hitems : forall mp rel m, In (mp, rel, m) (iter_manifests l' path true) -> rel_start rel /\ Forall entry_sane (entries_of m)).
    { intros mp rel m Hin. unfold iter_manifests in Hin.
      apply (Permutation.Permutation_in _ (py_sorted_perm _ _)) in Hin. apply in_rev in Hin. apply in_flat_map in Hin.
      destruct Hin as [[k m'] [Hk Hin]]. cbn [fst snd] in Hin. destruct (Hl1 k m' Hk) as [R1 R2].
      destruct (path_starts_with path (dirname k)); [|destruct (_ && _)]; try (destruct Hin as [Hin|[]]; inversion Hin; subst; split; [apply dirname_rel; apply R1|exact R2]).
      destruct Hin. }
    assert (ErrStays : forall its x, fold_left FF its (Err x) = Err x).
    { induction its as [|[[mp rel0] m] its IH]; intros x; [reflexivity|]. cbn [fold_left].
      assert (E1 : FF (Err x) (mp, rel0, m) = snd (fold_left (dict_step path) (entries_of m) (rel0, Err x))) by reflexivity.
      rewrite E1. assert (Hc : forall es' rel', snd (fold_left (dict_step path) es' (rel', @Err edict x)) = Err x).
      { induction es' as [|e1 es' IH']; intros rel'; [reflexivity|]. cbn [fold_left]. unfold dict_step at 2. cbv beta iota. apply IH'. }
      rewrite Hc. apply IH. }
    assert (GG : forall its out0 out', (forall mp rel m, In (mp, rel, m) its -> rel_start rel /\ Forall entry_sane (entries_of m)) ->
      fold_left FF its (Ok out0) = Ok out' -> dict_wf out0 -> dict_wf out').
    { induction its as [|[[mp rel0] m] its IH]; intros out0 out' Hits Hf Hw; [cbn in Hf; inversion Hf; subst; exact Hw|].
      cbn [fold_left] in Hf.
      assert (E1 : FF (Ok out0) (mp, rel0, m) = snd (fold_left (dict_step path) (entries_of m) (rel0, Ok out0))) by reflexivity.
      rewrite E1 in Hf. destruct (snd (fold_left (dict_step path) (entries_of m) (rel0, Ok out0))) as [out1|x] eqn:Ei.
      - destruct (Hits mp rel0 m (or_introl eq_refl)) as [R1 R2].
        eapply IH; [intros mp' rel' m' H'; apply (Hits mp' rel' m'); right; exact H'|exact Hf|]. eapply dict_step_wf_rel; eassumption.
      - rewrite ErrStays in Hf. discriminate. }
    eapply GG; [exact Hitems|exact Ef|]. split; [constructor|intros k dd []].
  Qed.
End Rel.

(* no path is handed to the handler twice: any requested path, the whole tree included *)
Theorem each_path_reported_at_most_once_any (L : hashlib) decompress pgp_verify w l path pol lm l' b log :
  wf_world w -> nodup_world w -> key_ok path -> lrel l ->
  assert_directory_verifies L decompress pgp_verify w l path pol lm = Ok (l', b, log) ->
  NoDup (map fst log).
Proof.
  intros Hw Hn Hp Hl H. eapply no_path_reported_twice; [exact Hw|exact Hn|exact Hp| |exact H].
  intros l1 ed Hg. exact (proj2 (entry_dict_wf_rel L decompress pgp_verify w l path true l1 ed Hl Hg)).
Qed.
