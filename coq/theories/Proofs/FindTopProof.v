(* C15: find_top_level returns the outermost reachable Manifest, for ancestor chains of any
   length. *)
From Coq Require Import List NArith ZArith Bool Lia ZifyBool ZifyN Arith.
From Gemato Require Import Py.PyStr Gen.Tables Gen.Util Model.Entry Model.Text Model.FindTop Spec.FindTop.
From Gemato Require Import Proofs.Basics.
Import ListNotations.
Open Scope N_scope.

Definition probe_of (m : option (list N * N * list entry)) (orig : N) (allow_xdev : bool) (rel : list N) : probe :=
  match m with
  | None => PNone
  | Some (n, fdev, es) =>
      if negb (fdev =? orig) && negb allow_xdev then PReturn else
      match find_path_entry es rel with Some (EIgn _) => PReturn | _ => PFound n end
  end.

Lemma try_names_first names lv orig xdev rel m :
  first_manifest names lv = Ok m -> try_names names lv orig xdev rel = Ok (probe_of m orig xdev rel).
Proof.
  unfold first_manifest. induction names as [|n r IH]; intros H.
  - inversion H; subst. reflexivity.
  - cbn [try_names]. destruct (lookup_file lv n) as [|e|fdev text].
    + apply IH. exact H.
    + discriminate.
    + destruct (load text false) as [[es o]|]; cbn [bind] in *; [|discriminate].
      inversion H; subst. unfold probe_of.
      destruct (negb (fdev =? orig) && negb xdev); [reflexivity|].
      destruct (find_path_entry es rel) as [[d|p|t p a s c]|]; reflexivity.
Qed.

Section Proof.
  Variable names : list (list N).
  Variable comps : list (list N).
  Variable xdev : bool.
  Variable vs : list lview.

  Definition last_ok (i : nat) (last : option (nat * list N)) : Prop :=
    match last with
    | Some (j, n) => (j < i)%nat /\ man_name vs j = Some n /\
                     forall j', (j < j')%nat -> (j' < i)%nat -> man_name vs j' = None
    | None => forall j', (j' < i)%nat -> man_name vs j' = None
    end.
  Definition prefix_ok (i : nat) : Prop :=
    forall k v, (k < i)%nat -> nth_error vs k = Some v -> stops vs comps xdev k v = false /\ v_root v = false.

  (* the walk stops at level i: everything found so far is the answer *)
  Lemma stop_answer i v last : prefix_ok i -> last_ok i last -> nth_error vs i = Some v ->
    stops vs comps xdev i v = true -> is_answer vs comps xdev last.
  Proof.
    intros Hp Hl Hv Hs. unfold is_answer.
    assert (NR : forall j', (i <= j')%nat -> ~ reachable vs comps xdev j').
    { intros j' Hj [R1 _]. specialize (R1 i v Hj Hv). congruence. }
    destruct last as [[j n]|].
    - destruct Hl as [Hj [Hm Hmax]]. split; [|split; [exact Hm|]].
      + split; [|split].
        * intros k w Hk Hw. apply (Hp k w); [lia|exact Hw].
        * intros k w Hk Hw. apply (Hp k w); [lia|exact Hw].
        * assert (Hx : nth_error vs i <> None) by congruence. apply nth_error_Some in Hx. lia.
      + intros j' Hj' R. destruct (Nat.lt_ge_cases j' i) as [Hlt|Hge]; [apply Hmax; assumption|exfalso; eapply NR; eassumption].
    - intros j' R. destruct (Nat.lt_ge_cases j' i) as [Hlt|Hge]; [apply Hl; exact Hlt|exfalso; eapply NR; eassumption].
  Qed.

  (* the walk ends at the root level i (not stopping): the answer is the best up to i *)
  Lemma root_answer i v best : prefix_ok i -> nth_error vs i = Some v ->
    stops vs comps xdev i v = false -> v_root v = true -> last_ok (S i) best ->
    is_answer vs comps xdev best.
  Proof.
    intros Hp Hv Hs Hr Hl. unfold is_answer.
    assert (NR : forall j', (i < j')%nat -> ~ reachable vs comps xdev j').
    { intros j' Hj [_ [R2 _]]. specialize (R2 i v Hj Hv). congruence. }
    assert (Hlen : (i < length vs)%nat) by (apply nth_error_Some; congruence).
    assert (Hp' : forall k w, (k <= i)%nat -> nth_error vs k = Some w -> stops vs comps xdev k w = false).
    { intros k w Hk Hw. destruct (Nat.eq_dec k i) as [->|Hne]; [rewrite Hv in Hw; inversion Hw; subst; exact Hs|].
      apply (Hp k w); [lia|exact Hw]. }
    destruct best as [[j n]|].
    - destruct Hl as [Hj [Hm Hmax]]. split; [|split; [exact Hm|]].
      + split; [|split].
        * intros k w Hk Hw. apply Hp'; [lia|exact Hw].
        * intros k w Hk Hw. apply (Hp k w); [lia|exact Hw].
        * lia.
      + intros j' Hj' R. destruct (Nat.lt_ge_cases j' (S i)) as [Hlt|Hge]; [apply Hmax; assumption|exfalso; eapply (NR j'); [lia|exact R]].
    - intros j' R. destruct (Nat.lt_ge_cases j' (S i)) as [Hlt|Hge]; [apply Hl; exact Hlt|exfalso; eapply (NR j'); [lia|exact R]].
  Qed.

  Lemma loop_answer : forall suf_ls suf_vs pre_vs i orig last r,
    vs = pre_vs ++ suf_vs -> length pre_vs = i ->
    Forall2 (fun lv v => view_of names lv = Some v) suf_ls suf_vs ->
    (i = 0%nat -> orig = None) -> ((0 < i)%nat -> orig = Some (dev0 vs)) ->
    prefix_ok i -> last_ok i last ->
    ftl_loop suf_ls i comps xdev names orig last = Ok r -> is_answer vs comps xdev r.
  Proof.
    induction suf_ls as [|lv up IH]; intros suf_vs pre_vs i orig last r Hvs Hlen HF Ho0 Ho1 Hp Hl H.
    - inversion HF. subst suf_vs. cbn in H. injection H as <-. rewrite app_nil_r in Hvs. subst pre_vs. subst i.
      unfold is_answer. destruct last as [[j n]|].
      + destruct Hl as [Hj [Hm Hmax]]. split; [|split; [exact Hm|]].
        * split; [|split]; [intros k w Hk Hw; apply (Hp k w); [lia|exact Hw]..|exact Hj].
        * intros j' Hj' [_ [_ R3]]. apply Hmax; [exact Hj'|exact R3].
      + intros j' [_ [_ R3]]. apply Hl. exact R3.
    - inversion HF as [|? v ? suf_vs' Hview HF']; subst suf_vs. clear HF.
      assert (Hv : nth_error vs (length pre_vs) = Some v).
      { rewrite Hvs, nth_error_app2 by lia. rewrite Nat.sub_diag. reflexivity. }
      subst i. set (i := length pre_vs) in *.
      unfold view_of in Hview. destruct (lv_stat lv) as [[dev root]|] eqn:Est; [|discriminate].
      destruct (first_manifest names lv) as [m|] eqn:Efm; [|discriminate].
      inversion Hview; subst v. clear Hview.
      cbn [ftl_loop] in H. rewrite Est in H. cbn [bind] in H.
      (* dev0 and orig' *)
      assert (Hd0 : i = 0%nat -> dev0 vs = dev).
      { intros Hi. unfold i in Hi. destruct pre_vs; [|discriminate]. rewrite Hvs. reflexivity. }
      assert (Horig' : match orig with Some d => d | None => dev end = dev0 vs).
      { destruct (Nat.eq_dec i 0) as [Hi|Hi]; [rewrite (Ho0 Hi), (Hd0 Hi); reflexivity|rewrite Ho1 by lia; reflexivity]. }
      set (v := mk_lview dev root m) in *.
      destruct (match orig with Some d => negb (d =? dev) && negb xdev | None => false end) eqn:Ecross.
      + (* crossing a device boundary *)
        inversion H; subst r. eapply (stop_answer i v); try eassumption.
        unfold stops, other_device. cbn [v_dev v]. destruct orig as [d|]; [|discriminate].
        cbn in Horig'. subst d. apply andb_true_iff in Ecross. destruct Ecross as [E1 E2]. rewrite E2.
        assert (negb (dev =? dev0 vs) = true) as -> by lia. reflexivity.
      + assert (Hnc : negb xdev = true -> dev = dev0 vs).
        { intros Hx. destruct orig as [d|]; cbn in Horig'.
          - subst d. rewrite Hx in Ecross. lia.
          - exact Horig'. }
        rewrite Horig' in H. rewrite (try_names_first _ _ _ _ _ _ Efm) in H. cbn [bind] in H.
        assert (Hstops : stops vs comps xdev i v =
                         match probe_of m (dev0 vs) xdev (relpath_up comps i) with PReturn => true | _ => false end).
        { unfold stops, other_device, ignores, probe_of. cbn [v_dev v_man v].
          destruct xdev eqn:Ex; cbn [negb andb].
          - destruct m as [[[n fdev] es]|]; [|reflexivity]. rewrite andb_false_r.
            destruct (find_path_entry es (relpath_up comps i)) as [[d|p|t p a s c]|]; reflexivity.
          - assert (dev = dev0 vs) as -> by (apply Hnc; reflexivity). rewrite N.eqb_refl. cbn [negb orb].
            destruct m as [[[n fdev] es]|]; [|reflexivity].
            destruct (negb (fdev =? dev0 vs)); [reflexivity|]. cbn [andb orb].
            destruct (find_path_entry es (relpath_up comps i)) as [[d|p|t p a s c]|]; reflexivity. }
        assert (Hman : man_name vs i = match m with Some (n, _, _) => Some n | None => None end).
        { unfold man_name. rewrite Hv. reflexivity. }
        assert (Hp' : forall rt, root = rt -> rt = false ->
                      stops vs comps xdev i v = false -> prefix_ok (S i)).
        { intros rt E1 E2 Hs k w Hk Hw. destruct (Nat.eq_dec k i) as [->|Hne].
          - rewrite Hv in Hw. inversion Hw; subst w. split; [exact Hs|cbn; congruence].
          - apply (Hp k w); [lia|exact Hw]. }
        destruct (probe_of m (dev0 vs) xdev (relpath_up comps i)) as [|n|] eqn:Epr.
        * inversion H; subst r. eapply (stop_answer i v); eassumption.
        * (* a Manifest was found at this level *)
          assert (Hmn : man_name vs i = Some n).
          { rewrite Hman. unfold probe_of in Epr. destruct m as [[[n' fdev] es]|]; [|discriminate].
            destruct (negb (fdev =? dev0 vs) && negb xdev); [discriminate|].
            destruct (find_path_entry es (relpath_up comps i)) as [[d|p|t p a s c]|]; inversion Epr; reflexivity. }
          assert (Hl' : last_ok (S i) (Some (i, n))).
          { cbn. split; [lia|]. split; [exact Hmn|]. intros j' Hj1 Hj2. lia. }
          destruct root eqn:Er.
          -- inversion H; subst r. eapply (root_answer i v); try eassumption. reflexivity.
          -- eapply (IH suf_vs' (pre_vs ++ [v]) (S i)); try eassumption.
             ++ rewrite <- app_assoc. exact Hvs.
             ++ rewrite app_length. cbn. unfold i. lia.
             ++ intros; lia.
             ++ intros _. reflexivity.
             ++ eapply Hp'; [reflexivity|reflexivity|exact Hstops].
        * (* no Manifest at this level *)
          assert (Hmn : man_name vs i = None).
          { rewrite Hman. unfold probe_of in Epr. destruct m as [[[n' fdev] es]|]; [|reflexivity].
            destruct (negb (fdev =? dev0 vs) && negb xdev); [discriminate|].
            destruct (find_path_entry es (relpath_up comps i)) as [[d|p|t p a s c]|]; discriminate. }
          assert (Hl' : last_ok (S i) last).
          { destruct last as [[j n]|]; cbn in *.
            - destruct Hl as [Hj [Hm Hmax]]. split; [lia|]. split; [exact Hm|]. intros j' Hj1 Hj2.
              destruct (Nat.eq_dec j' i) as [->|Hne]; [exact Hmn|apply Hmax; lia].
            - intros j' Hj1. destruct (Nat.eq_dec j' i) as [->|Hne]; [exact Hmn|apply Hl; lia]. }
          destruct root eqn:Er.
          -- inversion H; subst r. eapply (root_answer i v); try eassumption. reflexivity.
          -- eapply (IH suf_vs' (pre_vs ++ [v]) (S i)); try eassumption.
             ++ rewrite <- app_assoc. exact Hvs.
             ++ rewrite app_length. cbn. unfold i. lia.
             ++ intros; lia.
             ++ intros _. reflexivity.
             ++ eapply Hp'; [reflexivity|reflexivity|exact Hstops].
  Qed.
End Proof.

(* C15: for every chain of ancestor directories (any length) whose Manifests can be read, the
   result is the outermost reachable Manifest *)
Theorem find_top_level_spec levels comps xdev compr vs r :
  Forall2 (fun lv v => view_of (manifest_filenames compr) lv = Some v) levels vs ->
  find_top_level levels comps xdev compr = Ok r -> is_answer vs comps xdev r.
Proof.
  intros HF H. unfold find_top_level in H.
  eapply (loop_answer (manifest_filenames compr) comps xdev vs levels vs [] 0%nat None None r); try eassumption; try reflexivity.
  - intros; lia.
  - intros k v Hk. lia.
  - cbn. intros j' Hj. lia.
Qed.

(* compressed Manifests are not even looked at unless explicitly allowed *)
Theorem uncompressed_names_only : manifest_filenames false = [s_Manifest].
Proof. vm_compute. reflexivity. Qed.
