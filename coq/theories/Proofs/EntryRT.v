(* from_list (to_list e) = e for well-formed entries (checksums come back in sorted order,
   which is equal as a Python dict), and every written field is a non-empty whitespace-free
   word. *)
From Coq Require Import List NArith ZArith Bool Lia ZifyBool ZifyN Arith Permutation.
From Gemato Require Import Py.PyStr Py.PyTime Gen.PyFacts Gen.Tables Gen.Util Model.Entry.
From Gemato Require Import Proofs.Basics Proofs.Codec Proofs.IntStr Proofs.Lines.
Import ListNotations.
Open Scope N_scope.

Definition wf_word (w : ustr) : Prop := w <> [] /\ spacefree w.
Definition wf_cks (c : sums) : Prop :=
  NoDup (map fst c) /\ Forall (fun kv => wf_word (fst kv) /\ wf_word (snd kv)) c.
Definition wf_path (p : ustr) : Prop := p <> [] /\ hd 0 p <> slash /\ Forall valid_cp p.
Definition file_tag (t : tag) : Prop := t <> TTIMESTAMP /\ t <> TIGNORE.

Definition wf_entry (e : entry) : Prop :=
  match e with
  | ETs d => dt_valid d = true
  | EIgn p => wf_path p
  | EFile t p aux size cks =>
      file_tag t /\ (0 <= size)%Z /\ (length (str_of_Z size) <= 4300)%nat /\ wf_cks cks /\
      match t with
      | TAUX => wf_path aux /\ p = path_join s_files aux
      | TDIST => wf_path p /\ ~ In slash p /\ aux = []
      | _ => wf_path p /\ aux = []
      end
  end.

(* what comes back: the same entry with the checksum dict in the writer's (sorted) order;
   as a Python dict that is an equal value *)
Definition norm (e : entry) : entry :=
  match e with EFile t p a s c => EFile t p a s (sorted_cks c) | _ => e end.

(* ---- tags -------------------------------------------------------------------- *)
Lemma lookup_tag_str t : lookup_tag (tag_str t) = Some t.
Proof. destruct t; vm_compute; reflexivity. Qed.
Lemma tag_str_word t : wf_word (tag_str t).
Proof.
  split; [destruct t; vm_compute; discriminate|].
  intros c Hc. assert (E : forallb (fun t => forallb (fun c => negb (is_space c)) (tag_str t)) all_tags = true)
    by (vm_compute; reflexivity).
  rewrite forallb_forall in E. assert (Ht : In t all_tags) by (destruct t; simpl; tauto).
  specialize (E t Ht). rewrite forallb_forall in E. specialize (E c Hc).
  destruct (is_space c); [discriminate|reflexivity].
Qed.
Lemma tag_str_no_dash t : py_startswith (tag_str t) [45] = false.
Proof. destruct t; vm_compute; reflexivity. Qed.

(* ---- checksums ------------------------------------------------------------------ *)
Definition flat_cks (c : sums) : list ustr := flat_map (fun kv => [fst kv; snd kv]) c.

Lemma parse_cks_flat c : forall acc, NoDup (map fst (acc ++ c)) ->
  parse_cks (flat_cks c) acc = Ok (acc ++ c).
Proof.
  induction c as [|[k v] c IH]; intros acc H.
  - cbn. rewrite app_nil_r. reflexivity.
  - cbn [flat_cks flat_map app fst snd parse_cks].
    assert (Hk : ~ In k (map fst acc)).
    { rewrite map_app in H. cbn in H. apply NoDup_remove_2 in H. intros Hin. apply H.
      apply in_or_app. left. exact Hin. }
    rewrite dict_set_fresh by exact Hk.
    change (flat_map (fun kv : ustr * ustr => [fst kv; snd kv]) c) with (flat_cks c).
    rewrite IH; [rewrite <- app_assoc; reflexivity|]. rewrite <- app_assoc. exact H.
Qed.

Lemma sorted_cks_perm c : Permutation (sorted_cks c) c.
Proof. apply py_sorted_perm. Qed.
Lemma sorted_cks_wf c : wf_cks c -> wf_cks (sorted_cks c).
Proof.
  intros [H1 H2]. split.
  - eapply Permutation_NoDup; [|exact H1]. apply Permutation_map. symmetry. apply sorted_cks_perm.
  - eapply Permutation_Forall; [|exact H2]. symmetry. apply sorted_cks_perm.
Qed.
Lemma flat_cks_words c : wf_cks c -> Forall wf_word (flat_cks c).
Proof.
  intros [_ H]. unfold flat_cks. induction H as [|[k v] c [Hk Hv] Hc IH]; [constructor|].
  cbn. constructor; [exact Hk|constructor; [exact Hv|exact IH]].
Qed.

(* ---- sizes ---------------------------------------------------------------------- *)
Lemma size_word z : (0 <= z)%Z -> wf_word (str_of_Z z).
Proof.
  intros Hz. split; [apply str_of_Z_nonempty; exact Hz|].
  intros c Hc. apply isdig_not_space. eapply str_of_Z_chars; eassumption.
Qed.

Lemma process_checksums_rt t p z c : (0 <= z)%Z -> (length (str_of_Z z) <= 4300)%nat -> wf_cks c ->
  process_checksums (t :: p :: str_of_Z z :: flat_cks (sorted_cks c)) = Ok (z, sorted_cks c).
Proof.
  intros Hz Hl Hc. unfold process_checksums. rewrite py_int_str_of_Z by assumption.
  assert ((z <? 0)%Z = false) as -> by lia.
  rewrite parse_cks_flat; [reflexivity|]. apply (sorted_cks_wf c Hc).
Qed.

(* ---- paths ---------------------------------------------------------------------- *)
Lemma encode_path_word p : p <> [] -> wf_word (encode_path p).
Proof.
  intros H. split; [apply encode_path_nonempty; exact H|]. intros c Hc. eapply encode_path_no_space; exact Hc.
Qed.

Lemma process_path_rt t p : wf_path p -> process_path [t; encode_path p] = Ok p.
Proof.
  intros [Hne [Hhd Hv]]. unfold process_path.
  destruct (encode_path p) as [|c r] eqn:E; [exfalso; eapply encode_path_nonempty; eassumption|].
  assert (Hc : c <> slash).
  { intros ->. apply Hhd. apply encode_path_hd. rewrite E. reflexivity. }
  assert (c =? slash = false) as -> by (unfold slash in *; lia).
  rewrite <- E, decode_encode by exact Hv. cbn [bind].
  destruct p as [|c' p']; [congruence|]. cbn [hd] in Hhd.
  assert (c' =? slash = false) as -> by (unfold slash in *; lia). reflexivity.
Qed.

(* ---- AUX: the files/ prefix -------------------------------------------------------- *)
Definition s_files_slash : ustr := [102;105;108;101;115;47].
Lemma path_join_files aux : wf_path aux -> path_join s_files aux = s_files_slash ++ aux.
Proof.
  intros [Hne [Hhd _]]. destruct aux as [|c r]; [congruence|]. cbn [hd] in Hhd.
  unfold path_join. assert (c =? slash = false) as -> by (unfold slash in *; lia). reflexivity.
Qed.
Lemma encode_files_prefix aux : encode_path (s_files_slash ++ aux) = s_files_slash ++ encode_path aux.
Proof. unfold encode_path. rewrite flat_map_app. reflexivity. Qed.

Lemma lstrip_set_keep chars c : existsb (N.eqb c) chars = false -> forall x y,
  exists x', lstrip_set (x ++ c :: y) chars = x' ++ c :: y.
Proof.
  intros Hc x. induction x as [|a x IH]; intros y.
  - exists []. cbn. rewrite Hc. reflexivity.
  - cbn [app lstrip_set]. destruct (existsb (N.eqb a) chars).
    + apply IH.
    + exists (a :: x). reflexivity.
Qed.
Lemma py_rstrip_keep chars c a b : existsb (N.eqb c) chars = false ->
  exists b', py_rstrip (a ++ c :: b) chars = a ++ c :: b'.
Proof.
  intros Hc. unfold py_rstrip. rewrite rev_app_distr. cbn [rev]. rewrite <- app_assoc. cbn [app].
  destruct (lstrip_set_keep chars c Hc (rev b) (rev a)) as [x' ->].
  exists (rev x'). rewrite rev_app_distr. cbn [rev]. rewrite rev_involutive, <- app_assoc. reflexivity.
Qed.

Lemma aux_inside_files e : e <> [] -> hd 0 e <> slash ->
  path_inside_dir (s_files_slash ++ e) s_files = true.
Proof.
  intros Hne Hhd. destruct e as [|c r]; [congruence|]. cbn [hd] in Hhd.
  unfold path_inside_dir. apply orb_true_iff. right.
  assert (Hc : existsb (N.eqb c) [47] = false).
  { cbn. unfold slash in Hhd. assert (c =? 47 = false) as -> by lia. reflexivity. }
  destruct (py_rstrip_keep [47] c s_files_slash r Hc) as [b' ->].
  apply startswith_iff. eexists. vm_compute py_rstrip. reflexivity.
Qed.

(* ---- the entry round trip ------------------------------------------------------------ *)
Section WithTime.
  (* discharged in Proofs/TimeRT.v *)
  Hypothesis strptime_strftime : forall d, dt_valid d = true -> strptime nd_starts (strftime d) = Some d.

  Lemma strftime_word d : wf_word (strftime d) -> True. Proof. trivial. Qed.

  Theorem entry_roundtrip e : wf_entry e ->
    (match e with ETs d => wf_word (strftime d) | _ => True end) ->
    exists l, to_list e = Ok l /\ from_list (e_tag e) l = Ok (norm e) /\
              Forall wf_word l /\ exists r, l = tag_str (e_tag e) :: r.
  Proof.
    destruct e as [d|p|t p aux size cks]; intros Hwf Hts.
    - (* TIMESTAMP *)
      exists [tag_str TTIMESTAMP; strftime d]. split; [reflexivity|]. split.
      + cbn [e_tag from_list]. rewrite strptime_strftime by exact Hwf. reflexivity.
      + split; [constructor; [apply tag_str_word|constructor; [exact Hts|constructor]]|eexists; reflexivity].
    - (* IGNORE *)
      exists [tag_str TIGNORE; encode_path p]. split; [reflexivity|]. split.
      + cbn [e_tag from_list]. rewrite process_path_rt by exact Hwf. reflexivity.
      + split; [|eexists; reflexivity]. constructor; [apply tag_str_word|].
        constructor; [apply encode_path_word; apply Hwf|constructor].
    - cbn [wf_entry] in Hwf. destruct Hwf as [[Ht1 Ht2] [Hz [Hl [Hc Hp]]]].
      assert (Hwords : forall ep, wf_word ep ->
                Forall wf_word (tag_str t :: ep :: str_of_Z size :: flat_cks (sorted_cks cks))).
      { intros ep Hep. constructor; [apply tag_str_word|]. constructor; [exact Hep|].
        constructor; [apply size_word; exact Hz|]. apply flat_cks_words. apply sorted_cks_wf. exact Hc. }
      destruct t; try congruence.
      + (* MANIFEST *) destruct Hp as [Hp ->].
        eexists. split; [reflexivity|]. cbn [e_tag from_list firstn]. split.
        * rewrite process_path_rt by exact Hp. cbn [bind].
          change (flat_map (fun kv : ustr * ustr => [fst kv; snd kv]) (sorted_cks cks)) with (flat_cks (sorted_cks cks)).
          rewrite process_checksums_rt by assumption. reflexivity.
        * split; [apply Hwords; apply encode_path_word; apply Hp|eexists; reflexivity].
      + (* DATA *) destruct Hp as [Hp ->].
        eexists. split; [reflexivity|]. cbn [e_tag from_list firstn]. split.
        * rewrite process_path_rt by exact Hp. cbn [bind].
          change (flat_map (fun kv : ustr * ustr => [fst kv; snd kv]) (sorted_cks cks)) with (flat_cks (sorted_cks cks)).
          rewrite process_checksums_rt by assumption. reflexivity.
        * split; [apply Hwords; apply encode_path_word; apply Hp|eexists; reflexivity].
      + (* DIST *) destruct Hp as [Hp [Hns ->]].
        eexists. split; [reflexivity|]. cbn [e_tag from_list firstn]. split.
        * rewrite process_path_rt by exact Hp. cbn [bind].
          assert (contains_cp slash p = false) as ->.
          { unfold contains_cp. destruct (existsb (N.eqb slash) p) eqn:E; [|reflexivity].
            apply existsb_exists in E. destruct E as [x [Hx Hx']]. apply N.eqb_eq in Hx'. subst. contradiction. }
          change (flat_map (fun kv : ustr * ustr => [fst kv; snd kv]) (sorted_cks cks)) with (flat_cks (sorted_cks cks)).
          rewrite process_checksums_rt by assumption. reflexivity.
        * split; [apply Hwords; apply encode_path_word; apply Hp|eexists; reflexivity].
      + (* EBUILD *) destruct Hp as [Hp ->].
        eexists. split; [reflexivity|]. cbn [e_tag from_list firstn]. split.
        * rewrite process_path_rt by exact Hp. cbn [bind].
          change (flat_map (fun kv : ustr * ustr => [fst kv; snd kv]) (sorted_cks cks)) with (flat_cks (sorted_cks cks)).
          rewrite process_checksums_rt by assumption. reflexivity.
        * split; [apply Hwords; apply encode_path_word; apply Hp|eexists; reflexivity].
      + (* MISC *) destruct Hp as [Hp ->].
        eexists. split; [reflexivity|]. cbn [e_tag from_list firstn]. split.
        * rewrite process_path_rt by exact Hp. cbn [bind].
          change (flat_map (fun kv : ustr * ustr => [fst kv; snd kv]) (sorted_cks cks)) with (flat_cks (sorted_cks cks)).
          rewrite process_checksums_rt by assumption. reflexivity.
        * split; [apply Hwords; apply encode_path_word; apply Hp|eexists; reflexivity].
      + (* AUX *) destruct Hp as [Hp ->].
        assert (Hne : encode_path aux <> []) by (apply encode_path_nonempty; apply Hp).
        assert (Hhd : hd 0 (encode_path aux) <> slash).
        { intros H. apply encode_path_hd in H. destruct Hp as [_ [Hp _]]. contradiction. }
        exists (tag_str TAUX :: encode_path aux :: str_of_Z size :: flat_cks (sorted_cks cks)).
        split.
        * cbn [to_list]. rewrite path_join_files by exact Hp. rewrite encode_files_prefix.
          rewrite aux_inside_files by assumption. reflexivity.
        * cbn [e_tag from_list firstn]. split.
          -- rewrite process_path_rt by exact Hp. cbn [bind].
             rewrite process_checksums_rt by assumption. reflexivity.
          -- split; [apply Hwords; apply encode_path_word; apply Hp|eexists; reflexivity].
  Qed.
End WithTime.
