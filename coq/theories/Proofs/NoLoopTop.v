(* C16: the start path of every walk has no trailing slash (walk_top), so the whole-walk statement of NoLoop.v holds for every
   requested relative path, the top directory included. *)
From Coq Require Import List NArith ZArith Bool Lia Arith.
From Gemato Require Import Py.PyStr Py.PyPath Gen.Tables Model.Entry Model.Text Model.OpenPGP Model.Hash Model.FS
  Model.Verify Model.Loader.
From Gemato Require Import Proofs.Basics Proofs.WalkTerm Proofs.WalkComplete Proofs.NoLoop Proofs.Once Proofs.DictWf.
Import ListNotations.
Open Scope N_scope.

Lemma walk_top_no_trailing path : rel_start path -> no_trailing_slash (walk_top path).
Proof.
  intros Hp. unfold walk_top.
  assert (Ht : exists t, pjoin rootdir path = 82 :: t).
  { unfold pjoin, rootdir. destruct path as [|c p']; [eexists; vm_compute; reflexivity|]. cbn in Hp.
    assert (E : (c =? sl) = false) by (apply N.eqb_neq; exact Hp). rewrite E. eexists. vm_compute. reflexivity. }
  destruct Ht as [t Ht]. rewrite Ht. unfold py_rstrip.
  destruct (lstrip_spec (rev (82 :: t))) as [pre [S1 [S2 S3]]].
  destruct S3 as [S3|[y [t' [S3 Hy]]]].
  - exfalso. rewrite S3, app_nil_r in S1. assert (In 82 pre) by (rewrite <- S1; apply in_rev; rewrite rev_involutive; left; reflexivity).
    rewrite Forall_forall in S2. specialize (S2 _ H). discriminate.
  - rewrite S3. cbn [rev]. destruct (rev t' ++ [y]) eqn:E; [destruct (rev t'); discriminate|]. rewrite <- E.
    split; [destruct (rev t'); discriminate|]. rewrite endswith_snoc. apply N.eqb_neq. exact Hy.
Qed.

Theorem verification_walks_into_no_loop_any (L : hashlib) decompress pgp_verify w l path pol lm l' b log :
  wf_world w -> rel_start path ->
  assert_directory_verifies L decompress pgp_verify w l path pol lm = Ok (l', b, log) ->
  exists ed, get_file_entry_dict L decompress pgp_verify w l path None true = Ok (l', ed) /\
    forall dp rel anc, reachc w ed (walk_top path) path [] dp rel anc ->
      forall st, p_stat w dp = Ok st -> ~ In (st_dev st, st_ino st) anc.
Proof. intros Hw Hp. apply verification_walks_into_no_loop; [exact Hw|apply walk_top_no_trailing; exact Hp]. Qed.
