(* Basic facts about the Py prelude. *)
From Coq Require Import List NArith ZArith Bool Lia ZifyBool ZifyN Arith Permutation.
From Gemato Require Import Py.PyStr.
Import ListNotations.
Open Scope N_scope.

Lemma ustr_eqb_eq a : forall b, ustr_eqb a b = true <-> a = b.
Proof.
  induction a as [|x a IH]; destruct b as [|y b]; simpl; split; intros H;
    try reflexivity; try discriminate.
  - apply andb_true_iff in H. destruct H as [H1 H2]. apply N.eqb_eq in H1. apply IH in H2. congruence.
  - inversion H; subst. rewrite N.eqb_refl. simpl. apply IH. reflexivity.
Qed.
Lemma ustr_eqb_refl a : ustr_eqb a a = true.
Proof. apply ustr_eqb_eq. reflexivity. Qed.
Lemma ustr_eqb_neq a b : ustr_eqb a b = false <-> a <> b.
Proof.
  split; intros H.
  - intros E. apply ustr_eqb_eq in E. congruence.
  - destruct (ustr_eqb a b) eqn:E; [apply ustr_eqb_eq in E; congruence|reflexivity].
Qed.

Lemma startswith_iff s : forall p, py_startswith s p = true <-> exists r, s = p ++ r.
Proof.
  intros p. revert s. induction p as [|y p IH]; intros s; simpl.
  - split; [intros _; exists s; reflexivity|reflexivity].
  - destruct s as [|x s]; [split; [discriminate|intros [r H]; discriminate]|].
    rewrite andb_true_iff, N.eqb_eq, IH. split.
    + intros [-> [r ->]]. exists r. reflexivity.
    + intros [r H]. inversion H; subst. split; [reflexivity|exists r; reflexivity].
Qed.
Lemma startswith_app p r : py_startswith (p ++ r) p = true.
Proof. apply startswith_iff. exists r. reflexivity. Qed.

Lemma assoc_in {A} k (l : list (ustr * A)) v : assoc k l = Some v -> In (k, v) l.
Proof.
  induction l as [|[k' v'] l IH]; simpl; [discriminate|].
  destruct (ustr_eqb k k') eqn:E.
  - intros H. inversion H; subst. apply ustr_eqb_eq in E. subst. left; reflexivity.
  - intros H. right. apply IH. exact H.
Qed.
Lemma assoc_none {A} k (l : list (ustr * A)) : assoc k l = None <-> ~ In k (map fst l).
Proof.
  induction l as [|[k' v'] l IH]; simpl; [split; [intros _ []|reflexivity]|].
  destruct (ustr_eqb k k') eqn:E.
  - apply ustr_eqb_eq in E. subst. split; [discriminate|intros H; exfalso; apply H; left; reflexivity].
  - apply ustr_eqb_neq in E. rewrite IH. split; [intros H [H1|H1]; [congruence|exact (H H1)]|intros H H1; apply H; right; exact H1].
Qed.

Lemma dict_set_fresh {A} k (v : A) l : ~ In k (map fst l) -> dict_set k v l = l ++ [(k, v)].
Proof.
  induction l as [|[k' v'] l IH]; simpl; intros H; [reflexivity|].
  destruct (ustr_eqb k k') eqn:E.
  - apply ustr_eqb_eq in E. subst. exfalso. apply H. left; reflexivity.
  - rewrite IH; [reflexivity|]. intros H1. apply H. right; exact H1.
Qed.
Lemma dict_set_keys {A} k (v : A) l : In k (map fst l) -> map fst (dict_set k v l) = map fst l.
Proof.
  induction l as [|[k' v'] l IH]; simpl; intros H; [destruct H|].
  destruct (ustr_eqb k k') eqn:E.
  - apply ustr_eqb_eq in E. subst. reflexivity.
  - simpl. f_equal. apply IH. destruct H as [H|H]; [apply ustr_eqb_neq in E; congruence|exact H].
Qed.

Lemma dict_set_get {A} k (v : A) l : assoc k (dict_set k v l) = Some v.
Proof.
  induction l as [|[k' v'] l IH]; cbn; [rewrite ustr_eqb_refl; reflexivity|].
  destruct (ustr_eqb k k') eqn:E; cbn; [rewrite ustr_eqb_refl; reflexivity|rewrite E; exact IH].
Qed.
Lemma dict_set_other {A} k k' (v : A) l : ustr_eqb k' k = false -> assoc k' (dict_set k v l) = assoc k' l.
Proof.
  intros Hn. induction l as [|[k2 v2] l IH]; cbn.
  - rewrite Hn. reflexivity.
  - destruct (ustr_eqb k k2) eqn:E; cbn.
    + apply ustr_eqb_eq in E. subst. rewrite Hn. reflexivity.
    + destruct (ustr_eqb k' k2); [reflexivity|exact IH].
Qed.


Section SortPerm.
  Context {A : Type} (ltb : A -> A -> bool).
  Lemma insert_sorted_perm x l : Permutation (insert_sorted ltb x l) (x :: l).
  Proof.
    induction l as [|y l IH]; simpl; [reflexivity|].
    destruct (ltb y x); [|reflexivity].
    rewrite IH. apply perm_swap.
  Qed.
  Lemma py_sorted_perm l : Permutation (py_sorted ltb l) l.
  Proof.
    unfold py_sorted. induction l as [|x l IH]; simpl; [reflexivity|].
    rewrite insert_sorted_perm. constructor. exact IH.
  Qed.
End SortPerm.
