(* int(str(n)) = n for the model of Python's int()/str() on non-negative integers. *)
From Coq Require Import List NArith ZArith Bool Lia ZifyBool ZifyN Arith.
From Gemato Require Import Py.PyStr Gen.PyFacts.
Import ListNotations.
Open Scope N_scope.
Ltac Zify.zify_post_hook ::= Z.to_euclidean_division_equations.

Definition isdig (c : cp) : Prop := 48 <= c <= 57.
Definition val (ds : ustr) (a : N) : N := fold_left (fun a c => a * 10 + (c - 48)) ds a.

Lemma val_app ds1 ds2 a : val (ds1 ++ ds2) a = val ds2 (val ds1 a).
Proof. unfold val. apply fold_left_app. Qed.

Lemma dec_digits_S f n acc : dec_digits (S f) n acc =
  if n <? 10 then (48 + n) :: acc else dec_digits f (n / 10) ((48 + n mod 10) :: acc).
Proof. reflexivity. Qed.

Lemma dec_digits_spec f : forall n acc, n < 2 ^ N.of_nat f ->
  exists ds, dec_digits (S f) n acc = ds ++ acc /\ ds <> [] /\ Forall isdig ds /\
             (forall a, val ds a = a * 10 ^ N.of_nat (length ds) + n) /\
             (length ds = 1%nat \/ 10 ^ N.of_nat (length ds - 1) <= n).
Proof.
  induction f as [|f IH]; intros n acc Hn.
  - assert (n = 0) by (simpl in Hn; lia). subst n. exists [48]. rewrite dec_digits_S. cbn [app length val fold_left N.ltb N.compare].
    split; [reflexivity|]. split; [discriminate|]. split; [constructor; [unfold isdig; lia|constructor]|].
    split; [intros a; lia|left; reflexivity].
  - rewrite dec_digits_S. destruct (n <? 10) eqn:E.
    + exists [48 + n]. cbn [app length val fold_left].
      split; [reflexivity|]. split; [discriminate|]. split; [constructor; [unfold isdig; lia|constructor]|].
      split; [intros a; lia|left; reflexivity].
    + assert (Hq : n / 10 < 2 ^ N.of_nat f).
      { replace (N.of_nat (S f)) with (N.succ (N.of_nat f)) in Hn by lia.
        rewrite N.pow_succ_r' in Hn. apply N.div_lt_upper_bound; lia. }
      destruct (IH (n / 10) ((48 + n mod 10) :: acc) Hq) as [ds [E1 [Hne [Hd [Hv Hmin]]]]].
      exists (ds ++ [48 + n mod 10]). rewrite E1, <- app_assoc. cbn [app].
      split; [reflexivity|]. split; [destruct ds; discriminate|]. split; [|split].
      * apply Forall_app. split; [exact Hd|]. constructor; [unfold isdig|constructor].
        pose proof (N.mod_lt n 10). lia.
      * intros a. rewrite val_app, Hv. cbn [val fold_left]. rewrite app_length. cbn [length].
        replace (N.of_nat (length ds + 1)) with (N.succ (N.of_nat (length ds))) by lia.
        rewrite N.pow_succ_r'. pose proof (N.div_mod n 10). lia.
      * right. rewrite app_length. cbn [length].
        replace (length ds + 1 - 1)%nat with (length ds) by lia.
        destruct Hmin as [H1|Hge].
        -- rewrite H1. simpl. lia.
        -- destruct (length ds) as [|k] eqn:EL; [destruct ds; [congruence|discriminate]|].
           replace (S k - 1)%nat with k in Hge by lia.
           replace (N.of_nat (S k)) with (N.succ (N.of_nat k)) by lia.
           rewrite N.pow_succ_r'. pose proof (N.div_mod n 10). lia.
Qed.

Lemma str_of_N_spec n : exists ds, str_of_N n = ds /\ ds <> [] /\ Forall isdig ds /\
  (forall a, val ds a = a * 10 ^ N.of_nat (length ds) + n) /\
  (length ds = 1%nat \/ 10 ^ N.of_nat (length ds - 1) <= n).
Proof.
  unfold str_of_N.
  destruct (dec_digits_spec (N.to_nat (N.size n)) n []) as [ds [E H]].
  - rewrite N2Nat.id. apply N.size_gt.
  - exists ds. rewrite E, app_nil_r. split; [reflexivity|exact H].
Qed.

Lemma digit_val_ascii c : isdig c -> digit_val nd_starts c = Some (c - 48).
Proof.
  unfold isdig. intros H. unfold digit_val, nd_starts. cbn [digit_val_in].
  assert ((48 <=? c) && (c <? 48 + 10) = true) as -> by lia. reflexivity.
Qed.

Lemma isdig_not_space c : isdig c -> is_space c = false.
Proof. unfold isdig, is_space. intros H. lia. Qed.

Lemma int_digits_val ds : Forall isdig ds -> forall a nd pd, (ds <> [] \/ pd = true) ->
  int_digits nd_starts ds a nd pd = Some (val ds a, nd + N.of_nat (length ds)).
Proof.
  induction ds as [|c ds IH]; intros Hd a nd pd Hne.
  - destruct Hne as [H|H]; [congruence|]. subst pd. cbn [int_digits val fold_left length]. f_equal. f_equal. lia.
  - inversion Hd as [|? ? Hc Hds]; subst. cbn [int_digits].
    assert (c =? 95 = false) as -> by (unfold isdig in Hc; lia).
    rewrite digit_val_ascii by exact Hc.
    rewrite IH by (try exact Hds; right; reflexivity).
    cbn [val fold_left length]. f_equal. f_equal. lia.
Qed.

Lemma lstrip_ws_nospace s : (forall c, In c s -> is_space c = false) -> lstrip_ws s = s.
Proof. destruct s as [|c s]; [reflexivity|]. intros H. cbn. rewrite (H c) by (left; reflexivity). reflexivity. Qed.
Lemma strip_ws_nospace s : (forall c, In c s -> is_space c = false) -> strip_ws s = s.
Proof.
  intros H. unfold strip_ws, rstrip_ws. rewrite (lstrip_ws_nospace s H).
  rewrite lstrip_ws_nospace; [apply rev_involutive|]. intros c Hc. apply H. apply in_rev. exact Hc.
Qed.

(* int(str(n)) == n, as long as str(n) stays within CPython's 4300-digit limit *)
Theorem py_int_str_of_Z z : (0 <= z)%Z -> (length (str_of_Z z) <= 4300)%nat ->
  py_int nd_starts (str_of_Z z) = Some z.
Proof.
  intros Hz Hlen.
  assert (Hs : str_of_Z z = str_of_N (Z.to_N z)).
  { destruct z as [|p|p]; [vm_compute; reflexivity|reflexivity|lia]. }
  rewrite Hs in *. destruct (str_of_N_spec (Z.to_N z)) as [ds [E [Hne [Hd [Hv _]]]]].
  rewrite E in *. unfold py_int.
  assert (Hns : forall c, In c ds -> is_space c = false).
  { intros c Hc. apply isdig_not_space. rewrite Forall_forall in Hd. apply Hd. exact Hc. }
  rewrite strip_ws_nospace by exact Hns.
  destruct ds as [|c ds']; [congruence|].
  assert (Hc : isdig c) by (inversion Hd; assumption).
  assert (c =? 45 = false) as -> by (unfold isdig in Hc; lia).
  assert (c =? 43 = false) as -> by (unfold isdig in Hc; lia).
  assert (c =? 95 = false) as -> by (unfold isdig in Hc; lia).
  rewrite int_digits_val by (try exact Hd; left; discriminate).
  rewrite Hv. assert (4300 <? 0 + N.of_nat (length (c :: ds')) = false) as -> by lia.
  f_equal. lia.
Qed.

(* the decimal text has no whitespace, control characters or backslash, and is not empty *)
Lemma str_of_Z_chars z c : (0 <= z)%Z -> In c (str_of_Z z) -> isdig c.
Proof.
  intros Hz. assert (Hs : str_of_Z z = str_of_N (Z.to_N z)).
  { destruct z as [|p|p]; [vm_compute; reflexivity|reflexivity|lia]. }
  rewrite Hs. destruct (str_of_N_spec (Z.to_N z)) as [ds [E [_ [Hd _]]]]. rewrite E.
  rewrite Forall_forall in Hd. apply Hd.
Qed.
Lemma str_of_Z_nonempty z : (0 <= z)%Z -> str_of_Z z <> [].
Proof.
  intros Hz. assert (Hs : str_of_Z z = str_of_N (Z.to_N z)).
  { destruct z as [|p|p]; [vm_compute; reflexivity|reflexivity|lia]. }
  rewrite Hs. destruct (str_of_N_spec (Z.to_N z)) as [ds [E [Hne _]]]. rewrite E. exact Hne.
Qed.
