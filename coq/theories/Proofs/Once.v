(* C07, "exactly once" across directories: within the walk of a directory verification no path is handed to the handler twice.
   Within one directory every name is an item at most once (dir_items_spec); here: the relative paths of different directory
   visits never coincide, because the path of an item of the directory rel is rel/name with a slash-free name, the items of the
   sub-tree below rel/d all lie below rel/d/, and sibling names differ.  Needs what a real tree provides: directory listings
   without repeated names, names that are non-empty and slash-free (wf_world), an entry dictionary with unique, slash-free names
   per directory (what get_file_entry_dict builds: basenames under dict_set), and a start path that is non-empty and does not end
   with a slash (the verification of a sub-directory). *)
From Coq Require Import List NArith ZArith Bool Lia Arith.
From Gemato Require Import Py.PyStr Py.PyPath Gen.Tables Model.Entry Model.Text Model.OpenPGP Model.Hash Model.FS
  Model.Verify Model.Loader.
From Gemato Require Import Proofs.Basics Proofs.DirSpec Proofs.OnlyOffending Proofs.WalkTerm Proofs.WalkComplete Proofs.NoLoop.
Import ListNotations.
Open Scope N_scope.

(* ---- strings ------------------------------------------------------------------------------------------------------ *)
Definition rel_ok (rel : list N) : Prop := rel <> [] /\ py_endswith rel [sl] = false.

Lemma pjoin_noslash rel n : rel_ok rel -> ~ In sl n -> pjoin rel n = rel ++ sl :: n.
Proof.
  intros [Hne He] Hn. unfold pjoin. destruct n as [|c r].
  - destruct rel; [congruence|]. rewrite He. reflexivity.
  - assert (c =? sl = false) as -> by (apply N.eqb_neq; intros ->; apply Hn; left; reflexivity).
    destruct rel; [congruence|]. rewrite He. reflexivity.
Qed.

Lemma rel_ok_child rel d : rel_ok rel -> valid_name d -> rel_ok (pjoin rel d).
Proof. intros [H1 H2] Hd. apply (pjoin_no_trailing rel d H1 Hd). Qed.

(* the part before the first slash is determined *)
Lemma first_component a : forall b s t, ~ In sl a -> ~ In sl b -> a ++ sl :: s = b ++ sl :: t -> a = b /\ s = t.
Proof.
  induction a as [|x a IH]; intros b s t Ha Hb H.
  - destruct b as [|y b]; [inversion H; split; reflexivity|]. cbn in H. inversion H; subst. exfalso. apply Hb. left. reflexivity.
  - destruct b as [|y b]; [cbn in H; inversion H; subst; exfalso; apply Ha; left; reflexivity|].
    cbn in H. inversion H; subst. destruct (IH b s t) as [-> ->]; [intros Hx; apply Ha; right; exact Hx|intros Hx; apply Hb; right; exact Hx|assumption|].
    split; reflexivity.
Qed.

Definition inside (rel p : list N) : Prop := exists s, p = rel ++ sl :: s.

Lemma inside_child rel d p : rel_ok rel -> valid_name d -> inside (pjoin rel d) p -> exists s, p = rel ++ sl :: d ++ sl :: s.
Proof.
  intros Hr Hd [s ->]. rewrite (pjoin_noslash rel d Hr (proj2 Hd)). exists s. rewrite <- app_assoc. reflexivity.
Qed.

(* ---- lists -------------------------------------------------------------------------------------------------------- *)
Lemma nodup_map_filter_split (l : list (list N * bool)) :
  NoDup (map fst l) -> NoDup (map fst (filter snd l) ++ map fst (filter (fun x => negb (snd x)) l)).
Proof.
  induction l as [|[n b] l IH]; intros H; [constructor|]. cbn [map fst] in H. inversion H as [|? ? Hn Hr]; subst.
  specialize (IH Hr). cbn [filter snd negb]. destruct b; cbn [negb map fst app].
  - constructor; [|exact IH]. intros Hin. apply in_app_or in Hin. apply Hn.
    destruct Hin as [Hin|Hin]; apply in_map_iff in Hin; destruct Hin as [[n' b'] [E Hin]]; cbn in E; subst n';
      apply filter_In in Hin; apply in_map_iff; exists (n, b'); split; [reflexivity|apply Hin|reflexivity|apply Hin].
  - apply NoDup_Add with (a := n) (l := map fst (filter snd l) ++ map fst (filter (fun x => negb (snd x)) l)).
    + apply Add_app.
    + split; [exact IH|]. intros Hin. apply in_app_or in Hin. apply Hn.
      destruct Hin as [Hin|Hin]; apply in_map_iff in Hin; destruct Hin as [[n' b'] [E Hin]]; cbn in E; subst n';
        apply filter_In in Hin; apply in_map_iff; exists (n, b'); split; [reflexivity|apply Hin|reflexivity|apply Hin].
Qed.

(* the kept sub-directories: without repetition, among the listed ones *)
Lemma prune_keep (dirnames : list (list N)) : forall kp0 dd0 kp dd,
  fold_left (fun (acc : list (list N) * list (list N * entry)) d =>
    let '(kp, dd) := acc in
    if py_startswith d [46] then (kp, dd)
    else match assoc d dd with
         | None => (kp ++ [d], dd)
         | Some (EIgn _) => (kp, dict_del d dd)
         | Some _ => (kp, dd)
         end) dirnames (kp0, dd0) = (kp, dd) ->
  NoDup dirnames -> NoDup kp0 -> (forall x, In x kp0 -> ~ In x dirnames) -> NoDup (map fst dd0) ->
  NoDup kp /\ (forall x, In x kp -> In x kp0 \/ In x dirnames) /\ NoDup (map fst dd) /\ (forall x, In x dd -> In x dd0).
Proof.
  induction dirnames as [|d ds IH]; intros kp0 dd0 kp dd H Hnd Hk0 Hdis Hdd.
  - cbn in H. inversion H; subst. split; [exact Hk0|split; [intros x Hx; left; exact Hx|split; [exact Hdd|auto]]].
  - inversion Hnd as [|? ? Hd Hds]; subst. cbn [fold_left] in H.
    assert (Step : forall kp1 dd1, NoDup kp1 -> (forall x, In x kp1 -> In x kp0 \/ x = d) -> NoDup (map fst dd1) -> (forall x, In x dd1 -> In x dd0) ->
      fold_left (fun (acc : list (list N) * list (list N * entry)) d =>
        let '(kp, dd) := acc in
        if py_startswith d [46] then (kp, dd)
        else match assoc d dd with
             | None => (kp ++ [d], dd)
             | Some (EIgn _) => (kp, dict_del d dd)
             | Some _ => (kp, dd)
             end) ds (kp1, dd1) = (kp, dd) ->
      NoDup kp /\ (forall x, In x kp -> In x kp0 \/ In x (d :: ds)) /\ NoDup (map fst dd) /\ (forall x, In x dd -> In x dd0)).
    { intros kp1 dd1 N1 S1 N2 S2 H1.
      destruct (IH kp1 dd1 kp dd H1 Hds N1) as [A1 [A2 [A3 A4]]]; [|exact N2|].
      - intros x Hx Hin. destruct (S1 x Hx) as [Hx0| ->]; [apply (Hdis x Hx0); right; exact Hin|exact (Hd Hin)].
      - split; [exact A1|split; [|split; [exact A3|intros x Hx; apply S2, A4, Hx]]].
        intros x Hx. destruct (A2 x Hx) as [Hx1|Hx1]; [destruct (S1 x Hx1) as [Hx0| ->]; [left; exact Hx0|right; left; reflexivity]|right; right; exact Hx1]. }
    destruct (py_startswith d [46]).
    + apply (Step kp0 dd0); auto.
    + destruct (assoc d dd0) as [[ts|p|t p a s ck]|].
      * apply (Step kp0 dd0); auto.
      * apply (Step kp0 (dict_del d dd0)); auto; [apply del_nodup; exact Hdd|intros x Hx; eapply in_dict_del_sub; exact Hx].
      * apply (Step kp0 dd0); auto.
      * apply (Step (kp0 ++ [d]) dd0); auto.
        -- apply NoDup_app_snoc. split; [exact Hk0|]. intros Hin. apply (Hdis d Hin). left. reflexivity.
        -- intros x Hx. apply in_app_or in Hx. destruct Hx as [Hx|[<-|[]]]; [left; exact Hx|right; reflexivity].
Qed.

Definition key_ok (k : list N) : Prop := k = [] \/ rel_ok k.

Lemma pjoin_key k n : key_ok k -> ~ In sl n -> pjoin k n = match k with [] => n | _ => k ++ sl :: n end.
Proof.
  intros [->|Hk] Hn.
  - unfold pjoin. destruct n as [|x r]; [reflexivity|].
    assert (x =? sl = false) as -> by (apply N.eqb_neq; intros ->; apply Hn; left; reflexivity). reflexivity.
  - rewrite (pjoin_noslash k n Hk Hn). destruct k; [destruct Hk; congruence|reflexivity].
Qed.

Lemma last_component r1 n1 r2 n2 : ~ In sl n1 -> ~ In sl n2 -> r1 ++ sl :: n1 = r2 ++ sl :: n2 -> r1 = r2 /\ n1 = n2.
Proof.
  intros H1 H2 E. apply (f_equal (@rev N)) in E. rewrite !rev_app_distr in E. cbn [rev] in E. rewrite <- !app_assoc in E. cbn [app] in E.
  destruct (first_component (rev n1) (rev n2) (rev r1) (rev r2)) as [E1 E2]; [intros H; apply H1; apply in_rev; exact H|intros H; apply H2; apply in_rev; exact H|exact E|].
  apply (f_equal (@rev N)) in E1, E2. rewrite !rev_involutive in E1, E2. split; assumption.
Qed.

Lemma pjoin_key_inj k1 n1 k2 n2 : key_ok k1 -> key_ok k2 -> ~ In sl n1 -> ~ In sl n2 ->
  pjoin k1 n1 = pjoin k2 n2 -> k1 = k2 /\ n1 = n2.
Proof.
  intros K1 K2 H1 H2. rewrite (pjoin_key k1 n1 K1 H1), (pjoin_key k2 n2 K2 H2).
  destruct k1 as [|a1 k1], k2 as [|a2 k2].
  - intros ->. split; reflexivity.
  - intros ->. exfalso. apply H1. apply in_or_app. right. left. reflexivity.
  - intros <-. exfalso. apply H2. apply in_or_app. right. left. reflexivity.
  - intros E. apply last_component; assumption.
Qed.


(* ---- one directory ------------------------------------------------------------------------------------------------ *)
Section Once.
  Variable L : hashlib.
  Variable w : world.
  Hypothesis Hw : wf_world w.
  (* directory listings do not repeat a name *)
  Hypothesis Hnd : forall X ents, p_scandir w X = Ok ents -> NoDup (map fst ents).
  Variable c : vctx.

  Definition dd_wf (dd : list (list N * entry)) : Prop := NoDup (map fst dd) /\ forall n e, In (n, e) dd -> ~ In sl n.
  Definition ed_wf (ed : edict) : Prop := forall k dd, In (k, dd) ed -> dd_wf dd.

  (* the dictionary keeps unique keys through the walk *)
  Lemma walk_ed_nodup f : forall X rel ids ed ret log ids' ed' ret' log',
    walk_verify L f w c X rel ids ed ret log = Ok (ids', ed', ret', log') -> NoDup (map fst ed) -> NoDup (map fst ed').
  Proof.
    induction f as [|f IH]; intros X rel ids ed ret log ids' ed' ret' log' H; [discriminate|].
    cbn [walk_verify] in H.
    destruct (p_scandir w X) as [ents|]; cbn [bind] in H; [|discriminate].
    destruct (p_stat w X) as [dst|]; cbn [bind] in H; [|discriminate].
    destruct (match vc_dev c with Some d => negb (st_dev dst =? d) | None => false end); [discriminate|].
    destruct (existsb _ _); [discriminate|].
    destruct (fold_left _ (map fst (filter snd ents)) ([], _)) as [keep dirdict1].
    destruct (verify_dir L w c X rel keep _ dirdict1 log) as [[b log1]|]; cbn [bind] in H; [|discriminate].
    intros Hn. apply (del_nodup rel) in Hn. revert H Hn.
    generalize (dict_del rel ed) (ret && b) log1.
    match goal with |- forall e b0 l, fold_left _ _ (Ok (?i, _, _, _)) = _ -> _ => generalize i end.
    induction keep as [|d ds IHd]; intros i0 e0 r0 l0 Hd Hn0; [cbn in Hd; inversion Hd; subst; exact Hn0|].
    cbn [fold_left bind] in Hd.
    destruct (walk_verify L f w c (pjoin X d) (pjoin rel d) i0 e0 r0 l0) as [[[[i2 e2] r2] l2]|] eqn:E.
    2:{ exfalso. rewrite fold_err_stays' in Hd by reflexivity. discriminate. }
    eapply IHd; [exact Hd|]. eapply IH; eassumption.
  Qed.

  Definition visited_path (ed' : edict) (p : list N) : Prop :=
    exists r n, key_ok r /\ p = pjoin r n /\ ~ In sl n /\ ~ In r (map fst ed').
  Lemma visited_path_shrink ed1 ed2 p : (forall x, In x ed2 -> In x ed1) -> visited_path ed1 p -> visited_path ed2 p.
  Proof.
    intros Hs [r [n [Kr [E [Hn Hk]]]]]. exists r, n. split; [exact Kr|split; [exact E|split; [exact Hn|]]]. intros Hin. apply Hk.
    apply in_map_iff in Hin. destruct Hin as [[k dd] [Ek Hin]]. cbn in Ek. subst k. apply in_map_iff. exists (r, dd). split; [reflexivity|apply Hs; exact Hin].
  Qed.

  (* items verified in order: what is appended to the log has the paths of the items, each at most once *)
  Lemma verify_items_once dp rp : forall its r lg b lg',
    verify_items L w c dp rp its (Ok (r, lg)) = Ok (b, lg') ->
    NoDup (map (fun it : item => pjoin rp (fst it)) its) ->
    exists new, lg' = lg ++ new /\ NoDup (map fst new) /\
      forall p, In p (map fst new) -> In p (map (fun it : item => pjoin rp (fst it)) its).
  Proof.
    induction its as [|it its IH]; intros r lg b lg' H Hn.
    - cbn in H. inversion H; subst. exists []. rewrite app_nil_r. split; [reflexivity|split; [constructor|intros p []]].
    - cbn [verify_items fold_left bind] in H.
      destruct (verify_one L w c (pjoin dp (fst it)) (pjoin rp (fst it)) (snd it) lg) as [[b0 lg0]|] eqn:E; cbn [bind] in H.
      2:{ exfalso. fold (verify_items L w c dp rp its (Err e)) in H. rewrite verify_items_err in H. discriminate. }
      fold (verify_items L w c dp rp its (Ok (r && b0, lg0))) in H.
      cbn [map] in Hn. inversion Hn as [|? ? Hx Hr]; subst.
      destruct (IH _ _ _ _ H Hr) as [new [-> [N1 N2]]].
      assert (X : lg0 = lg \/ exists diff, lg0 = lg ++ [(pjoin rp (fst it), diff)]).
      { unfold verify_one in E. destruct (Verify.verify_path L w (pjoin dp (fst it)) (snd it) (vc_dev c) (vc_lm c)) as [[ok diff]|]; cbn [bind] in E; [|discriminate].
        destruct ok; [inversion E; left; reflexivity|]. destruct (apply_policy (vc_pol c) (pjoin rp (fst it))); [| |discriminate]; inversion E; right; exists diff; reflexivity. }
      destruct X as [->|[diff ->]].
      + exists new. split; [reflexivity|split; [exact N1|intros p Hp; right; apply N2; exact Hp]].
      + exists ((pjoin rp (fst it), diff) :: new). rewrite <- app_assoc. split; [reflexivity|]. cbn [map fst]. split.
        * constructor; [intros Hin; apply Hx; apply N2; exact Hin|exact N1].
        * intros p [<-|Hp]; [left; reflexivity|right; apply N2; exact Hp].
  Qed.

  (* what os.path.join puts in front of a slash-free name *)
  Definition prefix (rel : list N) : list N := match rel with [] => [] | _ => rel ++ [sl] end.
  Lemma pjoin_prefix rel n : key_ok rel -> ~ In sl n -> pjoin rel n = prefix rel ++ n.
  Proof.
    intros Hk Hn. rewrite (pjoin_key rel n Hk Hn). unfold prefix. destruct rel; [reflexivity|]. rewrite <- app_assoc. reflexivity.
  Qed.
  Lemma valid_rel_ok d : valid_name d -> rel_ok d.
  Proof.
    intros Hd. destruct (valid_name_last d Hd) as [Y [x [-> Hx]]]. split; [destruct Y; discriminate|].
    rewrite endswith_snoc. apply N.eqb_neq. exact Hx.
  Qed.
  Lemma key_ok_child rel d : key_ok rel -> valid_name d -> rel_ok (pjoin rel d).
  Proof.
    intros [->|Hr] Hd; [|apply rel_ok_child; assumption].
    rewrite (pjoin_key [] d (or_introl eq_refl) (proj2 Hd)). apply valid_rel_ok. exact Hd.
  Qed.

  Lemma map_pjoin_nodup rel (its : list item) : key_ok rel -> (forall it, In it its -> ~ In sl (fst it)) ->
    NoDup (map fst its) -> NoDup (map (fun it : item => pjoin rel (fst it)) its).
  Proof.
    intros Hr. induction its as [|it its IH]; intros Hs Hn; [constructor|]. cbn [map] in *. inversion Hn as [|? ? Hx Hrest]; subst.
    constructor; [|apply IH; [intros i Hi; apply Hs; right; exact Hi|exact Hrest]].
    intros Hin. apply in_map_iff in Hin. destruct Hin as [it' [E Hin']]. apply Hx.
    rewrite (pjoin_prefix rel (fst it') Hr (Hs it' (or_intror Hin'))), (pjoin_prefix rel (fst it) Hr (Hs it (or_introl eq_refl))) in E.
    apply app_inv_head in E. rewrite <- E. apply (in_map fst its it' Hin').
  Qed.

  (* ---- the walk --------------------------------------------------------------------------------------------------- *)
  (* [below rel p]: p lies strictly inside the directory rel (any p when rel is the top directory '') *)
  Definition below (rel p : list N) : Prop := exists s, p = prefix rel ++ s.

  Lemma walk_once f : forall X rel ids ed ret log ids' ed' ret' log',
    walk_verify L f w c X rel ids ed ret log = Ok (ids', ed', ret', log') ->
    key_ok rel -> ed_wf ed -> NoDup (map fst ed) ->
    exists new, log' = log ++ new /\ NoDup (map fst new) /\ forall p, In p (map fst new) -> below rel p /\ visited_path ed' p.
  Proof.
    induction f as [|f IH]; intros X rel ids ed ret log ids' ed' ret' log' H Hr Hed Hkeys; [discriminate|].
    cbn [walk_verify] in H.
    destruct (p_scandir w X) as [ents|] eqn:Es; cbn [bind] in H; [|discriminate].
    destruct (p_stat w X) as [dst|]; cbn [bind] in H; [|discriminate].
    destruct (match vc_dev c with Some d => negb (st_dev dst =? d) | None => false end); [discriminate|].
    destruct (existsb _ _); [discriminate|].
    set (dirdict := match assoc rel ed with Some d => d | None => [] end) in *.
    destruct (fold_left _ (map fst (filter snd ents)) ([], dirdict)) as [keep dirdict1] eqn:Ek.
    assert (Hdd : dd_wf dirdict).
    { unfold dirdict. destruct (assoc rel ed) as [dd|] eqn:Ea; [apply (Hed rel dd); apply assoc_in; exact Ea|split; [constructor|intros n e []]]. }
    pose proof (nodup_map_filter_split ents (Hnd _ _ Es)) as Hsplit.
    destruct (prune_keep _ _ _ _ _ Ek (nodup_app_l _ _ Hsplit) (NoDup_nil _) (fun x (Hx : In x []) => match Hx with end) (proj1 Hdd)) as [K1 [K2 [K3 K4]]].
    set (filenames := map fst (filter (fun x => negb (snd x)) ents)) in *.
    assert (Hkf : NoDup (keep ++ filenames)).
    { apply nodup_app2; [exact K1|eapply nodup_app_r; exact Hsplit|]. intros x Hx Hf.
      destruct (K2 x Hx) as [[]|Hd]. clear -Hsplit Hd Hf. induction (map fst (filter snd ents)) as [|y l IHl]; [destruct Hd|].
      cbn in Hsplit. inversion Hsplit; subst. destruct Hd as [->|Hd]; [apply H1; apply in_or_app; right; exact Hf|apply IHl; assumption]. }
    assert (Hvalid : forall d, In d keep -> valid_name d).
    { intros d Hd. destruct (K2 d Hd) as [[]|Hin]. apply in_map_iff in Hin. destruct Hin as [[n b0] [E Hin]]. cbn in E. subst n.
      apply filter_In in Hin. eapply scandir_names; [exact Hw|exact Es|apply Hin]. }
    destruct (verify_dir L w c X rel keep filenames dirdict1 log) as [[b log1]|] eqn:Ev; cbn [bind] in H; [|discriminate].
    rewrite verify_dir_items in Ev.
    destruct (dir_items_spec (vc_top c) rel keep filenames dirdict1 Hkf K3) as [I1 I2].
    (* the names of the items are slash-free *)
    assert (Hslash : forall it, In it (dir_items (vc_top c) rel keep filenames dirdict1) -> ~ In sl (fst it)).
    { intros [n eo] Hin. cbn [fst]. apply I2 in Hin. destruct Hin as [[Hin _]|[[Hin _]|[_ [_ [de [Ha _]]]]]].
      - apply (Hvalid n Hin).
      - unfold filenames in Hin. apply in_map_iff in Hin. destruct Hin as [[n' b0] [E Hin]]. cbn in E. subst n'. apply filter_In in Hin.
        apply (scandir_names w X ents Hw Es n b0). apply Hin.
      - apply assoc_in in Ha. apply K4 in Ha. apply (proj2 Hdd n de Ha). }
    destruct (verify_items_once X rel _ _ _ _ _ Ev (map_pjoin_nodup rel _ Hr Hslash I1)) as [new1 [-> [N1 N2]]].
    (* the recursion *)
    assert (G : forall ds i0 e0 r0 l0 i1 e1 r1 l1, NoDup ds -> (forall d, In d ds -> valid_name d) -> ed_wf e0 ->
      fold_left (fun (acc : res (ids_map * edict * bool * list call)) d =>
        '(i, e, r, lg) <- acc ;; walk_verify L f w c (pjoin X d) (pjoin rel d) i e r lg)
        ds (Ok (i0, e0, r0, l0)) = Ok (i1, e1, r1, l1) ->
      NoDup (map fst e0) ->
      (forall x, In x e1 -> In x e0) /\ NoDup (map fst e1) /\
      exists new, l1 = l0 ++ new /\ NoDup (map fst new) /\
        forall p, In p (map fst new) -> (exists d s, In d ds /\ p = prefix rel ++ d ++ sl :: s) /\ visited_path e1 p).
    { induction ds as [|d ds IHd]; intros i0 e0 r0 l0 i1 e1 r1 l1 Hnds Hv Hwf Hd Hk0.
      - cbn in Hd. inversion Hd; subst. split; [auto|split; [exact Hk0|]]. exists []. rewrite app_nil_r. split; [reflexivity|split; [constructor|intros p []]].
      - cbn [fold_left bind] in Hd. inversion Hnds as [|? ? Hdn Hdsn]; subst.
        destruct (walk_verify L f w c (pjoin X d) (pjoin rel d) i0 e0 r0 l0) as [[[[i2 e2] r2] l2]|] eqn:E.
        2:{ exfalso. rewrite fold_err_stays' in Hd by reflexivity. discriminate. }
        assert (Hvd : valid_name d) by (apply Hv; left; reflexivity).
        pose proof (key_ok_child rel d Hr Hvd) as Hrc.
        destruct (IH _ _ _ _ _ _ _ _ _ _ E (or_intror Hrc) Hwf Hk0) as [na [-> [A1 A2]]].
        assert (Hbelow : forall p, below (pjoin rel d) p -> exists s, p = prefix rel ++ d ++ sl :: s).
        { intros p [s ->]. exists s. unfold prefix at 1. destruct (pjoin rel d) eqn:Ej; [destruct Hrc; congruence|]. rewrite <- Ej.
          rewrite (pjoin_prefix rel d Hr (proj2 Hvd)). rewrite <- !app_assoc. reflexivity. }
        pose proof (walk_ed_shrinks L w c f _ _ _ _ _ _ _ _ _ _ E) as Hsh2.
        assert (Hwf2 : ed_wf e2) by (intros k dd Hin; apply (Hwf k dd); apply Hsh2; exact Hin).
        pose proof (walk_ed_nodup f _ _ _ _ _ _ _ _ _ _ E Hk0) as Hk2.
        destruct (IHd _ _ _ _ _ _ _ _ Hdsn (fun d' Hd' => Hv d' (or_intror Hd')) Hwf2 Hd Hk2) as [Hsh1 [Hk1 [nb [-> [B1 B2]]]]].
        split; [intros x Hx; apply Hsh2, Hsh1, Hx|split; [exact Hk1|]].
        exists (na ++ nb). rewrite app_assoc. split; [reflexivity|]. rewrite map_app. split.
        + apply nodup_app2; [exact A1|exact B1|]. intros p Hpa Hpb.
          destruct (Hbelow p (proj1 (A2 p Hpa))) as [s1 E1]. destruct (proj1 (B2 p Hpb)) as [d2 [s2 [Hd2 E2]]].
          rewrite E1 in E2. apply app_inv_head in E2.
          destruct (first_component d d2 s1 s2 (proj2 Hvd) (proj2 (Hv d2 (or_intror Hd2))) E2) as [-> _]. exact (Hdn Hd2).
        + intros p Hp. apply in_app_or in Hp. destruct Hp as [Hp|Hp].
          * destruct (Hbelow p (proj1 (A2 p Hp))) as [s E1]. split; [exists d, s; split; [left; reflexivity|exact E1]|].
            eapply visited_path_shrink; [exact Hsh1|apply (A2 p Hp)].
          * destruct (B2 p Hp) as [[d2 [s2 [Hd2 E2]]] V]. split; [exists d2, s2; split; [right; exact Hd2|exact E2]|exact V]. }
    assert (Hwf1 : ed_wf (dict_del rel ed)) by (intros k dd Hin; apply (Hed k dd); eapply in_dict_del_sub; exact Hin).
    pose proof (del_nodup rel ed Hkeys) as Hkd.
    destruct (G _ _ _ _ _ _ _ _ _ K1 Hvalid Hwf1 H Hkd) as [Gsh [Gk [new2 [-> [M1 M2]]]]].
    assert (Hrel_gone : ~ In rel (map fst ed')).
    { intros Hin. apply in_map_iff in Hin. destruct Hin as [[k dd] [Ekk Hin]]. cbn in Ekk. subst k. apply Gsh in Hin.
      pose proof (assoc_del_self rel ed Hkeys) as Hnone. apply assoc_none in Hnone. apply Hnone. apply in_map_iff. exists (rel, dd). split; [reflexivity|exact Hin]. }
    exists (new1 ++ new2). rewrite app_assoc. split; [reflexivity|]. rewrite map_app. split.
    - apply nodup_app2; [exact N1|exact M1|]. intros p Hp1 Hp2.
      apply N2 in Hp1. apply in_map_iff in Hp1. destruct Hp1 as [it [E1 Hit]].
      rewrite (pjoin_prefix rel (fst it) Hr (Hslash it Hit)) in E1.
      destruct (proj1 (M2 p Hp2)) as [d [s [Hd E2]]]. rewrite <- E1 in E2. apply app_inv_head in E2.
      apply (Hslash it Hit). rewrite E2. apply in_or_app. right. left. reflexivity.
    - intros p Hp. apply in_app_or in Hp. destruct Hp as [Hp|Hp].
      + apply N2 in Hp. apply in_map_iff in Hp. destruct Hp as [it [E1 Hit]].
        split; [exists (fst it); rewrite <- E1; apply pjoin_prefix; [exact Hr|exact (Hslash it Hit)]|].
        exists rel, (fst it). split; [exact Hr|split; [symmetry; exact E1|split; [exact (Hslash it Hit)|exact Hrel_gone]]].
      + destruct (M2 p Hp) as [[d [s [_ E2]]] V]. split; [exists (d ++ sl :: s); exact E2|exact V].
  Qed.

  (* ---- the trailing pass and the whole operation ------------------------------------------------------------------ *)
  (* a sequence of single checks: what the log gains has the relative paths of the steps, each at most once *)
  Definition step := (list N * list N * option entry)%type.
  Definition run_steps (steps : list step) (start : res (bool * list call)) : res (bool * list call) :=
    fold_left (fun (acc : res (bool * list call)) (st : step) =>
      '(rt, lg) <- acc ;;
      '(b, lg') <- verify_one L w c (fst (fst st)) (snd (fst st)) (snd st) lg ;;
      Ok (rt && b, lg')) steps start.

  Lemma run_steps_once : forall steps r lg b lg',
    run_steps steps (Ok (r, lg)) = Ok (b, lg') -> NoDup (map (fun st : step => snd (fst st)) steps) ->
    exists new, lg' = lg ++ new /\ NoDup (map fst new) /\ forall p, In p (map fst new) -> In p (map (fun st : step => snd (fst st)) steps).
  Proof.
    induction steps as [|st steps IH]; intros r lg b lg' H Hn.
    - cbn in H. inversion H; subst. exists []. rewrite app_nil_r. split; [reflexivity|split; [constructor|intros p []]].
    - cbn [run_steps fold_left bind] in H.
      destruct (verify_one L w c (fst (fst st)) (snd (fst st)) (snd st) lg) as [[b0 lg0]|] eqn:E; cbn [bind] in H.
      2:{ exfalso. rewrite fold_err_stays' in H by reflexivity. discriminate. }
      fold (run_steps steps (Ok (r && b0, lg0))) in H.
      cbn [map] in Hn. inversion Hn as [|? ? Hx Hr]; subst.
      destruct (IH _ _ _ _ H Hr) as [new [-> [N1 N2]]].
      assert (X : lg0 = lg \/ exists diff, lg0 = lg ++ [(snd (fst st), diff)]).
      { unfold verify_one in E. destruct (Verify.verify_path L w (fst (fst st)) (snd st) (vc_dev c) (vc_lm c)) as [[ok diff]|]; cbn [bind] in E; [|discriminate].
        destruct ok; [inversion E; left; reflexivity|]. destruct (apply_policy (vc_pol c) (snd (fst st))); [| |discriminate]; inversion E; right; exists diff; reflexivity. }
      destruct X as [->|[diff ->]].
      + exists new. split; [reflexivity|split; [exact N1|intros p Hp; right; apply N2; exact Hp]].
      + exists ((snd (fst st), diff) :: new). rewrite <- app_assoc. split; [reflexivity|]. cbn [map fst]. split.
        * constructor; [intros Hin; apply Hx; apply N2; exact Hin|exact N1].
        * intros p [<-|Hp]; [left; reflexivity|right; apply N2; exact Hp].
  Qed.

  Definition trailing_steps (ed : edict) : list step :=
    flat_map (fun dd => map (fun fe : list N * entry => (pjoin rootdir (pjoin (fst dd) (fst fe)), pjoin (fst dd) (fst fe), Some (snd fe))) (snd dd)) ed.

  Lemma trailing_is_run_steps : forall (ed : edict) start,
    fold_left (fun (acc : res (bool * list call)) (dd : list N * list (list N * entry)) =>
      fold_left (fun (acc2 : res (bool * list call)) (fe : list N * entry) =>
        '(rt, lg) <- acc2 ;;
        let fpath := pjoin (fst dd) (fst fe) in
        '(b, lg') <- verify_one L w c (pjoin rootdir fpath) fpath (Some (snd fe)) lg ;;
        Ok (rt && b, lg')) (snd dd) acc) ed start
    = run_steps (trailing_steps ed) start.
  Proof.
    induction ed as [|dd ed IH]; intros start; [reflexivity|].
    cbn [fold_left trailing_steps flat_map]. unfold run_steps. rewrite fold_left_app. fold (run_steps (trailing_steps ed)). rewrite IH.
    f_equal. generalize start. induction (snd dd) as [|fe fes IHf]; intros st0; [reflexivity|]. cbn [fold_left map]. apply IHf.
  Qed.

  Lemma trailing_paths_nodup (ed : edict) :
    NoDup (map fst ed) -> (forall k dd, In (k, dd) ed -> key_ok k /\ dd_wf dd) ->
    NoDup (map (fun st : step => snd (fst st)) (trailing_steps ed)).
  Proof.
    induction ed as [|[k dd] ed IH]; intros Hk Hwf; [constructor|].
    cbn [map fst] in Hk. inversion Hk as [|? ? Hkn Hkr]; subst.
    cbn [trailing_steps flat_map fst snd]. rewrite map_app. apply nodup_app2.
    - destruct (Hwf k dd (or_introl eq_refl)) as [Kk [Dn Ds]]. rewrite map_map. cbn [fst snd].
      clear -Kk Dn Ds. induction dd as [|[n e] dd IHd]; [constructor|]. cbn [map fst] in *. inversion Dn as [|? ? Hx Hr]; subst.
      constructor; [|apply IHd; [exact Hr|intros n0 e0 H0; apply (Ds n0 e0); right; exact H0]].
      intros Hin. apply in_map_iff in Hin. destruct Hin as [[n' e'] [E Hin]]. cbn [fst] in E.
      destruct (pjoin_key_inj k n' k n Kk Kk (Ds n' e' (or_intror Hin)) (Ds n e (or_introl eq_refl)) E) as [_ ->].
      apply Hx. apply in_map_iff. exists (n, e'). split; [reflexivity|exact Hin].
    - apply IH; [exact Hkr|intros k0 dd0 H0; apply Hwf; right; exact H0].
    - intros p H1 H2. rewrite map_map in H1. apply in_map_iff in H1. destruct H1 as [[n e] [E1 Hin1]]. cbn [fst snd] in E1.
      apply in_map_iff in H2. destruct H2 as [st [E2 Hin2]]. unfold trailing_steps in Hin2. apply in_flat_map in Hin2.
      destruct Hin2 as [[k2 dd2] [Hk2 Hin2]]. apply in_map_iff in Hin2. destruct Hin2 as [[n2 e2] [E3 Hin2]]. subst st. cbn [fst snd] in E2.
      destruct (Hwf k dd (or_introl eq_refl)) as [Kk [_ Ds]]. destruct (Hwf k2 dd2 (or_intror Hk2)) as [Kk2 [_ Ds2]].
      rewrite <- E1 in E2. destruct (pjoin_key_inj k2 n2 k n Kk2 Kk (Ds2 n2 e2 Hin2) (Ds n e Hin1) E2) as [-> _].
      apply Hkn. apply in_map_iff. exists (k, dd2). split; [reflexivity|exact Hk2].
  Qed.
End Once.

(* directory listings without repeated names: a property of the inode graph *)
Definition nodup_world (w : world) : Prop :=
  forall i dev par ents, In (i, IDir dev par ents) (w_nodes w) -> NoDup (map fst ents).
Lemma scandir_nodup w : nodup_world w -> forall X ents, p_scandir w X = Ok ents -> NoDup (map fst ents).
Proof.
  intros Hn X ents. unfold p_scandir. destruct (resolve w X) as [i|]; cbn [bind]; [|discriminate].
  destruct (fault w PScandir i); [discriminate|].
  destruct (node w i) as [[d p e|d m s dt|d k]|] eqn:En; try discriminate.
  intros H. inversion H; subst. rewrite map_map. cbn [fst]. eapply Hn. apply lookup_ino_in. exact En.
Qed.

(* the whole operation: no path is handed to the handler twice *)
Theorem no_path_reported_twice (L : hashlib) decompress pgp_verify w l path pol lm l' b log :
  wf_world w -> nodup_world w -> key_ok path ->
  (forall l1 ed, get_file_entry_dict L decompress pgp_verify w l path None true = Ok (l1, ed) ->
     NoDup (map fst ed) /\ forall k dd, In (k, dd) ed -> key_ok k /\ dd_wf dd) ->
  assert_directory_verifies L decompress pgp_verify w l path pol lm = Ok (l', b, log) ->
  NoDup (map fst log).
Proof.
  intros Hw Hnw Hp Hed. pose proof (scandir_nodup w Hnw) as Hnd. unfold assert_directory_verifies.
  destruct (get_file_entry_dict L decompress pgp_verify w l path None true) as [[l1 ed]|] eqn:Eg; cbn [bind]; [|discriminate].
  destruct (Hed l1 ed eq_refl) as [Hk Hwf]. clear Hed.
  set (c := mk_vctx (l_top l1) (l_dev l1) pol lm).
  destruct (walk_verify L (nodes_fuel w) w c _ path [] ed true []) as [[[[ids' ed'] ret] lg]|] eqn:Ew; cbn [bind]; [|discriminate].
  destruct (walk_once L w Hw Hnd c _ _ _ _ _ _ _ _ _ _ _ Ew Hp (fun k dd H => proj2 (Hwf k dd H)) Hk) as [new1 [E1 [N1 N2]]]. cbn in E1. subst lg.
  pose proof (walk_ed_shrinks L w c _ _ _ _ _ _ _ _ _ _ _ Ew) as Hsh.
  pose proof (walk_ed_nodup L w c _ _ _ _ _ _ _ _ _ _ _ Ew Hk) as Hk'.
  match goal with |- context [bind ?x _] => replace x with (run_steps L w c (trailing_steps ed') (Ok (ret, new1))) by (symmetry; apply trailing_is_run_steps) end.
  destruct (run_steps L w c (trailing_steps ed') (Ok (ret, new1))) as [[r9 l9]|] eqn:E9; cbn [bind]; [|discriminate].
  intros H. inversion H; subst. cbn [snd].
  assert (Hwf' : forall k dd, In (k, dd) ed' -> key_ok k /\ dd_wf dd) by (intros k dd Hin; apply Hwf; apply Hsh; exact Hin).
  destruct (run_steps_once L w c _ _ _ _ _ E9 (trailing_paths_nodup ed' Hk' Hwf')) as [new2 [-> [M1 M2]]].
  rewrite map_app. apply nodup_app2; [exact N1|exact M1|].
  intros p Hp1 Hp2. destruct (proj2 (N2 p Hp1)) as [r [n [Kr [Ep [Hn Hr]]]]].
  apply M2 in Hp2. apply in_map_iff in Hp2. destruct Hp2 as [st [E2 Hin2]]. unfold trailing_steps in Hin2. apply in_flat_map in Hin2.
  destruct Hin2 as [[k2 dd2] [Hk2 Hin2]]. apply in_map_iff in Hin2. destruct Hin2 as [[n2 e2] [E3 Hin2]]. subst st. cbn [fst snd] in E2.
  destruct (Hwf' k2 dd2 Hk2) as [Kk2 [_ Ds2]]. rewrite Ep in E2.
  destruct (pjoin_key_inj k2 n2 r n Kk2 Kr (Ds2 n2 e2 Hin2) Hn E2) as [E4 _]. apply Hr. rewrite <- E4. apply in_map_iff. exists (k2, dd2). split; [reflexivity|exact Hk2].
Qed.
