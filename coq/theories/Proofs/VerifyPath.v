(* C01 core: verify_path accepts a file entry exactly when the object is a regular file on the
   expected device whose size matches and whose content has the entry's size and every listed
   checksum - or, with a last-verification mtime, when it is not newer and its size is unchanged. *)
From Coq Require Import List NArith ZArith Bool Lia ZifyBool ZifyN.
From Gemato Require Import Py.PyStr Py.PyPath Gen.Tables Model.Entry Model.Hash Model.FS Model.Verify.
From Gemato Require Import Proofs.Basics.
Import ListNotations.
Open Scope N_scope.

Section VP.
  Variable L : hashlib.

  (* the per-checksum comparison loop *)
  Definition cmp_loop (ecks : sums) (cks : list (list N * hval)) :=
    (fix cmp (hs : list (list N)) : res (list (list N)) :=
       match hs with
       | [] => Ok []
       | h :: r =>
           match assoc h ecks, assoc h cks with
           | Some ex, Some got => t <- cmp r ;; Ok (if hval_eqb_str got ex then t else h :: t)
           | _, _ => Err (XInternal IKey)
           end
       end).

  Lemma cmp_loop_nil ecks cks hs : cmp_loop ecks cks hs = Ok [] ->
    forall h, In h hs -> exists ex got, assoc h ecks = Some ex /\ assoc h cks = Some got /\ hval_eqb_str got ex = true.
  Proof.
    induction hs as [|h0 hs IH]; intros H h Hin; [destruct Hin|].
    cbn in H. destruct (assoc h0 ecks) as [ex|] eqn:E1; [|discriminate]. destruct (assoc h0 cks) as [got|] eqn:E2; [|discriminate].
    fold (cmp_loop ecks cks hs) in H. destruct (cmp_loop ecks cks hs) as [t|]; cbn [bind] in H; [|discriminate].
    destruct (hval_eqb_str got ex) eqn:E3; [|discriminate]. inversion H; subst.
    destruct Hin as [<-|Hin]; [exists ex, got; repeat split; assumption|apply IH; [reflexivity|exact Hin]].
  Qed.

  Lemma in_sorted_strs l x : In x (sorted_strs l) <-> In x l.
  Proof.
    unfold sorted_strs. split; intros H.
    - eapply Permutation.Permutation_in; [apply py_sorted_perm|exact H].
    - eapply Permutation.Permutation_in; [apply Permutation.Permutation_sym; apply py_sorted_perm|exact H].
  Qed.

  (* soundness: success on a file entry means the file matches *)
  Theorem verify_path_sound w path t p a size cks dev lm d :
    (* the object is not a socket / unconnected device (those can only yield a type mismatch) *)
    p_open w path <> Err (XOS ENXIO) -> p_open w path <> Err (XOS EOPNOTSUPP) ->
    verify_path L w path (Some (EFile t p a size cks)) dev lm = Ok (true, d) ->
    d = [] /\
    exists i st, p_open w path = Ok i /\ p_fstat w i = Ok st /\ st_type st = FTReg /\
      (forall dv, dev = Some dv -> st_dev st = dv) /\
      (st_size st = 0 \/ Z.of_N (st_size st) = size) /\
      ( (exists tm, lm = Some tm /\ (st_mtime st <= tm)%Z /\ st_size st <> 0)
        \/ exists got, gfm_checksums L w i st (map fst cks) = Ok got /\
             (exists sz, assoc s_size got = Some sz /\ hval_eqb_Z sz size = true) /\
             forall h, In h (map fst cks) ->
               exists ex g, assoc h cks = Some ex /\ assoc h got = Some g /\ hval_eqb_str g ex = true ).
  Proof.
    intros Hn1 Hn2. unfold verify_path. unfold gfm_open.
    destruct (p_open w path) as [i|e] eqn:Eo.
    2:{ destruct e; try discriminate. destruct e; cbn; try discriminate; congruence. }
    cbn [bind Bool.eqb negb gfm_stat].
    destruct (p_fstat w i) as [st|] eqn:Ef; cbn [bind]; [|discriminate].
    destruct (match dev with Some d0 => negb (st_dev st =? d0) | None => false end) eqn:Ed; [discriminate|].
    destruct (st_type st) eqn:Et; try discriminate.
    destruct (negb (st_size st =? 0) && negb (Z.of_N (st_size st) =? size)%Z) eqn:Es; [discriminate|].
    assert (Hdev : forall dv, dev = Some dv -> st_dev st = dv) by (intros dv ->; lia).
    assert (Hsz : st_size st = 0 \/ Z.of_N (st_size st) = size) by lia.
    destruct (match lm with Some lm0 => (st_mtime st <=? lm0)%Z | None => false end && negb (st_size st =? 0)) eqn:El.
    - intros H. inversion H; subst. split; [reflexivity|]. exists i, st.
      split; [reflexivity|]. split; [exact Ef|]. split; [exact Et|]. split; [exact Hdev|]. split; [exact Hsz|].
      left. destruct lm as [tm|]; [|discriminate]. exists tm. split; [reflexivity|]. lia.
    - destruct (gfm_checksums L w i st (map fst cks)) as [got|] eqn:Eg; cbn [bind]; [|discriminate].
      destruct (assoc s_size got) as [sz|] eqn:Esz; [|discriminate].
      fold (cmp_loop cks got (sorted_strs (map fst cks))).
      destruct (cmp_loop cks got (sorted_strs (map fst cks))) as [dl|] eqn:Ec; cbn [bind]; [|discriminate].
      destruct (hval_eqb_Z sz size) eqn:Ez; cbn [app]; [|discriminate].
      destruct dl as [|x dl]; [|discriminate].
      intros H. inversion H; subst. split; [reflexivity|]. exists i, st.
      split; [reflexivity|]. split; [exact Ef|]. split; [exact Et|]. split; [exact Hdev|]. split; [exact Hsz|].
      right. exists got. split; [exact Eg|]. split; [exists sz; split; [exact Esz|exact Ez]|].
      intros h Hh. apply (cmp_loop_nil _ _ _ Ec). apply in_sorted_strs. exact Hh.
  Qed.

  (* an IGNORE entry always verifies, without touching the filesystem *)
  Theorem verify_path_ignore w path p dev lm : verify_path L w path (Some (EIgn p)) dev lm = Ok (true, []).
  Proof. reflexivity. Qed.

  (* no entry: success exactly when nothing exists at the path (a stray object fails) *)
  Theorem verify_path_none w path dev lm b d :
    verify_path L w path None dev lm = Ok (b, d) ->
    (b = true /\ p_open w path = Err (XOS ENOENT)) \/ (b = false /\ d = [s_exists]).
  Proof.
    unfold verify_path, gfm_open. destruct (p_open w path) as [i|e] eqn:Eo.
    - cbn. intros H. inversion H; subst. right. split; reflexivity.
    - destruct e; try discriminate. destruct e; cbn; try discriminate; intros H; inversion H; subst;
        first [left; split; reflexivity|right; split; reflexivity].
  Qed.
End VP.
