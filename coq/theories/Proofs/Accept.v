(* C05: verify_file accepts exactly when Spec/Accept.v says so, for status reports of any
   length and order.  Depends on the generated status_prefixes and trust_accepted tables. *)
From Coq Require Import List NArith ZArith Bool Lia ZifyBool ZifyN Arith.
From Gemato Require Import Py.PyStr Py.PyLit Gen.Tables Model.Entry Model.Text Model.OpenPGP Spec.Accept.
From Gemato Require Import Proofs.Basics.
Import ListNotations.
Open Scope N_scope.

(* the prefixes in the source are gpg's words *)
Lemma prefixes_are_gpg : status_prefixes = [P_GOODSIG; P_EXPKEYSIG; P_REVKEYSIG; P_VALIDSIG; P_TRUST].
Proof. vm_compute. reflexivity. Qed.
(* the accepted tuple in the source is exactly marginal/full/ultimate validity *)
Lemma trust_tuple_is_sufficient : forall w, mem_bytes w trust_accepted = mem_bytes w sufficient_validity.
Proof.
  intros w. assert (E : trust_accepted = sufficient_validity) by (vm_compute; reflexivity).
  rewrite E. reflexivity.
Qed.

(* prefixes that differ at the tenth character cannot both match *)
Lemma startswith_nth l p k : py_startswith l p = true -> (k < length p)%nat -> nth k l 0 = nth k p 0.
Proof.
  intros H Hk. apply startswith_iff in H. destruct H as [r ->]. rewrite app_nth1 by exact Hk. reflexivity.
Qed.

Lemma classify_spec l :
  match classify l with
  | LGood => py_startswith l P_GOODSIG = true
  | LExpKey => py_startswith l P_EXPKEYSIG = true
  | LRevKey => py_startswith l P_REVKEYSIG = true
  | LValid => py_startswith l P_VALIDSIG = true
  | LTrust => py_startswith l P_TRUST = true
  | LOther => py_startswith l P_GOODSIG = false /\ py_startswith l P_EXPKEYSIG = false /\
              py_startswith l P_REVKEYSIG = false /\ py_startswith l P_VALIDSIG = false /\
              py_startswith l P_TRUST = false
  end.
Proof.
  unfold classify. rewrite prefixes_are_gpg.
  destruct (py_startswith l P_GOODSIG) eqn:E0; [reflexivity|].
  destruct (py_startswith l P_EXPKEYSIG) eqn:E1; [reflexivity|].
  destruct (py_startswith l P_REVKEYSIG) eqn:E2; [reflexivity|].
  destruct (py_startswith l P_VALIDSIG) eqn:E3; [reflexivity|].
  destruct (py_startswith l P_TRUST) eqn:E4; [reflexivity|]. repeat split; reflexivity.
Qed.

Lemma classify_of_prefix l :
  (py_startswith l P_GOODSIG = true -> classify l = LGood) /\
  (py_startswith l P_EXPKEYSIG = true -> classify l = LExpKey) /\
  (py_startswith l P_REVKEYSIG = true -> classify l = LRevKey) /\
  (py_startswith l P_VALIDSIG = true -> classify l = LValid) /\
  (py_startswith l P_TRUST = true -> classify l = LTrust).
Proof.
  assert (D : forall p q, py_startswith l p = true -> py_startswith l q = true ->
              (9 < length p)%nat -> (9 < length q)%nat -> nth 9 p 0 = nth 9 q 0).
  { intros p q Hp Hq Lp Lq. rewrite <- (startswith_nth l p 9 Hp Lp), <- (startswith_nth l q 9 Hq Lq). reflexivity. }
  unfold classify. rewrite prefixes_are_gpg.
  repeat split; intros H.
  - rewrite H. reflexivity.
  - destruct (py_startswith l P_GOODSIG) eqn:E0; [specialize (D _ _ E0 H); vm_compute in D; specialize (D ltac:(lia) ltac:(lia)); discriminate|].
    rewrite H. reflexivity.
  - destruct (py_startswith l P_GOODSIG) eqn:E0; [specialize (D _ _ E0 H); vm_compute in D; specialize (D ltac:(lia) ltac:(lia)); discriminate|].
    destruct (py_startswith l P_EXPKEYSIG) eqn:E1; [specialize (D _ _ E1 H); vm_compute in D; specialize (D ltac:(lia) ltac:(lia)); discriminate|].
    rewrite H. reflexivity.
  - destruct (py_startswith l P_GOODSIG) eqn:E0; [specialize (D _ _ E0 H); vm_compute in D; specialize (D ltac:(lia) ltac:(lia)); discriminate|].
    destruct (py_startswith l P_EXPKEYSIG) eqn:E1; [specialize (D _ _ E1 H); vm_compute in D; specialize (D ltac:(lia) ltac:(lia)); discriminate|].
    destruct (py_startswith l P_REVKEYSIG) eqn:E2; [specialize (D _ _ E2 H); vm_compute in D; specialize (D ltac:(lia) ltac:(lia)); discriminate|].
    rewrite H. reflexivity.
  - destruct (py_startswith l P_GOODSIG) eqn:E0; [specialize (D _ _ E0 H); vm_compute in D; specialize (D ltac:(lia) ltac:(lia)); discriminate|].
    destruct (py_startswith l P_EXPKEYSIG) eqn:E1; [specialize (D _ _ E1 H); vm_compute in D; specialize (D ltac:(lia) ltac:(lia)); discriminate|].
    destruct (py_startswith l P_REVKEYSIG) eqn:E2; [specialize (D _ _ E2 H); vm_compute in D; specialize (D ltac:(lia) ltac:(lia)); discriminate|].
    destruct (py_startswith l P_VALIDSIG) eqn:E3; [specialize (D _ _ E3 H); vm_compute in D; specialize (D ltac:(lia) ltac:(lia)); discriminate|].
    rewrite H. reflexivity.
Qed.

(* the reports gpg really prints: every VALIDSIG line is well-formed *)
Definition gpg_vocabulary (ls : list (list N)) : Prop :=
  Forall (fun l => py_startswith l P_VALIDSIG = true -> wf_validsig l = true) ls.

Definition no_key_failure (ls : list (list N)) : bool :=
  negb (has P_EXPKEYSIG ls) && negb (has P_REVKEYSIG ls).

(* second_field exists on every TRUST_ line (there is a space after "[GNUPG:]") *)
Lemma split_sep_aux_two sep s : forall cur a, split_sep_aux sep (a ++ sep :: s) cur <> [rev cur ++ a] -> True.
Proof. trivial. Qed.

Lemma split_sep_aux_nonempty sep s : forall cur, split_sep_aux sep s cur <> [].
Proof. induction s as [|x s IH]; intros cur; cbn [split_sep_aux]; [discriminate|]. destruct (x =? sep); [discriminate|apply IH]. Qed.

Lemma second_field_trust l : py_startswith l P_TRUST = true -> exists f, second_field l = Some f.
Proof.
  intros H. apply startswith_iff in H. destruct H as [r ->].
  assert (E : P_TRUST = [91;71;78;85;80;71;58;93;32] ++ [84;82;85;83;84;95]) by (vm_compute; reflexivity).
  rewrite E. clear E. rewrite <- app_assoc. remember ([84;82;85;83;84;95] ++ r) as X.
  unfold second_field, bsplit_sp, split_sep. cbn [app split_sep_aux N.eqb Pos.eqb].
  destruct (split_sep_aux 32 X []) as [|f t] eqn:E; [exfalso; eapply split_sep_aux_nonempty; exact E|].
  eexists. reflexivity.
Qed.

Lemma verify_lines_ok ls : forall s, gpg_vocabulary ls ->
  match verify_lines s ls with
  | Ok s' => no_key_failure ls = true /\
             vs_good s' = vs_good s || has P_GOODSIG ls /\
             vs_trusted s' = vs_trusted s || existsb validity_sufficient ls /\
             (has P_VALIDSIG ls = true -> vs_sig s' <> None) /\
             (has P_VALIDSIG ls = false -> vs_sig s' = vs_sig s)
  | Err e => no_key_failure ls = false /\
             exists k, first_key_failure ls = Some k /\ e = XPGP k
  end.
Proof.
  induction ls as [|l ls IH]; intros s Hv.
  - cbn. rewrite !orb_false_r. repeat split; try reflexivity. discriminate.
  - inversion Hv as [|? ? Hl Hls]; subst. cbn [verify_lines]. unfold verify_step.
    pose proof (classify_spec l) as C. pose proof (classify_of_prefix l) as [C0 [C1 [C2 [C3 C4]]]].
    unfold no_key_failure, has, first_key_failure in *. cbn [existsb find].
    destruct (classify l) eqn:Ec.
    + (* GOODSIG *)
      assert (E1 : py_startswith l P_EXPKEYSIG = false) by (destruct (py_startswith l P_EXPKEYSIG) eqn:E; [discriminate (C1 eq_refl)|reflexivity]).
      assert (E2 : py_startswith l P_REVKEYSIG = false) by (destruct (py_startswith l P_REVKEYSIG) eqn:E; [discriminate (C2 eq_refl)|reflexivity]).
      assert (E3 : py_startswith l P_VALIDSIG = false) by (destruct (py_startswith l P_VALIDSIG) eqn:E; [discriminate (C3 eq_refl)|reflexivity]).
      assert (E4 : py_startswith l P_TRUST = false) by (destruct (py_startswith l P_TRUST) eqn:E; [discriminate (C4 eq_refl)|reflexivity]).
      rewrite C, E1, E2, E3. unfold validity_sufficient at 1. rewrite E4. cbn [bind orb andb].
      specialize (IH (mk_vs true (vs_trusted s) (vs_sig s)) Hls).
      destruct (verify_lines _ ls); [|exact IH]. cbn [vs_good vs_trusted vs_sig] in IH.
      destruct IH as [I1 [I2 [I3 [I4 I5]]]]. repeat split; try assumption.
      rewrite I2. rewrite orb_true_r. reflexivity.
    + (* EXPKEYSIG *) rewrite C. cbn [orb negb andb]. rewrite ?C. split; [reflexivity|]. eexists. split; reflexivity.
    + (* REVKEYSIG *)
      assert (E1 : py_startswith l P_EXPKEYSIG = false) by (destruct (py_startswith l P_EXPKEYSIG) eqn:E; [discriminate (C1 eq_refl)|reflexivity]).
      rewrite C, E1. cbn [orb negb andb]. rewrite ?E1, andb_false_r. split; [reflexivity|]. eexists. split; reflexivity.
    + (* VALIDSIG *)
      assert (E0 : py_startswith l P_GOODSIG = false) by (destruct (py_startswith l P_GOODSIG) eqn:E; [discriminate (C0 eq_refl)|reflexivity]).
      assert (E1 : py_startswith l P_EXPKEYSIG = false) by (destruct (py_startswith l P_EXPKEYSIG) eqn:E; [discriminate (C1 eq_refl)|reflexivity]).
      assert (E2 : py_startswith l P_REVKEYSIG = false) by (destruct (py_startswith l P_REVKEYSIG) eqn:E; [discriminate (C2 eq_refl)|reflexivity]).
      assert (E4 : py_startswith l P_TRUST = false) by (destruct (py_startswith l P_TRUST) eqn:E; [discriminate (C4 eq_refl)|reflexivity]).
      specialize (Hl C). unfold wf_validsig in Hl. apply andb_true_iff in Hl. destruct Hl as [Hl Ht2].
      apply andb_true_iff in Hl. destruct Hl as [Hlen Ht1].
      assert ((length (bsplit_sp l) <? 12)%nat = false) as -> by lia.
      rewrite Ht1, Ht2. cbn [andb bind]. rewrite E0, E1, E2, C. unfold validity_sufficient at 1. rewrite E4. cbn [orb andb].
      match goal with |- context [verify_lines ?S ls] => specialize (IH S Hls); destruct (verify_lines S ls) end; [|exact IH].
      cbn [vs_good vs_trusted vs_sig] in IH. destruct IH as [I1 [I2 [I3 [I4 I5]]]].
      repeat split; try assumption.
      * intros _. destruct (existsb (fun l0 => py_startswith l0 P_VALIDSIG) ls) eqn:Ev; [apply I4; reflexivity|].
        rewrite I5 by reflexivity. discriminate.
      * discriminate.
    + (* TRUST_ *)
      assert (E0 : py_startswith l P_GOODSIG = false) by (destruct (py_startswith l P_GOODSIG) eqn:E; [discriminate (C0 eq_refl)|reflexivity]).
      assert (E1 : py_startswith l P_EXPKEYSIG = false) by (destruct (py_startswith l P_EXPKEYSIG) eqn:E; [discriminate (C1 eq_refl)|reflexivity]).
      assert (E2 : py_startswith l P_REVKEYSIG = false) by (destruct (py_startswith l P_REVKEYSIG) eqn:E; [discriminate (C2 eq_refl)|reflexivity]).
      assert (E3 : py_startswith l P_VALIDSIG = false) by (destruct (py_startswith l P_VALIDSIG) eqn:E; [discriminate (C3 eq_refl)|reflexivity]).
      destruct (second_field_trust l C) as [f Hf]. rewrite Hf. cbn [bind].
      rewrite E0, E1, E2, E3. unfold validity_sufficient at 1. rewrite C, Hf. cbn [orb andb].
      rewrite trust_tuple_is_sufficient.
      match goal with |- context [verify_lines ?S ls] => specialize (IH S Hls); destruct (verify_lines S ls) end; [|exact IH].
      cbn [vs_good vs_trusted vs_sig] in IH. destruct IH as [I1 [I2 [I3 [I4 I5]]]].
      repeat split; try assumption. rewrite I3. rewrite orb_assoc. reflexivity.
    + (* other *)
      destruct C as [E0 [E1 [E2 [E3 E4]]]]. rewrite E0, E1, E2, E3. unfold validity_sufficient at 1. rewrite E4.
      cbn [bind orb andb]. apply IH. exact Hls.
Qed.

Definition verify_status (exitst : Z) (ls : list (list N)) : res sigdata :=
  if negb (Z.eqb exitst 0) then Err (XPGP PGPVerification) else
  s <- verify_lines (mk_vs false false None) ls ;;
  match vs_good s, vs_sig s with
  | true, Some d => if vs_trusted s then Ok d else Err (XPGP PGPUntrustedSig)
  | _, _ => Err (XPGP PGPUnknownSig)
  end.
Lemma verify_file_status exitst out : verify_file exitst out = verify_status exitst (bsplitlines out).
Proof. reflexivity. Qed.

(* C05: acceptance <-> the specification; otherwise the specified failure *)
Theorem verify_status_spec exitst ls : gpg_vocabulary ls ->
  match verify_status exitst ls with
  | Ok _ => accept_spec exitst ls = true
  | Err e => accept_spec exitst ls = false /\ e = XPGP (failure_spec exitst ls)
  end.
Proof.
  intros Hv. unfold verify_status, accept_spec, failure_spec.
  destruct (Z.eqb exitst 0); cbn [negb andb]; [|split; reflexivity].
  pose proof (verify_lines_ok ls (mk_vs false false None) Hv) as H.
  destruct (verify_lines _ ls) as [s|e]; cbn [bind].
  - cbn [vs_good vs_trusted vs_sig orb] in H. destruct H as [H1 [H2 [H3 [H4 H5]]]].
    unfold no_key_failure in H1. apply andb_true_iff in H1. destruct H1 as [H1a H1b]. rewrite H1a, H1b. cbn [andb].
    assert (Hk : first_key_failure ls = None).
    { unfold first_key_failure. destruct (find _ ls) as [l|] eqn:Ef; [|reflexivity].
      apply find_some in Ef. destruct Ef as [Hin Hp]. apply orb_true_iff in Hp.
      unfold has in *. destruct Hp as [Hp|Hp].
      - assert (existsb (fun l0 => py_startswith l0 P_EXPKEYSIG) ls = true) by (apply existsb_exists; exists l; split; assumption).
        rewrite H in H1a. discriminate.
      - assert (existsb (fun l0 => py_startswith l0 P_REVKEYSIG) ls = true) by (apply existsb_exists; exists l; split; assumption).
        rewrite H in H1b. discriminate. }
    rewrite Hk. rewrite H2, H3.
    destruct (has P_GOODSIG ls); cbn [andb].
    + destruct (has P_VALIDSIG ls) eqn:Ev; cbn [andb].
      * specialize (H4 eq_refl). destruct (vs_sig s); [|congruence].
        destruct (existsb validity_sufficient ls); [reflexivity|split; reflexivity].
      * rewrite H5 by reflexivity. split; reflexivity.
    + split; reflexivity.
  - destruct H as [H1 [k [Hk ->]]]. rewrite Hk. unfold no_key_failure in H1.
    destruct (has P_EXPKEYSIG ls); cbn [negb andb] in *; [split; reflexivity|].
    destruct (has P_REVKEYSIG ls); cbn [negb andb] in *; [split; reflexivity|discriminate].
Qed.

(* monotone in key validity: raising marginal -> full -> ultimate never turns acceptance into rejection *)
Definition raise_line (l : list N) : list N :=
  if py_startswith l P_TRUST then
    match bsplit_sp l with
    | a :: w :: rest => join [32] (a :: raise_word w :: rest)
    | _ => l
    end
  else l.

Lemma raise_word_sufficient w : mem_bytes w sufficient_validity = true -> mem_bytes (raise_word w) sufficient_validity = true.
Proof.
  unfold sufficient_validity, raise_word. cbn [mem_bytes]. rewrite !orb_false_r.
  destruct (ustr_eqb w TRUST_MARGINAL) eqn:E1; [intros _; vm_compute; reflexivity|].
  destruct (ustr_eqb w TRUST_FULLY) eqn:E2; [intros _; vm_compute; reflexivity|].
  cbn [orb]. rewrite E1, E2. trivial.
Qed.

(* validity words that are not sufficient never lead to acceptance, whatever else is reported *)
Theorem insufficient_never_accepted exitst ls :
  (forall l, In l ls -> py_startswith l P_TRUST = true ->
             forall w, second_field l = Some w -> mem_bytes w sufficient_validity = false) ->
  accept_spec exitst ls = false.
Proof.
  intros H. unfold accept_spec.
  assert (E : existsb validity_sufficient ls = false).
  { destruct (existsb validity_sufficient ls) eqn:E; [|reflexivity].
    apply existsb_exists in E. destruct E as [l [Hin Hl]]. unfold validity_sufficient in Hl.
    apply andb_true_iff in Hl. destruct Hl as [Hp Hw].
    destruct (second_field l) as [w|] eqn:Ew; [|discriminate].
    rewrite (H l Hin Hp w Ew) in Hw. discriminate. }
  rewrite E. rewrite !andb_false_r. reflexivity.
Qed.

(* ---- the signed flag, and the isolated environment --------------------------------------- *)
Theorem signed_flag_means_verified text verify env es sg :
  load_with_env text verify env = Ok (es, true, sg) ->
  exists t d, load text verify = Ok (es, Some t) /\ env t = Ok d /\ sg = Some d.
Proof.
  unfold load_with_env. destruct (load text verify) as [[es' o]|]; cbn [bind]; [|discriminate].
  destruct o as [t|]; [|intros H; inversion H].
  destruct (env t) as [d|] eqn:E; cbn [bind]; [|discriminate].
  intros H. inversion H; subst. exists t, d. repeat split; assumption.
Qed.

(* with an isolated environment gpg is always run with the private home, whatever the caller's
   environment contains *)
Theorem isolated_home_wins user_env home proxy :
  assoc k_GNUPGHOME (spawn_env user_env (isolated_override home proxy)) = Some home.
Proof.
  unfold spawn_env, isolated_override, env_update. destruct proxy as [p|]; cbn [fold_left fst snd].
  - unfold env_set. rewrite dict_set_other by (vm_compute; reflexivity). apply dict_set_get.
  - apply dict_set_get.
Qed.
