(* The merged entry dictionary of a directory verification is well-formed: directories are keyed once, the names recorded for a
   directory are unique and slash-free (they are basenames), and a key is empty or a path without a trailing slash (it is the
   dirname of a path that lies beneath the verified directory).  This discharges the premise of no_path_reported_twice. *)
From Coq Require Import List NArith ZArith Bool Lia Arith Permutation.
From Gemato Require Import Py.PyStr Py.PyPath Gen.Tables Gen.Util Model.Entry Model.Text Model.OpenPGP Model.Hash Model.FS
  Model.Verify Model.Loader.
From Gemato Require Import Proofs.Basics Proofs.SortTheory Proofs.UtilSpec Proofs.DirSpec Proofs.WalkTerm Proofs.ReadSafe Proofs.EntryDict Proofs.Once.
Import ListNotations.
Open Scope N_scope.

(* ---- basename / dirname -------------------------------------------------------------------------------------------- *)
Lemma span_noslash_spec s : ~ In sl (fst (span_noslash s)) /\ s = fst (span_noslash s) ++ snd (span_noslash s).
Proof.
  induction s as [|x s IH]; [split; [intros []|reflexivity]|]. cbn [span_noslash]. destruct (x =? sl) eqn:E.
  - split; [intros []|reflexivity].
  - destruct (span_noslash s) as [a b]. cbn [fst snd] in *. destruct IH as [I1 I2]. split.
    + intros [->|H]; [rewrite N.eqb_refl in E; discriminate|exact (I1 H)].
    + cbn. f_equal. exact I2.
Qed.

Lemma basename_noslash p : ~ In sl (basename p).
Proof.
  unfold basename, rsplit_slash. pose proof (span_noslash_spec (rev p)) as [H _].
  destruct (span_noslash (rev p)) as [a b]. cbn [fst snd] in *. intros Hin. apply H. apply in_rev. exact Hin.
Qed.

Lemma rsplit_concat p : fst (rsplit_slash p) ++ snd (rsplit_slash p) = p.
Proof.
  unfold rsplit_slash. pose proof (span_noslash_spec (rev p)) as [_ H].
  destruct (span_noslash (rev p)) as [a b]. cbn [fst snd] in *.
  apply (f_equal (@rev N)) in H. rewrite rev_involutive, rev_app_distr in H. symmetry. exact H.
Qed.

Lemma lstrip_spec s : exists pre, s = pre ++ lstrip_set s [sl] /\ Forall (eq sl) pre /\
  (lstrip_set s [sl] = [] \/ exists y t, lstrip_set s [sl] = y :: t /\ y <> sl).
Proof.
  induction s as [|x s IH]; [exists []; split; [reflexivity|split; [constructor|left; reflexivity]]|].
  cbn [lstrip_set existsb]. destruct (x =? sl) eqn:E; cbn [orb].
  - apply N.eqb_eq in E. subst x. destruct IH as [pre [I1 [I2 I3]]]. exists (sl :: pre). split; [cbn; f_equal; exact I1|split; [constructor; [reflexivity|exact I2]|exact I3]].
  - exists []. split; [reflexivity|split; [constructor|right; exists x, s; split; [reflexivity|apply N.eqb_neq; exact E]]].
Qed.

Definition rel_start (p : list N) : Prop := match p with c :: _ => c <> sl | [] => True end.

Lemma dirname_key_ok p : rel_start p -> key_ok (dirname p).
Proof.
  intros Hp. unfold dirname. pose proof (rsplit_concat p) as Hc. set (h := fst (rsplit_slash p)) in *.
  destruct h as [|x h'] eqn:Eh; [left; reflexivity|].
  assert (Hx : x <> sl) by (rewrite <- Hc in Hp; exact Hp).
  assert (forallb (N.eqb sl) (x :: h') = false) as ->.
  { cbn [forallb]. assert (E0 : (sl =? x) = false) by (apply N.eqb_neq; intros E; apply Hx; symmetry; exact E). rewrite E0. reflexivity. }
  right. unfold py_rstrip. destruct (lstrip_spec (rev (x :: h'))) as [pre [S1 [S2 S3]]].
  destruct S3 as [S3|[y [t [S3 Hy]]]].
  - exfalso. rewrite S3, app_nil_r in S1. assert (In x pre) by (rewrite <- S1; apply in_rev; rewrite rev_involutive; left; reflexivity).
    rewrite Forall_forall in S2. apply Hx. symmetry. apply S2. assumption.
  - rewrite S3. cbn [rev]. split; [intros E; destruct (rev t); discriminate|]. rewrite endswith_snoc. apply N.eqb_neq. exact Hy.
Qed.

Lemma rstrip_id X : rel_ok X -> py_rstrip X [sl] = X.
Proof.
  intros [Hne He]. destruct (endswith_last X Hne) as [Y [c [-> Ec]]]. rewrite He in Ec.
  unfold py_rstrip. rewrite rev_app_distr. cbn [rev app lstrip_set existsb]. rewrite <- Ec. cbn [orb].
  change (c :: rev Y) with (rev [c] ++ rev Y). rewrite <- rev_app_distr, rev_involutive. reflexivity.
Qed.

Lemma starts_with_rel_start full path : rel_ok path -> rel_start path -> path_starts_with full path = true -> rel_start full.
Proof.
  intros Hr Hs H. apply path_starts_with_spec in H. destruct H as [->|H]; [destruct Hr; congruence|].
  cbv zeta in H. fold sl in H. change slash with sl in H. rewrite (rstrip_id path Hr) in H.
  destruct H as [->|[r ->]]; [exact Hs|]. destruct path as [|c p]; [destruct Hr; congruence|exact Hs].
Qed.

(* ---- dictionaries -------------------------------------------------------------------------------------------------- *)
Lemma dict_set_nodup {A} k (v : A) l : NoDup (map fst l) -> NoDup (map fst (dict_set k v l)).
Proof.
  intros H. destruct (in_dec (list_eq_dec N.eq_dec) k (map fst l)) as [Hin|Hin].
  - rewrite dict_set_keys by exact Hin. exact H.
  - rewrite dict_set_fresh by exact Hin. rewrite map_app. cbn. apply NoDup_app_snoc. split; assumption.
Qed.

Definition dict_wf (ed : edict) : Prop := NoDup (map fst ed) /\ forall k dd, In (k, dd) ed -> key_ok k /\ dd_wf dd.

Lemma dict_wf_step out dirpath filename e :
  dict_wf out -> key_ok dirpath -> ~ In sl filename ->
  dict_wf (dict_set dirpath (dict_set filename e (match assoc dirpath out with Some d => d | None => [] end)) out).
Proof.
  intros [W1 W2] Kd Hf. split; [apply dict_set_nodup; exact W1|].
  assert (Hdo : dd_wf (match assoc dirpath out with Some d => d | None => [] end)).
  { destruct (assoc dirpath out) as [d|] eqn:E; [apply (W2 dirpath d), assoc_in, E|split; [constructor|intros n x []]]. }
  intros k dd Hin. apply In_dict_set' in Hin. destruct Hin as [Hin|Hin]; [|apply W2; exact Hin].
  inversion Hin; subst. split; [exact Kd|]. destruct Hdo as [D1 D2]. split; [apply dict_set_nodup; exact D1|].
  intros n x Hn. apply In_dict_set' in Hn. destruct Hn as [Hn|Hn]; [inversion Hn; subst; exact Hf|apply (D2 n x Hn)].
Qed.

Section GW.
  Variable L : hashlib.
  Variable decompress : list N -> list N -> res (list N).
  Variable pgp_verify : list N -> res sigdata.
  Variable w : world.

  Lemma dict_step_wf path : rel_ok path -> rel_start path -> forall es rel out out',
    snd (fold_left (dict_step path) es (rel, Ok out)) = Ok out' -> dict_wf out -> dict_wf out'.
  Proof.
    intros Hr Hs. induction es as [|e es IH]; intros rel out out' H Hw; [cbn in H; inversion H; subst; exact Hw|].
    cbn [fold_left] in H.
    assert (Hc : forall es' rel' x, snd (fold_left (dict_step path) es' (rel', @Err edict x)) = Err x).
    { induction es' as [|e1 es' IH']; intros rel' x; [reflexivity|]. cbn [fold_left]. unfold dict_step at 2. cbv beta iota. apply IH'. }
    destruct (dict_step path (rel, Ok out) e) as [rel2 acc2] eqn:Estep.
    assert (Step : match acc2 with Ok out2 => dict_wf out2 | Err _ => True end).
    { revert Estep. unfold dict_step. cbv beta iota zeta.
      destruct (e_tag e); try (intros Hx; inversion Hx; subst; exact Hw).
      all: destruct (path_starts_with (pjoin rel (e_path e)) path) eqn:Ep; [|intros Hx; inversion Hx; subst; exact Hw].
      all: pose proof (dirname_key_ok _ (starts_with_rel_start _ _ Hr Hs Ep)) as Kd.
      all: pose proof (basename_noslash (e_path e)) as Hb.
      all: destruct (assoc (basename (e_path e)) _) as [old|].
      all: try (intros Hx; inversion Hx; subst; apply dict_wf_step; assumption).
      all: destruct (merge_entry old e) as [e'|x]; intros Hx; inversion Hx; subst; [apply dict_wf_step; assumption|exact I]. }
    destruct acc2 as [out2|x]; [eapply IH; [exact H|exact Step]|rewrite Hc in H; discriminate].
  Qed.

  Theorem entry_dict_wf l path v l' ed : rel_ok path -> rel_start path ->
    get_file_entry_dict L decompress pgp_verify w l path None v = Ok (l', ed) -> dict_wf ed.
  Proof.
    intros Hr Hs. unfold get_file_entry_dict.
    destruct (load_manifests_for_path L decompress pgp_verify rounds_fuel w l path true v) as [l1|]; cbn [bind]; [|discriminate].
    match goal with |- context [bind (fold_left ?F ?items ?init) _] => set (FF := F) end.
    destruct (fold_left FF (iter_manifests l1 path true) (Ok [])) as [out|] eqn:Ef; cbn [bind]; [|discriminate].
    intros H. inversion H; subst l1 out. clear H.
    assert (ErrStays : forall its x, fold_left FF its (Err x) = Err x).
    { induction its as [|[[mp rel0] m] its IH]; intros x; [reflexivity|]. cbn [fold_left].
      assert (E1 : FF (Err x) (mp, rel0, m) = snd (fold_left (dict_step path) (entries_of m) (rel0, Err x))) by reflexivity.
      rewrite E1. assert (Hc : forall es' rel', snd (fold_left (dict_step path) es' (rel', @Err edict x)) = Err x).
      { induction es' as [|e1 es' IH']; intros rel'; [reflexivity|]. cbn [fold_left]. unfold dict_step at 2. cbv beta iota. apply IH'. }
      rewrite Hc. apply IH. }
    assert (GG : forall its out0 out', fold_left FF its (Ok out0) = Ok out' -> dict_wf out0 -> dict_wf out').
    { induction its as [|[[mp rel0] m] its IH]; intros out0 out' Hf Hw; [cbn in Hf; inversion Hf; subst; exact Hw|].
      cbn [fold_left] in Hf.
      assert (E1 : FF (Ok out0) (mp, rel0, m) = snd (fold_left (dict_step path) (entries_of m) (rel0, Ok out0))) by reflexivity.
      rewrite E1 in Hf. destruct (snd (fold_left (dict_step path) (entries_of m) (rel0, Ok out0))) as [out1|x] eqn:Ei.
      - eapply IH; [exact Hf|]. eapply dict_step_wf; eassumption.
      - rewrite ErrStays in Hf. discriminate. }
    eapply GG; [exact Ef|]. split; [constructor|intros k dd []].
  Qed.
End GW.

(* no path is handed to the handler twice, for the dictionary that the verification really builds *)
Theorem each_path_reported_at_most_once (L : hashlib) decompress pgp_verify w l path pol lm l' b log :
  wf_world w -> nodup_world w -> rel_ok path -> rel_start path ->
  assert_directory_verifies L decompress pgp_verify w l path pol lm = Ok (l', b, log) ->
  NoDup (map fst log).
Proof.
  intros Hw Hn Hr Hs H. eapply no_path_reported_twice; [exact Hw|exact Hn|right; exact Hr| |exact H].
  intros l1 ed Hg. exact (entry_dict_wf L decompress pgp_verify w l path true l1 ed Hr Hs Hg).
Qed.

(* the same for the verification of the whole tree (start path ''), given that the dictionary is well-formed - its keys are
   relative paths: the Manifests of a tree do not carry absolute paths (the parser rejects them, C09) *)
Theorem each_path_reported_at_most_once_top (L : hashlib) decompress pgp_verify w l pol lm l' b log :
  wf_world w -> nodup_world w ->
  (forall l1 ed, get_file_entry_dict L decompress pgp_verify w l [] None true = Ok (l1, ed) -> dict_wf ed) ->
  assert_directory_verifies L decompress pgp_verify w l [] pol lm = Ok (l', b, log) ->
  NoDup (map fst log).
Proof.
  intros Hw Hn Hd H. eapply no_path_reported_twice; [exact Hw|exact Hn|left; reflexivity| |exact H].
  intros l1 ed Hg. exact (Hd l1 ed Hg).
Qed.
