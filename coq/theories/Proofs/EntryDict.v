(* C01, the merged entry dictionary: get_file_entry_dict drops nothing.  Every entry (other than DIST / TIMESTAMP) of every
   Manifest that is relevant for the directory and whose path lies beneath it is represented in the dictionary, under
   (dirname, basename) of its path, by an entry that COVERS it: the same size and every checksum of the entry with the same
   value (merging compatible duplicates only ever adds checksums), an IGNORE entry for an IGNORE entry. *)
From Coq Require Import List NArith ZArith Bool Lia Permutation.
From Gemato Require Import Py.PyStr Py.PyPath Py.PyTime Gen.Tables Gen.Util Model.Entry Model.Text Model.OpenPGP Model.Hash Model.FS
  Model.Verify Model.Loader.
From Gemato Require Import Proofs.Basics Proofs.SortTheory Proofs.Compat Proofs.NoInternal Proofs.ReadSafe Proofs.OnlyOffending Proofs.WalkComplete.
Import ListNotations.
Open Scope N_scope.

Definition covers (e' e : entry) : Prop :=
  match e with
  | EIgn _ => exists p, e' = EIgn p
  | EFile _ _ _ s c => exists t p a c', e' = EFile t p a s c' /\ forall h v, assoc h c = Some v -> assoc h c' = Some v
  | ETs _ => True
  end.

Lemma covers_refl e : covers e e.
Proof. destruct e as [d|p|t p a s c]; cbn; [exact I|exists p; reflexivity|]. exists t, p, a, c. split; [reflexivity|auto]. Qed.
Lemma covers_trans a b d : covers a b -> covers b d -> covers a d.
Proof.
  destruct d as [ts|p|t p x s c]; cbn; [auto| |].
  - intros H [q ->]. cbn in H. exact H.
  - intros H [t1 [p1 [a1 [c1 [-> H1]]]]]. cbn in H. destruct H as [t2 [p2 [a2 [c2 [-> H2]]]]].
    exists t2, p2, a2, c2. split; [reflexivity|]. intros h v Hv. apply H2, H1, Hv.
Qed.

(* the fold that completes the checksums of the newer entry from the older one *)
Definition add_missing (acc : sums) (d : list N * option (list N) * option (list N)) : sums :=
  match d with (k, Some d1, None) => dict_set k d1 acc | _ => acc end.

Lemma add_missing_inv h v : forall diff acc, assoc h acc = Some v ->
  (forall v', In (h, Some v', None) diff -> v' = v) -> assoc h (fold_left add_missing diff acc) = Some v.
Proof.
  induction diff as [|[[k x] y] r IH]; intros acc Ha Hu; [exact Ha|]. cbn [fold_left]. apply IH.
  - unfold add_missing. destruct x as [d1|]; [|exact Ha]. destruct y; [exact Ha|].
    destruct (ustr_eqb h k) eqn:E.
    + apply ustr_eqb_eq in E. subst k. rewrite (Hu d1 (or_introl eq_refl)). apply dict_set_get.
    + rewrite dict_set_other by exact E. exact Ha.
  - intros v' Hin. apply Hu. right. exact Hin.
Qed.
Lemma add_missing_set h v : forall diff acc, In (h, Some v, None) diff ->
  (forall v', In (h, Some v', None) diff -> v' = v) -> assoc h (fold_left add_missing diff acc) = Some v.
Proof.
  induction diff as [|d r IH]; intros acc Hin Hu; [destruct Hin|]. cbn [fold_left]. destruct Hin as [->|Hin].
  - apply add_missing_inv; [cbn; apply dict_set_get|intros v' H'; apply Hu; right; exact H'].
  - apply IH; [exact Hin|intros v' H'; apply Hu; right; exact H'].
Qed.

Lemma diff_elems (c1 c2 : sums) hashes k x y :
  In (k, x, y) (flat_map (diff_of c1 c2) hashes) -> In k hashes /\ x = assoc k c1 /\ y = assoc k c2.
Proof.
  intros H. apply in_flat_map in H. destruct H as [h [Hh Hin]]. unfold diff_of in Hin.
  destruct (match assoc h c1 with Some a => match assoc h c2 with Some b => ustr_eqb a b | None => false end
                               | None => match assoc h c2 with Some _ => false | None => true end end); [destruct Hin|].
  destruct Hin as [Hin|[]]. inversion Hin; subst. split; [exact Hh|split; reflexivity].
Qed.

Lemma in_hashes (c1 c2 : sums) h v : assoc h c1 = Some v \/ assoc h c2 = Some v -> In h (sorted_strs (nodup_str (map fst (c1 ++ c2)))).
Proof.
  intros H. apply in_sorted, in_nodup_str. rewrite map_app. apply in_or_app.
  destruct H as [H|H]; [left|right]; eapply assoc_in_keys; exact H.
Qed.

(* merging a new entry into the one recorded before: the result covers both *)
Lemma merge_covers old e e' : shape e -> merge_entry old e = Ok e' -> covers e' e /\ covers e' old.
Proof.
  intros Hs. unfold merge_entry.
  destruct (verify_entry_compatibility old e) as [[ok diff]|] eqn:E; cbn [bind]; [|discriminate].
  destruct ok; cbn [negb]; [|discriminate].
  unfold verify_entry_compatibility in E.
  destruct old as [ts|p|t1 p1 a1 s1 c1]; [discriminate| |].
  - (* IGNORE before *)
    destruct e as [ts|q|t2 p2 a2 s2 c2]; [discriminate| |].
    + cbn [e_tag] in E. rewrite ustr_eqb_refl in E. cbn in E. inversion E; subst. intros H. inversion H; subst.
      split; [apply covers_refl|exists q; reflexivity].
    + exfalso. cbn [e_tag] in E. rewrite ignore_not_compatible in E. cbn [negb orb andb] in E. rewrite andb_true_r in E.
      destruct (ustr_eqb (tag_str TIGNORE) (tag_str t2)) eqn:Et.
      * apply tag_str_inj in Et. subst t2. exact Hs.
      * cbn in E. discriminate.
  - destruct e as [ts|q|t2 p2 a2 s2 c2]; [discriminate| |].
    + (* file before, IGNORE now: never compatible *)
      exfalso. cbn [e_tag] in E. rewrite ignore_not_compatible in E. cbn [negb] in E. rewrite orb_true_r, andb_true_r in E.
      destruct (ustr_eqb (tag_str t1) (tag_str TIGNORE)); cbn in E; discriminate.
    + cbn [e_tag] in E.
      destruct (negb (ustr_eqb (tag_str t1) (tag_str t2)) && (negb (mem_str (tag_str t1) compatible_tags) || negb (mem_str (tag_str t2) compatible_tags))); [discriminate|].
      destruct (negb (s1 =? s2)%Z) eqn:Es; [discriminate|]. apply negb_false_iff, Z.eqb_eq in Es. subst s2.
      set (hashes := sorted_strs (nodup_str (map fst (c1 ++ c2)))) in *.
      assert (E' : @Ok (bool * compat_diff) (forallb no_conflict (flat_map (diff_of c1 c2) hashes), flat_map (diff_of c1 c2) hashes) = Ok (true, diff)) by exact E.
      clear E. assert (Hok : forallb no_conflict (flat_map (diff_of c1 c2) hashes) = true) by congruence.
      assert (Hd : flat_map (diff_of c1 c2) hashes = diff) by congruence. clear E'.
      assert (Agree : forall h a b, assoc h c1 = Some a -> assoc h c2 = Some b -> a = b).
      { intros h a b H1 H2. rewrite forallb_flat_map in Hok. apply (proj1 (diff_of_ok c1 c2 h)); [|exact H1|exact H2].
        apply Hok. eapply in_hashes. left. exact H1. }
      (* the completed checksums *)
      assert (Keep : forall h v, assoc h c2 = Some v -> assoc h (fold_left add_missing diff c2) = Some v).
      { intros h v Hv. apply add_missing_inv; [exact Hv|]. intros v' Hin. rewrite <- Hd in Hin.
        apply diff_elems in Hin. destruct Hin as [_ [_ Hy]]. rewrite Hv in Hy. discriminate. }
      assert (Old : forall h v, assoc h c1 = Some v -> assoc h (fold_left add_missing diff c2) = Some v).
      { intros h v Hv. destruct (assoc h c2) as [b|] eqn:E2.
        - rewrite (Agree _ _ _ Hv E2). apply Keep. exact E2.
        - apply add_missing_set.
          + rewrite <- Hd. apply in_flat_map. exists h. split; [eapply in_hashes; left; exact Hv|].
            unfold diff_of. rewrite Hv, E2. left. reflexivity.
          + intros v' Hin. rewrite <- Hd in Hin. apply diff_elems in Hin. destruct Hin as [_ [Hx _]]. rewrite Hv in Hx. inversion Hx. reflexivity. }
      destruct diff as [|d0 dr] eqn:Ediff.
      * intros H. inversion H; subst. split; [apply covers_refl|]. cbn. exists t2, p2, a2, c2. split; [reflexivity|]. exact Old.
      * rewrite <- Ediff in *. intros H.
        assert (X : exists t p a, e' = EFile t p a s1 (fold_left add_missing diff c2)).
        { change (fun acc d => match d with (k, Some d1, None) => dict_set k d1 acc | _ => acc end) with add_missing in H.
          destruct t2; inversion H; subst; eauto. }
        destruct X as [t [p [a ->]]]. split; cbn; exists t, p, a, (fold_left add_missing diff c2); (split; [reflexivity|assumption]).
Qed.

(* ---- the dictionary ---------------------------------------------------------------------------------------------- *)
Definition cov (out : edict) (dp fn : list N) (x : entry) : Prop :=
  exists dd e', assoc dp out = Some dd /\ assoc fn dd = Some e' /\ covers e' x.

Lemma cov_step out dirpath filename e'' dp fn x :
  (forall old, assoc filename (match assoc dirpath out with Some d => d | None => [] end) = Some old -> covers e'' old) ->
  cov out dp fn x ->
  cov (dict_set dirpath (dict_set filename e'' (match assoc dirpath out with Some d => d | None => [] end)) out) dp fn x.
Proof.
  intros Hold [dd [e' [H1 [H2 H3]]]]. unfold cov. destruct (ustr_eqb dp dirpath) eqn:Ed.
  - apply ustr_eqb_eq in Ed. subst dp. rewrite dict_set_get. rewrite H1 in *.
    destruct (ustr_eqb fn filename) eqn:Ef.
    + apply ustr_eqb_eq in Ef. subst fn. exists (dict_set filename e'' dd), e''. split; [reflexivity|split; [apply dict_set_get|]].
      eapply covers_trans; [apply Hold; exact H2|exact H3].
    + exists (dict_set filename e'' dd), e'. split; [reflexivity|split; [rewrite dict_set_other by exact Ef; exact H2|exact H3]].
  - exists dd, e'. split; [rewrite dict_set_other by exact Ed; exact H1|split; [exact H2|exact H3]].
Qed.
Lemma cov_new out dirpath filename e'' x : covers e'' x ->
  cov (dict_set dirpath (dict_set filename e'' (match assoc dirpath out with Some d => d | None => [] end)) out) dirpath filename x.
Proof. intros H. eexists. exists e''. split; [apply dict_set_get|split; [apply dict_set_get|exact H]]. Qed.

(* the step of the inner loop of get_file_entry_dict (only_types = None) *)
Definition dict_step (path : list N) : list N * res edict -> entry -> list N * res edict :=
  fun (st : list N * res edict) e =>
               let '(relpath, racc) := st in
               match racc with
               | Err x => st
               | Ok out =>
                   let skip_or_rel := match e_tag e with TDIST | TTIMESTAMP => None | _ => Some relpath end in
                   match skip_or_rel with
                   | None => st
                   | Some relpath' =>
                       let fullpath := pjoin relpath' (e_path e) in
                       if path_starts_with fullpath path then
                         let dirpath := dirname fullpath in
                         let filename := basename (e_path e) in
                         let dirout := match assoc dirpath out with Some d => d | None => [] end in
                         match assoc filename dirout with
                         | Some old =>
                             match merge_entry old e with
                             | Ok e' => (relpath', Ok (dict_set dirpath (dict_set filename e' dirout) out))
                             | Err x => (relpath', Err x)
                             end
                         | None => (relpath', Ok (dict_set dirpath (dict_set filename e dirout) out))
                         end
                       else (relpath', racc)
                   end
               end.

Section ED.
  Variable L : hashlib.
  Variable decompress : list N -> list N -> res (list N).
  Variable pgp_verify : list N -> res sigdata.
  Variable w : world.

  Definition wanted (path rel : list N) (e : entry) : Prop :=
    e_tag e <> TDIST /\ e_tag e <> TTIMESTAMP /\ path_starts_with (pjoin rel (e_path e)) path = true.

  Theorem entry_dict_covers l path v l' ed : lshape l' ->
    get_file_entry_dict L decompress pgp_verify w l path None v = Ok (l', ed) ->
    forall mp rel m e, In (mp, rel, m) (iter_manifests l' path true) -> In e (entries_of m) -> wanted path rel e ->
      cov ed (dirname (pjoin rel (e_path e))) (basename (e_path e)) e.
  Proof.
    intros Hl. unfold get_file_entry_dict.
    destruct (load_manifests_for_path L decompress pgp_verify rounds_fuel w l path true v) as [l1|] eqn:E; cbn [bind]; [|discriminate].
    match goal with |- context [bind (fold_left ?F ?items ?init) _] => set (FF := F) end.
    destruct (fold_left FF (iter_manifests l1 path true) (Ok [])) as [out|] eqn:Ef; cbn [bind]; [|discriminate].
    intros H. inversion H; subst l1 out. clear H.
    assert (Hitems : forall kdv, In kdv (iter_manifests l' path true) -> Forall shape (entries_of (snd kdv))).
    { intros [[mp rel] m] Hin. unfold iter_manifests in Hin.
      apply (Permutation.Permutation_in _ (py_sorted_perm _ _)) in Hin. apply in_rev in Hin. apply in_flat_map in Hin.
      destruct Hin as [[k m'] [Hk Hin]]. cbn [fst snd] in Hin.
      destruct (path_starts_with path (dirname k)); [|destruct (_ && _)].
      - destruct Hin as [Hin|[]]. inversion Hin; subst. exact (Hl _ _ Hk).
      - destruct Hin as [Hin|[]]. inversion Hin; subst. exact (Hl _ _ Hk).
      - destruct Hin. }
    (* the outer fold *)
    assert (GG : forall its out0 out', (forall kdv, In kdv its -> Forall shape (entries_of (snd kdv))) ->
      fold_left FF its (Ok out0) = Ok out' ->
      (forall dp fn x, cov out0 dp fn x -> cov out' dp fn x) /\
      (forall mp rel m e, In (mp, rel, m) its -> In e (entries_of m) -> wanted path rel e ->
         cov out' (dirname (pjoin rel (e_path e))) (basename (e_path e)) e)).
    { assert (ErrStays : forall its x, fold_left FF its (Err x) = Err x).
      { induction its as [|[[mp rel0] m] its IH]; intros x; [reflexivity|]. cbn [fold_left]. subst FF. cbv beta iota.
        match goal with |- fold_left ?G its (snd (fold_left ?F2 _ _)) = _ => set (F2' := F2) end.
        assert (Hc : forall es' rel', snd (fold_left F2' es' (rel', @Err edict x)) = Err x).
        { induction es' as [|e1 es' IH']; intros rel'; [reflexivity|]. cbn [fold_left]. subst F2'. cbv beta iota. apply IH'. }
        rewrite Hc. apply IH. }
      induction its as [|[[mp rel0] m] its IH]; intros out0 out' Hits Hf.
      { cbn in Hf. inversion Hf; subst. split; [auto|intros mp rel m e []]. }
      cbn [fold_left] in Hf.
      pose proof (Hits _ (or_introl eq_refl)) as Hm. cbn [snd] in Hm.
      (* the inner fold over the entries of this Manifest *)
      assert (Inner : forall es rel out1, Forall shape es ->
        match snd (fold_left (dict_step path) es (rel, Ok out1)) with
        | Err _ => True
        | Ok out2 => (forall dp fn x, cov out1 dp fn x -> cov out2 dp fn x) /\
                     (forall e, In e es -> wanted path rel e -> cov out2 (dirname (pjoin rel (e_path e))) (basename (e_path e)) e)
        end).
      { induction es as [|e es IHe]; intros rel out1 Hes.
        { cbn. split; [auto|intros e []]. }
        inversion Hes as [|? ? Hse Hes']; subst.
        set (F2 := dict_step path) in *.
        cbn [fold_left].
        assert (Hc : forall es' rel' x, snd (fold_left F2 es' (rel', @Err edict x)) = Err x).
        { induction es' as [|e1 es' IH']; intros rel' x; [reflexivity|]. cbn [fold_left]. unfold F2 at 2, dict_step. cbv beta iota. apply IH'. }
        (* skipped entries leave the state alone *)
        assert (Skip : (~ wanted path rel e) -> F2 (rel, Ok out1) e = (rel, Ok out1)).
        { intros Hnw. unfold F2, dict_step. cbv beta iota zeta.
          destruct (e_tag e) eqn:Et; try reflexivity;
            (destruct (path_starts_with (pjoin rel (e_path e)) path) eqn:Ep; [|reflexivity]);
            exfalso; apply Hnw; (split; [rewrite Et; discriminate|split; [rewrite Et; discriminate|exact Ep]]). }
        destruct (F2 (rel, Ok out1) e) as [rel2 acc2] eqn:Estep.
        assert (Step : rel2 = rel /\ match acc2 with
                        | Err _ => True
                        | Ok out2 => (forall dp fn x, cov out1 dp fn x -> cov out2 dp fn x) /\
                                     (wanted path rel e -> cov out2 (dirname (pjoin rel (e_path e))) (basename (e_path e)) e)
                        end).
        { revert Estep. unfold F2, dict_step. cbv beta iota zeta.
          assert (W : forall rel' acc', (rel', acc') = (rel, Ok out1) -> rel' = rel /\ match acc' with
                        | Err _ => True
                        | Ok out2 => (forall dp fn x, cov out1 dp fn x -> cov out2 dp fn x) /\
                                     (wanted path rel e -> cov out2 (dirname (pjoin rel (e_path e))) (basename (e_path e)) e)
                        end -> True) by (intros; exact I).
          clear W.
          destruct (e_tag e) eqn:Et.
          all: try (intros Hx; inversion Hx; subst; split; [reflexivity|split; [auto|intros [N1 [N2 _]]; rewrite Et in *; congruence]]).
          all: destruct (path_starts_with (pjoin rel (e_path e)) path) eqn:Ep;
            [|intros Hx; inversion Hx; subst; split; [reflexivity|split; [auto|intros [_ [_ N3]]; congruence]]].
          all: destruct (assoc (basename (e_path e)) (match assoc (dirname (pjoin rel (e_path e))) out1 with Some d => d | None => [] end)) as [old|] eqn:Ea.
          all: try (intros Hx; inversion Hx; subst; split; [reflexivity|split;
                 [intros dp fn x Hc'; apply cov_step; [intros old Ho; rewrite Ea in Ho; discriminate|exact Hc']
                 |intros _; apply cov_new; apply covers_refl]]).
          all: destruct (merge_entry old e) as [e'|x] eqn:Em; [|intros Hx; inversion Hx; subst; split; [reflexivity|exact I]].
          all: destruct (merge_covers old e e' Hse Em) as [M1 M2].
          all: intros Hx; inversion Hx; subst; split; [reflexivity|split;
                 [intros dp fn x Hc'; apply cov_step; [intros old' Ho; rewrite Ea in Ho; inversion Ho; subst; exact M2|exact Hc']
                 |intros _; apply cov_new; exact M1]]. }
        destruct Step as [-> Step]. destruct acc2 as [out2|x].
        - destruct Step as [S1 S2]. specialize (IHe rel out2 Hes').
          destruct (snd (fold_left F2 es (rel, Ok out2))) as [out3|]; [|exact I].
          destruct IHe as [I1 I2]. split; [intros dp fn x Hx; apply I1, S1, Hx|].
          intros e0 [<-|Hin] Hw; [apply I1, S2, Hw|apply I2; assumption].
        - rewrite Hc. exact I. }
      pose proof (Inner (entries_of m) rel0 out0 Hm) as J.
      remember (FF (Ok out0) (mp, rel0, m)) as r1 eqn:Er1.
      assert (Er1' : r1 = snd (fold_left (dict_step path) (entries_of m) (rel0, Ok out0))) by (rewrite Er1; reflexivity).
      rewrite <- Er1' in J. clear Er1'.
      destruct r1 as [out1|x]; [|exfalso; rewrite ErrStays in Hf; discriminate].
      destruct J as [J1 J2].
      destruct (IH _ _ (fun kdv Hk => Hits kdv (or_intror Hk)) Hf) as [K1 K2].
      split; [intros dp fn x Hx; apply K1, J1, Hx|].
      intros mp' rel' m' e [Eq|Hin] He Hw.
      - inversion Eq; subst. apply K1, J2; assumption.
      - eapply K2; eassumption. }
    intros mp rel m e Hin He Hw. eapply (proj2 (GG _ _ _ Hitems Ef)); eassumption.
  Qed.
End ED.

(* ---- with the walk: every entry of every relevant Manifest is checked --------------------------------------------------- *)
Section Checked.
  Variable L : hashlib.
  Variable decompress : list N -> list N -> res (list N).
  Variable pgp_verify : list N -> res sigdata.
  Hypothesis L_safe : forall s, safe (hl_hexdigest L s).
  Hypothesis dec_safe : forall f d, safe (decompress f d).
  Hypothesis pgp_safe : forall t, safe (pgp_verify t).
  Variable w : world.
  Hypothesis w_sane : sane_faults w.

  (* a directory verification returned: every entry (not DIST / TIMESTAMP) of every Manifest that is loaded and relevant for the
     directory, whose path lies beneath it, was checked - verify_path on the object at (dirname, basename) of its path with an
     entry that covers it (same size, every checksum of the entry) - and a failing check was reported *)
  Theorem manifest_entries_checked l path pol lm l' b log : lshape l ->
    assert_directory_verifies L decompress pgp_verify w l path pol lm = Ok (l', b, log) ->
    forall mp rel m e, In (mp, rel, m) (iter_manifests l' path true) -> In e (entries_of m) -> wanted path rel e ->
      exists e', covers e' e /\
        presented L w (mk_vctx (l_top l') (l_dev l') pol lm) path
                  (pjoin (dirname (pjoin rel (e_path e))) (basename (e_path e))) (Some e') log.
  Proof.
    intros Hl H mp rel m e Hin He Hw.
    destruct (directory_verification_complete L decompress pgp_verify w l path pol lm l' b log H) as [ed [E1 [E2 _]]].
    destruct (get_file_entry_dict_safe L decompress pgp_verify L_safe dec_safe pgp_safe w w_sane l path true Hl) as [_ S2].
    destruct (S2 _ _ E1) as [Hl' _].
    destruct (entry_dict_covers L decompress pgp_verify w l path true l' ed Hl' E1 mp rel m e Hin He Hw) as [dd [e' [A1 [A2 A3]]]].
    exists e'. split; [exact A3|]. apply (E2 _ dd); apply assoc_in; assumption.
  Qed.
End Checked.
