(* C16 for the scan for unregistered Manifests (load_unregistered_manifests, run by every update / create):
   the walk never depends on its fuel once it is at least |directory identities| + 2.  Same argument as for the
   verification walk (Proofs/WalkTerm.v): the identities recorded for the ancestors of a directory are pairwise
   distinct directory identities of the filesystem, and a repeated identity raises the symlink-loop error. *)
From Coq Require Import List NArith ZArith Bool Lia.
From Gemato Require Import Py.PyStr Py.PyPath Gen.Tables Model.Entry Model.Text Model.OpenPGP Model.Hash
  Model.FS Model.Verify Model.Loader Model.Update.
From Gemato Require Import Proofs.Basics Proofs.WalkTerm.
Import ListNotations.
Open Scope N_scope.

Section Unreg.
  Variable L : hashlib.
  Variable decompress : list N -> list N -> res (list N).
  Variable pgp_verify : list N -> res sigdata.
  Variable w : world.
  Hypothesis Hw : wf_world w.

  Notation walk := (walk_unreg L decompress pgp_verify).

  Lemma keep_subset_res (dirdict : list (list N * entry)) (dirnames : list (list N)) : forall kp0 keep,
    fold_left (fun (acc : res (list (list N))) d =>
                  kp <- acc ;;
                  if py_startswith d [46] then Ok kp
                  else match assoc d dirdict with
                       | None => Ok (kp ++ [d])
                       | Some (EIgn _) => Ok kp
                       | Some _ => Err (XInternal IAssertion)
                       end) dirnames (Ok kp0) = Ok keep ->
    forall d, In d keep -> In d kp0 \/ In d dirnames.
  Proof.
    induction dirnames as [|x ds IH]; intros kp0 keep H d Hin.
    - inversion H; subst. left. exact Hin.
    - cbn [fold_left bind] in H. destruct (py_startswith x [46]).
      + destruct (IH _ _ H d Hin) as [X|X]; [left; exact X|right; right; exact X].
      + destruct (assoc x dirdict) as [[dt|p|t p a s c]|].
        * exfalso. clear -H. induction ds as [|y ds IHd]; [discriminate|]. cbn [fold_left bind] in H. apply IHd. exact H.
        * destruct (IH _ _ H d Hin) as [X|X]; [left; exact X|right; right; exact X].
        * exfalso. clear -H. induction ds as [|y ds IHd]; [discriminate|]. cbn [fold_left bind] in H. apply IHd. exact H.
        * destruct (IH _ _ H d Hin) as [X|X]; [|right; right; exact X].
          apply in_app_or in X. destruct X as [X|[<-|[]]]; [left; exact X|right; left; reflexivity].
  Qed.

  Definition child_fold (f : nat) (X rel : list N) (ed : edict) :=
    fold_left (fun (acc : res (ids_map * loader * list (list N))) d =>
      '(i, l0, fnd) <- acc ;; walk f w l0 (pjoin X d) (pjoin rel d) i ed fnd).
  Lemma child_fold_err f X rel ed ds e : child_fold f X rel ed ds (Err e) = Err e.
  Proof. induction ds as [|d ds IH]; [reflexivity|exact IH]. Qed.

  Lemma walk_ids f : forall l X rel ids ed found ids' l' found',
    walk f w l X rel ids ed found = Ok (ids', l', found') ->
    X <> [] -> ids_ok w ids ->
    ids_ok w ids' /\ (forall k, (length k < length X)%nat -> assoc k ids' = assoc k ids).
  Proof.
    induction f as [|f IH]; intros l X rel ids ed found ids' l' found' H HX Hok; [discriminate|].
    cbn [walk_unreg] in H.
    destruct (p_scandir w X) as [ents|] eqn:Es; cbn [bind] in H; [|discriminate].
    destruct (p_stat w X) as [dst|] eqn:Et; cbn [bind] in H; [|discriminate].
    destruct (match l_dev l with Some d => negb (st_dev dst =? d) | None => false end); [discriminate|].
    set (id := (st_dev dst, st_ino dst)) in *.
    set (P := match assoc (dirname X) ids with Some x => x | None => [] end) in *.
    destruct (existsb _ P) eqn:El; [discriminate|].
    destruct (fold_left _ (map fst (filter snd ents)) (Ok [])) as [keep|] eqn:Ek; cbn [bind] in H; [|discriminate].
    destruct (fold_left _ manifest_names (Ok (l, found))) as [[lr fr]|]; cbn [bind fst snd] in H; [|discriminate].
    set (ids1 := match keep with [] => ids | _ :: _ => dict_set X (P ++ [id]) ids end) in *.
    assert (HP : NoDup P /\ incl P (dirids w)).
    { unfold P. destruct (assoc (dirname X) ids) as [x|] eqn:E; [apply (Hok _ _ E)|split; [constructor|intros a []]]. }
    assert (Hok1 : ids_ok w ids1).
    { unfold ids1. destruct keep; [exact Hok|]. intros k Q Hk.
      destruct (ustr_eqb k X) eqn:E.
      - apply ustr_eqb_eq in E. subst k. rewrite dict_set_get in Hk. inversion Hk; subst Q. split.
        + apply NoDup_app_snoc. split; [apply HP|apply existsb_id_false; exact El].
        + intros a Ha. apply in_app_or in Ha. destruct Ha as [Ha|[<-|[]]]; [apply HP; exact Ha|].
          eapply scandir_stat_dirid; eassumption.
      - rewrite dict_set_other in Hk by exact E. apply (Hok _ _ Hk). }
    assert (Hk1 : forall k, (length k < length X)%nat -> assoc k ids1 = assoc k ids).
    { intros k Hk. unfold ids1. destruct keep; [reflexivity|]. apply assoc_dict_set_len. lia. }
    assert (Hnames : forall d, In d keep -> valid_name d).
    { intros d Hd. destruct (keep_subset_res _ _ _ _ Ek d Hd) as [[]|Hin].
      apply in_map_iff in Hin. destruct Hin as [[n b0] [E Hin]]. cbn in E. subst n. apply filter_In in Hin.
      eapply scandir_names; [exact Hw|exact Es|apply Hin]. }
    fold (child_fold f X rel ed keep (Ok (ids1, lr, fr))) in H.
    clear Ek. revert H Hok1 Hk1. generalize lr fr ids1. clear El.
    induction keep as [|d ds IHd]; intros l0 f0 i0 H Hok0 Hk0.
    - cbn in H. inversion H; subst. split; [exact Hok0|exact Hk0].
    - cbn [child_fold fold_left bind] in H.
      destruct (walk f w l0 (pjoin X d) (pjoin rel d) i0 ed f0) as [[[i1 l1] f1]|e] eqn:Ew.
      + fold (child_fold f X rel ed ds (Ok (i1, l1, f1))) in H.
        assert (Hvd : valid_name d) by (apply Hnames; left; reflexivity).
        assert (HX' : pjoin X d <> []) by (pose proof (pjoin_longer X d HX Hvd); intros E; rewrite E in *; cbn in *; lia).
        destruct (IH _ _ _ _ _ _ _ _ _ Ew HX' Hok0) as [Hok2 Hk2].
        apply (IHd (fun d' Hd' => Hnames d' (or_intror Hd')) _ _ _ H Hok2).
        intros k Hk. rewrite Hk2; [apply Hk0; exact Hk|]. pose proof (pjoin_longer X d HX Hvd). lia.
      + fold (child_fold f X rel ed ds (Err e)) in H. rewrite child_fold_err in H. discriminate.
  Qed.

  Lemma walk_stable f1 : forall f2 l X rel ids ed found,
    no_trailing_slash X -> ids_ok w ids ->
    (D w - length (plist ids X) < f1)%nat -> (D w - length (plist ids X) < f2)%nat ->
    walk f1 w l X rel ids ed found = walk f2 w l X rel ids ed found.
  Proof.
    induction f1 as [|f1 IH]; intros f2 l X rel ids ed found HX Hok H1 H2; [lia|].
    destruct f2 as [|f2]; [lia|].
    cbn [walk_unreg].
    destruct (p_scandir w X) as [ents|] eqn:Es; cbn [bind]; [|reflexivity].
    destruct (p_stat w X) as [dst|] eqn:Et; cbn [bind]; [|reflexivity].
    destruct (match l_dev l with Some d => negb (st_dev dst =? d) | None => false end); [reflexivity|].
    set (id := (st_dev dst, st_ino dst)) in *.
    fold (plist ids X). set (P := plist ids X) in *.
    destruct (existsb _ P) eqn:El; [reflexivity|].
    destruct (fold_left _ (map fst (filter snd ents)) (Ok [])) as [keep|] eqn:Ek; cbn [bind]; [|reflexivity].
    destruct (fold_left _ manifest_names (Ok (l, found))) as [[lr fr]|]; cbn [bind fst snd]; [|reflexivity].
    set (ids1 := match keep with [] => ids | _ :: _ => dict_set X (P ++ [id]) ids end).
    assert (HP : NoDup P /\ incl P (dirids w)).
    { unfold P, plist. destruct (assoc (dirname X) ids) as [x|] eqn:E; [apply (Hok _ _ E)|split; [constructor|intros a []]]. }
    assert (Hnd : NoDup (P ++ [id])) by (apply NoDup_app_snoc; split; [apply HP|apply existsb_id_false; exact El]).
    assert (Hincl : incl (P ++ [id]) (dirids w)).
    { intros a Ha. apply in_app_or in Ha. destruct Ha as [Ha|[<-|[]]]; [apply HP; exact Ha|eapply scandir_stat_dirid; eassumption]. }
    assert (Hlen : (length P + 1 <= D w)%nat).
    { pose proof (NoDup_incl_length Hnd Hincl) as X0. rewrite app_length in X0. cbn in X0. exact X0. }
    assert (Hnames : forall d, In d keep -> valid_name d).
    { intros d Hd. destruct (keep_subset_res _ _ _ _ Ek d Hd) as [[]|Hin].
      apply in_map_iff in Hin. destruct Hin as [[n b0] [E Hin]]. cbn in E. subst n. apply filter_In in Hin.
      eapply scandir_names; [exact Hw|exact Es|apply Hin]. }
    fold (child_fold f1 X rel ed keep (Ok (ids1, lr, fr))).
    fold (child_fold f2 X rel ed keep (Ok (ids1, lr, fr))).
    destruct keep as [|d0 ds0]; [reflexivity|].
    assert (Hok1 : ids_ok w ids1).
    { unfold ids1. intros k Q Hk. destruct (ustr_eqb k X) eqn:E.
      - apply ustr_eqb_eq in E. subst k. rewrite dict_set_get in Hk. inversion Hk; subst Q. split; assumption.
      - rewrite dict_set_other in Hk by exact E. apply (Hok _ _ Hk). }
    assert (HX1 : assoc X ids1 = Some (P ++ [id])) by (unfold ids1; apply dict_set_get).
    clear Ek. revert Hok1 HX1. generalize lr fr ids1.
    generalize dependent (d0 :: ds0). clear d0 ds0.
    intros keep Hnames. induction keep as [|d ds IHd]; intros l0 fd0 i0 Hok0 HX0; [reflexivity|].
    cbn [child_fold fold_left bind].
    assert (Hvd : valid_name d) by (apply Hnames; left; reflexivity).
    assert (HXd : no_trailing_slash (pjoin X d)) by (apply pjoin_no_trailing; [apply HX|exact Hvd]).
    assert (Hpl : plist i0 (pjoin X d) = P ++ [id]).
    { unfold plist. rewrite dirname_pjoin by assumption. rewrite HX0. reflexivity. }
    rewrite (IH f2 l0 (pjoin X d) (pjoin rel d) i0 ed fd0 HXd Hok0);
      [|rewrite Hpl, app_length; cbn; lia|rewrite Hpl, app_length; cbn; lia].
    destruct (walk f2 w l0 (pjoin X d) (pjoin rel d) i0 ed fd0) as [[[i1 l1] fd1]|e] eqn:Ew.
    - fold (child_fold f1 X rel ed ds (Ok (i1, l1, fd1))). fold (child_fold f2 X rel ed ds (Ok (i1, l1, fd1))).
      assert (HX' : pjoin X d <> []) by apply HXd.
      destruct (walk_ids f2 _ _ _ _ _ _ _ _ _ Ew HX' Hok0) as [Hok2 Hk2].
      apply (IHd (fun d' Hd' => Hnames d' (or_intror Hd'))); [exact Hok2|].
      rewrite Hk2; [exact HX0|]. apply pjoin_longer; [apply HX|exact Hvd].
    - fold (child_fold f1 X rel ed ds (Err e)). fold (child_fold f2 X rel ed ds (Err e)). rewrite !child_fold_err. reflexivity.
  Qed.

  Theorem unreg_walk_terminates f1 f2 l X rel ed found :
    X <> [] -> forallb (N.eqb sl) X = false ->
    (D w + 2 <= f1)%nat -> (D w + 2 <= f2)%nat ->
    walk f1 w l X rel [] ed found = walk f2 w l X rel [] ed found.
  Proof.
    intros HX Hns H1 H2.
    assert (Hok0 : ids_ok w []) by (intros k P Hk; discriminate).
    destruct (py_endswith X [sl]) eqn:He.
    2:{ apply walk_stable; [split; assumption|exact Hok0| |]; unfold plist; cbn; lia. }
    destruct f1 as [|f1]; [lia|]. destruct f2 as [|f2]; [lia|].
    cbn [walk_unreg].
    destruct (p_scandir w X) as [ents|] eqn:Es; cbn [bind]; [|reflexivity].
    destruct (p_stat w X) as [dst|] eqn:Et; cbn [bind]; [|reflexivity].
    destruct (match l_dev l with Some d => negb (st_dev dst =? d) | None => false end); [reflexivity|].
    set (id := (st_dev dst, st_ino dst)) in *.
    cbn [assoc existsb].
    destruct (fold_left _ (map fst (filter snd ents)) (Ok [])) as [keep|] eqn:Ek; cbn [bind]; [|reflexivity].
    destruct (fold_left _ manifest_names (Ok (l, found))) as [[lr fr]|]; cbn [bind fst snd]; [|reflexivity].
    assert (Hnames : forall d, In d keep -> valid_name d).
    { intros d Hd. destruct (keep_subset_res _ _ _ _ Ek d Hd) as [[]|Hin].
      apply in_map_iff in Hin. destruct Hin as [[n b0] [E Hin]]. cbn in E. subst n. apply filter_In in Hin.
      eapply scandir_names; [exact Hw|exact Es|apply Hin]. }
    destruct keep as [|d0 ds0]; [reflexivity|].
    set (ids1 := dict_set X ([] ++ [id]) (@nil (list N * list (N * N)))).
    fold (child_fold f1 X rel ed (d0 :: ds0) (Ok (ids1, lr, fr))).
    fold (child_fold f2 X rel ed (d0 :: ds0) (Ok (ids1, lr, fr))).
    assert (Hok1 : ids_ok w ids1).
    { unfold ids1. intros k Q Hk. cbn in Hk. destruct (ustr_eqb k X); [|discriminate].
      inversion Hk; subst Q. split; [constructor; [intros []|constructor]|].
      intros a [<-|[]]. eapply scandir_stat_dirid; eassumption. }
    assert (Hshort : forall k, (length k < length X)%nat -> assoc k ids1 = None).
    { intros k Hk. unfold ids1. cbn. destruct (ustr_eqb k X) eqn:E; [|reflexivity].
      apply ustr_eqb_eq in E. subst. lia. }
    clearbody ids1. clear Ek. revert Hok1 Hshort. generalize lr fr ids1.
    generalize dependent (d0 :: ds0). clear d0 ds0. intros keep Hnames.
    induction keep as [|d ds IHd]; intros l0 fd0 i0 Hok1 Hshort; [reflexivity|].
    cbn [child_fold fold_left bind].
    assert (Hvd : valid_name d) by (apply Hnames; left; reflexivity).
    assert (HXd : no_trailing_slash (pjoin X d)) by (apply pjoin_no_trailing; assumption).
    assert (Hpl : plist i0 (pjoin X d) = []).
    { unfold plist. rewrite Hshort; [reflexivity|]. apply dirname_pjoin_slash; assumption. }
    rewrite (walk_stable f1 f2 l0 (pjoin X d) (pjoin rel d) i0 ed fd0 HXd Hok1);
      [|rewrite Hpl; cbn; lia|rewrite Hpl; cbn; lia].
    destruct (walk f2 w l0 (pjoin X d) (pjoin rel d) i0 ed fd0) as [[[i1 l1] fd1]|e] eqn:Ew.
    - fold (child_fold f1 X rel ed ds (Ok (i1, l1, fd1))). fold (child_fold f2 X rel ed ds (Ok (i1, l1, fd1))).
      destruct (walk_ids f2 _ _ _ _ _ _ _ _ _ Ew (proj1 HXd) Hok1) as [Hok2 Hk2].
      apply (IHd (fun d' Hd' => Hnames d' (or_intror Hd'))); [exact Hok2|].
      intros k Hk. rewrite Hk2; [apply Hshort; exact Hk|]. pose proof (pjoin_longer X d HX Hvd). lia.
    - fold (child_fold f1 X rel ed ds (Err e)). fold (child_fold f2 X rel ed ds (Err e)). rewrite !child_fold_err. reflexivity.
  Qed.
End Unreg.
