(* Semantics of the Python str builtins that gemato uses (CPython 3.12, Unicode 15).
   Modelled, not verified: every function here is validated against CPython on each
   run by the correspondence harness (tools/corr/engine_py.py). *)
From Coq Require Export List NArith ZArith Bool.
Export ListNotations.
Open Scope N_scope.

Notation cp := N (only parsing).                  (* a Unicode code point *)
Notation ustr := (list N) (only parsing).         (* a Python str *)
Notation bytes := (list N) (only parsing).        (* a Python bytes object, every element < 256 *)

Definition max_cp : N := 1114111.  (* 0x10FFFF *)

Fixpoint ustr_eqb (a b : ustr) : bool :=
  match a, b with
  | [], [] => true
  | x :: a', y :: b' => N.eqb x y && ustr_eqb a' b'
  | _, _ => false
  end.

(* Python's < on str: lexicographic by code point *)
Fixpoint ustr_ltb (a b : ustr) : bool :=
  match a, b with
  | _, [] => false
  | [], _ :: _ => true
  | x :: a', y :: b' => (x <? y) || ((x =? y) && ustr_ltb a' b')
  end.

Fixpoint py_startswith (s p : ustr) {struct p} : bool :=
  match p with
  | [] => true
  | y :: p' => match s with [] => false | x :: s' => N.eqb x y && py_startswith s' p' end
  end.
Definition py_endswith (s p : ustr) : bool := py_startswith (rev s) (rev p).

Fixpoint lstrip_set (s chars : ustr) : ustr :=
  match s with
  | [] => []
  | x :: s' => if existsb (N.eqb x) chars then lstrip_set s' chars else s
  end.
(* str.rstrip(chars) *)
Definition py_rstrip (s chars : ustr) : ustr := rev (lstrip_set (rev s) chars).

(* str.isspace() on one character; also re's \s and the separators of str.split().
   29 code points; the harness checks this against CPython for all 0x110000 code points. *)
Definition is_space (c : cp) : bool :=
  ((9 <=? c) && (c <=? 13)) || ((28 <=? c) && (c <=? 32)) || (c =? 133) || (c =? 160)
  || (c =? 5760) || ((8192 <=? c) && (c <=? 8202)) || (c =? 8232) || (c =? 8233)
  || (c =? 8239) || (c =? 8287) || (c =? 12288).

Fixpoint lstrip_ws (s : ustr) : ustr :=
  match s with
  | [] => []
  | x :: s' => if is_space x then lstrip_ws s' else s
  end.
Definition rstrip_ws (s : ustr) : ustr := rev (lstrip_ws (rev s)).
Definition strip_ws (s : ustr) : ustr := rstrip_ws (lstrip_ws s).

(* str.split() with no argument: split on runs of whitespace, no empty strings *)
Fixpoint split_ws_aux (s : ustr) (cur : ustr) : list ustr :=
  match s with
  | [] => match cur with [] => [] | _ => [rev cur] end
  | x :: s' =>
      if is_space x
      then match cur with [] => split_ws_aux s' [] | _ => rev cur :: split_ws_aux s' [] end
      else split_ws_aux s' (x :: cur)
  end.
Definition split_ws (s : ustr) : list ustr := split_ws_aux s [].

(* sep.join(xs) *)
Fixpoint join (sep : ustr) (xs : list ustr) : ustr :=
  match xs with
  | [] => []
  | [x] => x
  | x :: xs' => x ++ sep ++ join sep xs'
  end.

Definition contains_cp (c : cp) (s : ustr) : bool := existsb (N.eqb c) s.

(* Iteration over a text file opened with universal newlines (newline=None):
   lines end at \n, \r or \r\n, each handed over as \n; a last line without
   terminator is yielded as it is. *)
Fixpoint lines_aux (s : ustr) (cur : ustr) : list ustr :=
  match s with
  | [] => match cur with [] => [] | _ => [rev cur] end
  | x :: s' =>
      if x =? 10 then rev (10 :: cur) :: lines_aux s' []
      else if x =? 13 then
        match s' with
        | y :: s'' => if y =? 10 then rev (10 :: cur) :: lines_aux s'' []
                      else rev (10 :: cur) :: lines_aux s' []
        | [] => [rev (10 :: cur)]
        end
      else lines_aux s' (x :: cur)
  end.
Definition py_lines (s : ustr) : list ustr := lines_aux s [].

(* --- integers ------------------------------------------------------------ *)

(* str(int) *)
Fixpoint dec_digits (fuel : nat) (n : N) (acc : ustr) : ustr :=
  match fuel with
  | O => acc
  | S f => if n <? 10 then (48 + n) :: acc
           else dec_digits f (n / 10) ((48 + n mod 10) :: acc)
  end.
Definition str_of_N (n : N) : ustr := dec_digits (S (N.to_nat (N.size n))) n [].
Definition str_of_Z (z : Z) : ustr :=
  match z with
  | Z0 => [48]
  | Zpos p => str_of_N (Npos p)
  | Zneg p => 45 :: str_of_N (Npos p)
  end.

(* zero-padded decimal of fixed width (f'{n:04d}', %m, %d, ...); n is assumed to fit *)
Fixpoint pad_digits (width : nat) (n : N) (acc : ustr) : ustr :=
  match width with
  | O => acc
  | S w => pad_digits w (n / 10) ((48 + n mod 10) :: acc)
  end.
Definition zpad (width : nat) (n : N) : ustr :=
  let s := str_of_N n in
  if Nat.leb width (length s) then s else pad_digits width n [].

(* Unicode decimal digits: [nd_starts] is the list of the first code point of each run
   of ten (Nd category), supplied by Gen/PyFacts.v from CPython's unicodedata. *)
Section Digits.
  Variable nd_starts : list N.
  Fixpoint digit_val_in (starts : list N) (c : cp) : option N :=
    match starts with
    | [] => None
    | s :: r => if (s <=? c) && (c <? s + 10) then Some (c - s) else digit_val_in r c
    end.
  Definition digit_val (c : cp) : option N := digit_val_in nd_starts c.
  Definition is_decimal (c : cp) : bool :=
    match digit_val c with Some _ => true | None => false end.

  (* int(s) for a str, base 10: optional surrounding whitespace, optional sign,
     decimal digits with single underscores between digits; more than 4300 digits
     is a ValueError (sys.int_info.default_max_str_digits). None = ValueError. *)
  Fixpoint int_digits (s : ustr) (acc : N) (ndig : N) (prev_digit : bool) : option (N * N) :=
    match s with
    | [] => if prev_digit then Some (acc, ndig) else None
    | c :: r =>
        if c =? 95 (* _ *) then
          (if prev_digit then
             match r with [] => None | _ => int_digits r acc ndig false end
           else None)
        else match digit_val c with
             | Some v => int_digits r (acc * 10 + v) (ndig + 1) true
             | None => None
             end
    end.
  Definition py_int (s : ustr) : option Z :=
    let s := strip_ws s in
    let '(neg, body) :=
      match s with
      | c :: r => if c =? 45 then (true, r) else if c =? 43 then (false, r) else (false, s)
      | [] => (false, s)
      end in
    match body with
    | [] => None
    | c :: _ =>
        if c =? 95 then None else
        match int_digits body 0 0 false with
        | Some (v, nd) => if 4300 <? nd then None
                          else Some (if neg then (- Z.of_N v)%Z else Z.of_N v)
        | None => None
        end
    end.
End Digits.

(* --- hexadecimal ----------------------------------------------------------- *)
Definition hexdig (n : N) : cp := if n <? 10 then 48 + n else 55 + n.     (* upper case *)
Fixpoint hexfmt (k : nat) (n : N) : ustr :=
  match k with O => [] | S k' => hexfmt k' (n / 16) ++ [hexdig (n mod 16)] end.
Definition hexval (c : cp) : option N :=
  if (48 <=? c) && (c <=? 57) then Some (c - 48)
  else if (65 <=? c) && (c <=? 70) then Some (c - 55)
  else if (97 <=? c) && (c <=? 102) then Some (c - 87) else None.
Fixpoint hexparse (k : nat) (s : ustr) (acc : N) : option (N * ustr) :=
  match k with
  | O => Some (acc, s)
  | S k' => match s with
            | [] => None
            | c :: r => match hexval c with
                        | None => None
                        | Some v => hexparse k' r (acc * 16 + v)
                        end
            end
  end.

(* association lists as insertion-ordered dicts keyed by str *)
Fixpoint assoc {A} (k : ustr) (l : list (ustr * A)) : option A :=
  match l with
  | [] => None
  | (k', v) :: r => if ustr_eqb k k' then Some v else assoc k r
  end.
(* d[k] = v : keeps the position of an existing key *)
Fixpoint dict_set {A} (k : ustr) (v : A) (l : list (ustr * A)) : list (ustr * A) :=
  match l with
  | [] => [(k, v)]
  | (k', v') :: r => if ustr_eqb k k' then (k, v) :: r else (k', v') :: dict_set k v r
  end.
Fixpoint dict_del {A} (k : ustr) (l : list (ustr * A)) : list (ustr * A) :=
  match l with
  | [] => []
  | (k', v') :: r => if ustr_eqb k k' then r else (k', v') :: dict_del k r
  end.
Definition mem_str (k : ustr) (l : list ustr) : bool := existsb (ustr_eqb k) l.

(* insertion sort: stable, like sorted(); [ltb] is Python's __lt__ *)
Section Sort.
  Context {A : Type} (ltb : A -> A -> bool).
  Fixpoint insert_sorted (x : A) (l : list A) : list A :=
    match l with
    | [] => [x]
    | y :: r => if ltb y x then y :: insert_sorted x r else x :: l
    end.
  (* stable: [x] (which precedes the elements of [l] in the input) is placed before
     the first element that is not smaller than it *)
  Definition py_sorted (l : list A) : list A := fold_right insert_sorted [] l.
End Sort.

(* s.split(sep) for a one-character separator: never returns an empty list *)
Fixpoint split_sep_aux (sep : cp) (s : ustr) (cur : ustr) : list ustr :=
  match s with
  | [] => [rev cur]
  | x :: s' => if x =? sep then rev cur :: split_sep_aux sep s' [] else split_sep_aux sep s' (x :: cur)
  end.
Definition split_sep (s : ustr) (sep : cp) : list ustr := split_sep_aux sep s [].

(* xs[a:b] for constant non-negative a <= b *)
Definition slice {A} (l : list A) (a b : nat) : list A := firstn (b - a) (skipn a l).
(* xs[i] for a constant index; Python raises IndexError when out of range, the translator
   only emits this under a guard on len *)
Definition nth_str (l : list ustr) (i : nat) : ustr := nth i l [].
Fixpoint strlist_eqb (a b : list ustr) : bool :=
  match a, b with
  | [], [] => true
  | x :: a', y :: b' => ustr_eqb x y && strlist_eqb a' b'
  | _, _ => false
  end.
Definition len {A} (l : list A) : Z := Z.of_nat (length l).
