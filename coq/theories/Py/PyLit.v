(* string literals for specifications and glue: u "abc" is the list of code points *)
From Coq Require Import String Ascii.
From Gemato Require Import Py.PyStr.
Definition u (s : string) : list N := map N_of_ascii (list_ascii_of_string s).
