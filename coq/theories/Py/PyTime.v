(* datetime.strptime(s, '%Y-%m-%dT%H:%M:%SZ'), the matching strftime, and
   naive-datetime -> POSIX timestamp conversion.  Modelled after CPython 3.12
   Lib/_strptime.py (regex alternatives, IGNORECASE, Unicode \d) and validated
   against it by the harness. *)
From Gemato Require Import Py.PyStr.
Open Scope N_scope.

Record datetime := mkdt { dt_y : N; dt_mo : N; dt_d : N; dt_h : N; dt_mi : N; dt_s : N }.

Definition dt_eqb (a b : datetime) : bool :=
  (dt_y a =? dt_y b) && (dt_mo a =? dt_mo b) && (dt_d a =? dt_d b)
  && (dt_h a =? dt_h b) && (dt_mi a =? dt_mi b) && (dt_s a =? dt_s b).
Definition dt_key (a : datetime) : N :=
  ((((dt_y a * 13 + dt_mo a) * 32 + dt_d a) * 24 + dt_h a) * 60 + dt_mi a) * 60 + dt_s a.
Definition dt_ltb (a b : datetime) : bool := dt_key a <? dt_key b.

Definition is_leap (y : N) : bool :=
  ((y mod 4 =? 0) && negb (y mod 100 =? 0)) || (y mod 400 =? 0).
Definition days_in_month (y m : N) : N :=
  if m =? 2 then (if is_leap y then 29 else 28)
  else if (m =? 4) || (m =? 6) || (m =? 9) || (m =? 11) then 30 else 31.
Definition dt_valid (a : datetime) : bool :=
  (1 <=? dt_y a) && (dt_y a <=? 9999) && (1 <=? dt_mo a) && (dt_mo a <=? 12)
  && (1 <=? dt_d a) && (dt_d a <=? days_in_month (dt_y a) (dt_mo a))
  && (dt_h a <=? 23) && (dt_mi a <=? 59) && (dt_s a <=? 59).

Section Strptime.
  Variable nd_starts : list N.
  Notation digit_val := (digit_val nd_starts).

  (* one regex atom of the directive patterns *)
  Inductive atom :=
  | ARange (lo hi : N)     (* ASCII digit range [lo-hi], given as digit values *)
  | ADigit                 (* \d : any Unicode decimal digit *)
  | ASpace.                (* a literal space (in %d's " [1-9]") *)

  Definition match_atom (a : atom) (c : cp) : option (option N) :=
    match a with
    | ARange lo hi => if (48 + lo <=? c) && (c <=? 48 + hi) then Some (Some (c - 48)) else None
    | ADigit => match digit_val c with Some v => Some (Some v) | None => None end
    | ASpace => if c =? 32 then Some None else None
    end.

  (* match a sequence of atoms; returns the int() value of the matched text *)
  Fixpoint match_atoms (al : list atom) (s : ustr) (acc : N) : option (N * ustr) :=
    match al with
    | [] => Some (acc, s)
    | a :: al' =>
        match s with
        | [] => None
        | c :: r => match match_atom a c with
                    | Some (Some v) => match_atoms al' r (acc * 10 + v)
                    | Some None => match_atoms al' r acc
                    | None => None
                    end
        end
    end.

  (* all ways an alternation can match a prefix of s, in priority order *)
  Definition match_alts (alts : list (list atom)) (s : ustr) : list (N * ustr) :=
    flat_map (fun al => match match_atoms al s 0 with Some r => [r] | None => [] end) alts.

  Definition pat_Y := [[ADigit; ADigit; ADigit; ADigit]].
  Definition pat_m := [[ARange 1 1; ARange 0 2]; [ARange 0 0; ARange 1 9]; [ARange 1 9]].
  Definition pat_d := [[ARange 3 3; ARange 0 1]; [ARange 1 2; ADigit]; [ARange 0 0; ARange 1 9];
                       [ARange 1 9]; [ASpace; ARange 1 9]].
  Definition pat_H := [[ARange 2 2; ARange 0 3]; [ARange 0 1; ADigit]; [ADigit]].
  Definition pat_M := [[ARange 0 5; ADigit]; [ADigit]].
  Definition pat_S := [[ARange 6 6; ARange 0 1]; [ARange 0 5; ADigit]; [ADigit]].

  (* literal, compared case-insensitively (re.IGNORECASE); [lit] is given upper-case *)
  Definition match_lit (lit : cp) (s : ustr) : list ustr :=
    match s with
    | c :: r => if (c =? lit) || ((65 <=? lit) && (lit <=? 90) && (c =? lit + 32)) then [r] else []
    | [] => []
    end.

  (* backtracking matcher for the whole format; first success wins (regex semantics);
     the match must consume the whole string ("unconverted data remains" otherwise) *)
  Definition strptime_matches (s : ustr) : list (datetime * ustr) :=
    flat_map (fun '(y, s1) => flat_map (fun s1' =>
    flat_map (fun '(mo, s2) => flat_map (fun s2' =>
    flat_map (fun '(d, s3) => flat_map (fun s3' =>
    flat_map (fun '(h, s4) => flat_map (fun s4' =>
    flat_map (fun '(mi, s5) => flat_map (fun s5' =>
    flat_map (fun '(sec, s6) => flat_map (fun s6' => [(mkdt y mo d h mi sec, s6')])
      (match_lit 90 s6)) (match_alts pat_S s5'))
      (match_lit 58 s5)) (match_alts pat_M s4'))
      (match_lit 58 s4)) (match_alts pat_H s3'))
      (match_lit 84 s3)) (match_alts pat_d s2'))
      (match_lit 45 s2)) (match_alts pat_m s1'))
      (match_lit 45 s1)) (match_alts pat_Y s).

  (* None = ValueError *)
  Definition strptime (s : ustr) : option datetime :=
    match strptime_matches s with
    | (dt, rest) :: _ =>
        match rest with
        | [] => if dt_valid dt then Some dt else None
        | _ => None
        end
    | [] => None
    end.
End Strptime.

(* f'{year:04d}' + strftime('-%m-%dT%H:%M:%SZ') *)
Definition strftime (a : datetime) : ustr :=
  zpad 4 (dt_y a) ++ [45] ++ zpad 2 (dt_mo a) ++ [45] ++ zpad 2 (dt_d a) ++ [84]
  ++ zpad 2 (dt_h a) ++ [58] ++ zpad 2 (dt_mi a) ++ [58] ++ zpad 2 (dt_s a) ++ [90].

(* days from 1970-01-01 to y-m-d (proleptic Gregorian), Howard Hinnant's algorithm *)
Open Scope Z_scope.
Definition days_from_civil (y m d : Z) : Z :=
  let y := if m <=? 2 then y - 1 else y in
  let era := (if y >=? 0 then y else y - 399) / 400 in
  let yoe := y - era * 400 in
  let mp := (m + 9) mod 12 in
  let doy := (153 * mp + 2) / 5 + d - 1 in
  let doe := yoe * 365 + yoe / 4 - yoe / 100 + doy in
  era * 146097 + doe - 719468.
(* seconds since the epoch of the naive datetime read as UTC *)
Definition utc_epoch (a : datetime) : Z :=
  days_from_civil (Z.of_N (dt_y a)) (Z.of_N (dt_mo a)) (Z.of_N (dt_d a)) * 86400
  + Z.of_N (dt_h a) * 3600 + Z.of_N (dt_mi a) * 60 + Z.of_N (dt_s a).
