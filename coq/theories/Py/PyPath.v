(* posixpath functions used by gemato, and UTF-8.  Modelled after CPython's posixpath; validated
   against it by the harness on every run. *)
From Gemato Require Import Py.PyStr.
Open Scope N_scope.

Definition sl : N := 47.

(* os.path.join(a, b) *)
Definition pjoin (a b : list N) : list N :=
  match b with
  | c :: _ => if c =? sl then b else
      match a with
      | [] => b
      | _ => if py_endswith a [sl] then a ++ b else a ++ [sl] ++ b
      end
  | [] => match a with [] => [] | _ => if py_endswith a [sl] then a else a ++ [sl] end
  end.

(* split at the last slash: (everything up to and including it, the rest) *)
Fixpoint span_noslash (s : list N) : list N * list N :=
  match s with
  | [] => ([], [])
  | c :: r => if c =? sl then ([], s) else let '(a, b) := span_noslash r in (c :: a, b)
  end.
Definition rsplit_slash (s : list N) : list N * list N :=
  let '(a, b) := span_noslash (rev s) in (rev b, rev a).

(* os.path.basename *)
Definition basename (p : list N) : list N := snd (rsplit_slash p).
(* os.path.dirname: head up to the last slash, trailing slashes stripped unless it is all slashes *)
Definition dirname (p : list N) : list N :=
  let h := fst (rsplit_slash p) in
  if forallb (N.eqb sl) h then h else py_rstrip h [sl].

(* os.path.splitext: the extension starts at the last dot of the last component, provided some
   character other than a dot precedes it there *)
Fixpoint break_dot (s acc : list N) : option (list N * list N) :=
  match s with
  | [] => None
  | c :: r => if c =? 46 then Some (acc, r) else break_dot r (c :: acc)
  end.
Definition splitext (p : list N) : list N * list N :=
  let '(h, b) := rsplit_slash p in
  match break_dot (rev b) [] with
  | None => (p, [])
  | Some (post, pre_rev) =>
      if existsb (fun c => negb (c =? 46)) pre_rev then (h ++ rev pre_rev, 46 :: post) else (p, [])
  end.

(* components of a path, for normalised relative paths *)
Definition components (p : list N) : list (list N) :=
  match p with [] => [] | _ => split_sep p sl end.

(* normalised relative path: no empty, "." or ".." components, not absolute, no trailing slash *)
Definition is_dot (c : list N) : bool := ustr_eqb c [46].
Definition is_dotdot (c : list N) : bool := ustr_eqb c [46; 46].
Definition norm_rel (p : list N) : bool :=
  forallb (fun c => negb (match c with [] => true | _ => false end) && negb (is_dot c) && negb (is_dotdot c)) (components p).

(* os.path.normpath on a relative path (lexical) *)
Fixpoint normpath_comps (cs : list (list N)) (acc : list (list N)) : list (list N) :=
  match cs with
  | [] => rev acc
  | c :: r =>
      match c with
      | [] => normpath_comps r acc
      | _ => if is_dot c then normpath_comps r acc
             else if is_dotdot c then
               match acc with
               | a :: acc' => if is_dotdot a then normpath_comps r (c :: acc) else normpath_comps r acc'
               | [] => normpath_comps r (c :: acc)
               end
             else normpath_comps r (c :: acc)
      end
  end.
(* os.path.relpath(path, start) for relative path and start living under the same (unknown)
   current directory: lexical *)
Fixpoint strip_common (a b : list (list N)) : list (list N) * list (list N) :=
  match a, b with
  | x :: a', y :: b' => if ustr_eqb x y then strip_common a' b' else (a, b)
  | _, _ => (a, b)
  end.
Definition relpath (path start : list N) : list N :=
  let p := normpath_comps (split_sep path sl) [] in
  let s := normpath_comps (split_sep start sl) [] in
  let '(p', s') := strip_common p s in
  match map (fun _ => [46; 46]) s' ++ p' with
  | [] => [46]
  | l => join [sl] l
  end.

(* ---- UTF-8 ------------------------------------------------------------------------ *)
Definition utf8_encode_cp (c : N) : option (list N) :=
  if c <? 128 then Some [c]
  else if c <? 2048 then Some [192 + c / 64; 128 + c mod 64]
  else if c <? 65536 then
    (if (55296 <=? c) && (c <=? 57343) then None      (* surrogates cannot be encoded *)
     else Some [224 + c / 4096; 128 + (c / 64) mod 64; 128 + c mod 64])
  else if c <=? 1114111 then Some [240 + c / 262144; 128 + (c / 4096) mod 64; 128 + (c / 64) mod 64; 128 + c mod 64]
  else None.
Fixpoint utf8_encode (s : list N) : option (list N) :=
  match s with
  | [] => Some []
  | c :: r => match utf8_encode_cp c, utf8_encode r with
              | Some a, Some b => Some (a ++ b)
              | _, _ => None
              end
  end.
Definition is_cont (b : N) : bool := (128 <=? b) && (b <? 192).
Fixpoint utf8_decode_fuel (fuel : nat) (s : list N) : option (list N) :=
  match fuel with
  | O => None
  | S f =>
      match s with
      | [] => Some []
      | b :: r =>
          if b <? 128 then option_map (cons b) (utf8_decode_fuel f r)
          else if (194 <=? b) && (b <? 224) then
            match r with
            | b1 :: r' => if is_cont b1 then option_map (cons ((b - 192) * 64 + (b1 - 128))) (utf8_decode_fuel f r') else None
            | _ => None
            end
          else if (224 <=? b) && (b <? 240) then
            match r with
            | b1 :: b2 :: r' =>
                let c := (b - 224) * 4096 + (b1 - 128) * 64 + (b2 - 128) in
                if is_cont b1 && is_cont b2 && (2048 <=? c) && negb ((55296 <=? c) && (c <=? 57343))
                then option_map (cons c) (utf8_decode_fuel f r') else None
            | _ => None
            end
          else if (240 <=? b) && (b <? 245) then
            match r with
            | b1 :: b2 :: b3 :: r' =>
                let c := (b - 240) * 262144 + (b1 - 128) * 4096 + (b2 - 128) * 64 + (b3 - 128) in
                if is_cont b1 && is_cont b2 && is_cont b3 && (65536 <=? c) && (c <=? 1114111)
                then option_map (cons c) (utf8_decode_fuel f r') else None
            | _ => None
            end
          else None
      end
  end.
Definition utf8_decode (s : list N) : option (list N) := utf8_decode_fuel (S (length s)) s.
