(* C05 specification: when is an OpenPGP signature accepted?  Written against GnuPG's status
   vocabulary (doc/DETAILS), not against anything in gemato's source. *)
From Coq Require Import String.
From Gemato Require Import Py.PyStr Py.PyLit Model.Entry Model.OpenPGP.
Open Scope N_scope.
Open Scope string_scope.

Definition P_GOODSIG := u "[GNUPG:] GOODSIG".
Definition P_EXPKEYSIG := u "[GNUPG:] EXPKEYSIG".
Definition P_REVKEYSIG := u "[GNUPG:] REVKEYSIG".
Definition P_VALIDSIG := u "[GNUPG:] VALIDSIG".
Definition P_TRUST := u "[GNUPG:] TRUST_".

(* key validity words gpg prints, weakest first *)
Definition TRUST_UNDEFINED := u "TRUST_UNDEFINED".
Definition TRUST_NEVER := u "TRUST_NEVER".
Definition TRUST_MARGINAL := u "TRUST_MARGINAL".
Definition TRUST_FULLY := u "TRUST_FULLY".
Definition TRUST_ULTIMATE := u "TRUST_ULTIMATE".
Definition sufficient_validity : list (list N) := [TRUST_MARGINAL; TRUST_FULLY; TRUST_ULTIMATE].

Definition has (p : list N) (ls : list (list N)) : bool := existsb (fun l => py_startswith l p) ls.

(* a VALIDSIG report as gpg prints it: at least 12 space-separated fields with two timestamps *)
Definition wf_validsig (l : list N) : bool :=
  let f := bsplit_sp l in (12 <=? List.length f)%nat && ts_ok (nth 4 f []) && ts_ok (nth 5 f []).
Definition validity_sufficient (l : list N) : bool :=
  py_startswith l P_TRUST &&
  match second_field l with Some w => mem_bytes w sufficient_validity | None => false end.

(* good, valid, sufficiently trusted, not expired, not revoked, backend exited successfully *)
Definition accept_spec (exitst : Z) (ls : list (list N)) : bool :=
  Z.eqb exitst 0 && negb (has P_EXPKEYSIG ls) && negb (has P_REVKEYSIG ls) &&
  has P_GOODSIG ls && has P_VALIDSIG ls && existsb validity_sufficient ls.

(* the failure that must be raised otherwise *)
Definition first_key_failure (ls : list (list N)) : option pgpfail :=
  match find (fun l => py_startswith l P_EXPKEYSIG || py_startswith l P_REVKEYSIG) ls with
  | Some l => Some (if py_startswith l P_EXPKEYSIG then PGPExpiredKey else PGPRevokedKey)
  | None => None
  end.
Definition failure_spec (exitst : Z) (ls : list (list N)) : pgpfail :=
  if negb (Z.eqb exitst 0) then PGPVerification else
  match first_key_failure ls with
  | Some k => k
  | None => if has P_GOODSIG ls && has P_VALIDSIG ls then PGPUntrustedSig else PGPUnknownSig
  end.

(* raising the validity of the signing key *)
Definition raise_word (w : list N) : list N :=
  if ustr_eqb w TRUST_MARGINAL then TRUST_FULLY
  else if ustr_eqb w TRUST_FULLY then TRUST_ULTIMATE else w.
