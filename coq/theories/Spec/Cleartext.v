(* C04 specification: the OpenPGP cleartext framework of a Manifest, declaratively.
   Nothing here mentions the loader's state machine. *)
From Gemato Require Import Py.PyStr Model.Entry Model.Text.
Open Scope N_scope.

(* split at the first element satisfying [stop] *)
Fixpoint break {A} (stop : A -> bool) (l : list A) : list A * list A :=
  match l with
  | [] => ([], [])
  | x :: r => if stop x then ([], l) else let '(a, b) := break stop r in (x :: a, b)
  end.

Definition blank_line (l : ustr) : bool := match split_ws (strip_ws l) with [] => true | _ => false end.
Definition ws_only (l : ustr) : bool := match strip_ws l with [] => true | _ => false end.

Record framework := mk_fw { fw_pre : list ustr; fw_begin : ustr; fw_hdr : list ustr; fw_sep : ustr;
                            fw_body : list ustr; fw_sigbegin : ustr; fw_sig : list ustr; fw_end : ustr;
                            fw_post : list ustr }.

(* the unique decomposition around the first BEGIN-SIGNED line, the first whitespace-only
   line after it, the first BEGIN-SIGNATURE line after that, the first END-SIGNATURE line *)
Definition find_framework (lines : list ustr) : option framework :=
  match break (fun l => ustr_eqb l l_begin_signed) lines with
  | (pre, b :: r1) =>
      match break ws_only r1 with
      | (hdr, sep :: r2) =>
          match break (fun l => ustr_eqb l l_begin_sig) r2 with
          | (body, sb :: r3) =>
              match break (fun l => ustr_eqb l l_end_sig) r3 with
              | (sig, e :: post) => Some (mk_fw pre b hdr sep body sb sig e post)
              | _ => None
              end
          | _ => None
          end
      | _ => None
      end
  | _ => None
  end.

(* RFC 4880 dash-unescaping of one line *)
Definition dash_unescape (l : ustr) : ustr := if py_startswith l [45; 32] then skipn 2 l else l.

(* the entries of a list of cleartext lines: every non-blank line is one entry; an
   armor-like line is an error *)
Fixpoint lines_entries (ls : list ustr) : res (list entry) :=
  match ls with
  | [] => Ok []
  | l :: r =>
      if is_armor_line l then Err XSyntax else
      oe <- parse_line l ;; t <- lines_entries r ;;
      Ok (match oe with Some e => e :: t | None => t end)
  end.

Definition signed_slice (f : framework) : ustr :=
  concat ([fw_begin f] ++ fw_hdr f ++ [fw_sep f] ++ fw_body f ++ [fw_sigbegin f] ++ fw_sig f ++ [fw_end f]).

(* structural equality of entries (checksum lists compared in order) *)
Fixpoint sums_seqb (a b : sums) : bool :=
  match a, b with
  | [], [] => true
  | (k, v) :: a', (k', v') :: b' => ustr_eqb k k' && ustr_eqb v v' && sums_seqb a' b'
  | _, _ => false
  end.
Definition entry_seqb (a b : entry) : bool :=
  match a, b with
  | ETs x, ETs y => PyTime.dt_eqb x y
  | EIgn p, EIgn q => ustr_eqb p q
  | EFile t p a s c, EFile t' p' a' s' c' =>
      tag_eqb t t' && ustr_eqb p p' && ustr_eqb a a' && Z.eqb s s' && sums_seqb c c'
  | _, _ => false
  end.
Fixpoint entries_seqb (a b : list entry) : bool :=
  match a, b with
  | [], [] => true
  | x :: a', y :: b' => entry_seqb x y && entries_seqb a' b'
  | _, _ => false
  end.

(* The C04 checker: given the text, the entries obtained and the text handed to signature
   verification, decide whether exactly the signed content was used. *)
Definition c04_b (text : ustr) (es : list entry) (pgp : ustr) : bool :=
  match find_framework (py_lines text) with
  | None => false
  | Some f =>
      forallb blank_line (fw_pre f) && forallb blank_line (fw_post f) &&
      forallb (fun l => negb (is_armor_line l)) (fw_sig f) &&      (* no misplaced armor in the signature block *)
      ustr_eqb pgp (signed_slice f) &&
      match lines_entries (map dash_unescape (fw_body f)) with
      | Ok es' => entries_seqb es es'
      | Err _ => false
      end
  end.
