(* C15 specification: which Manifest must top-level discovery return?  Declarative, over an
   abstract view of the ancestor chain; it does not mention the search loop. *)
From Gemato Require Import Py.PyStr Gen.Util Model.Entry Model.Text Model.FindTop.
Open Scope N_scope.

(* one ancestor directory: its device, whether it is the root directory, and the first present
   Manifest file (name, device of the file, parsed entries) if any *)
Record lview := mk_lview { v_dev : N; v_root : bool; v_man : option (ustr * N * list entry) }.

Definition first_manifest (names : list ustr) (lv : level) : res (option (ustr * N * list entry)) :=
  (fix go (ns : list ustr) :=
     match ns with
     | [] => Ok None
     | n :: r => match lookup_file lv n with
                 | FAbsent => go r
                 | FErr e => Err e
                 | FText fdev text => '(es, _) <- load text false ;; Ok (Some (n, fdev, es))
                 end
     end) names.

Definition view_of (names : list ustr) (lv : level) : option lview :=
  match lv_stat lv, first_manifest names lv with
  | Ok (dev, root), Ok m => Some (mk_lview dev root m)
  | _, _ => None
  end.

Section Spec.
  Variable vs : list lview.           (* from the start directory upwards *)
  Variable comps : list ustr.         (* components of the canonical start path *)
  Variable allow_xdev : bool.

  Definition dev0 : N := match vs with v :: _ => v_dev v | [] => 0 end.

  (* the Manifest of level i IGNOREs the start path (whole path components: find_path_entry
     uses the component-wise path_starts_with) *)
  Definition ignores (i : nat) (v : lview) : bool :=
    match v_man v with
    | Some (_, _, es) => match find_path_entry es (relpath_up comps i) with Some (EIgn _) => true | _ => false end
    | None => false
    end.
  Definition other_device (v : lview) : bool :=
    negb allow_xdev &&
    (negb (v_dev v =? dev0) || match v_man v with Some (_, fdev, _) => negb (fdev =? dev0) | None => false end).
  (* the upward walk may not use level i, nor anything above it *)
  Definition stops (i : nat) (v : lview) : bool := other_device v || ignores i v.

  Definition reachable (j : nat) : Prop :=
    (forall k v, (k <= j)%nat -> nth_error vs k = Some v -> stops k v = false) /\
    (forall k v, (k < j)%nat -> nth_error vs k = Some v -> v_root v = false) /\
    (j < length vs)%nat.
  Definition man_name (j : nat) : option ustr :=
    match nth_error vs j with Some v => match v_man v with Some (n, _, _) => Some n | None => None end | None => None end.

  (* the outermost reachable level that has a Manifest, or nothing *)
  Definition is_answer (r : option (nat * ustr)) : Prop :=
    match r with
    | Some (j, n) => reachable j /\ man_name j = Some n /\
                     forall j', (j < j')%nat -> reachable j' -> man_name j' = None
    | None => forall j', reachable j' -> man_name j' = None
    end.
End Spec.
