(* ManifestFile.load / dump of gemato/manifest.py: the OpenPGP cleartext state machine
   and the entry reader/writer (hand-written model, no proofs here). *)
From Gemato Require Import Py.PyStr Py.PyTime Gen.PyFacts Gen.Tables Gen.Util Model.Entry.
Open Scope N_scope.

Inductive mstate := SData | SPreamble | SSigned | SSignature | SPost.

Definition nl : cp := 10.
Definition dashes5 : ustr := [45;45;45;45;45].
(* "-----BEGIN PGP SIGNED MESSAGE-----\n" etc. *)
Definition l_begin_signed : ustr :=
  dashes5 ++ [66;69;71;73;78;32;80;71;80;32;83;73;71;78;69;68;32;77;69;83;83;65;71;69] ++ dashes5 ++ [nl].
Definition l_begin_sig : ustr :=
  dashes5 ++ [66;69;71;73;78;32;80;71;80;32;83;73;71;78;65;84;85;82;69] ++ dashes5 ++ [nl].
Definition l_end_sig : ustr :=
  dashes5 ++ [69;78;68;32;80;71;80;32;83;73;71;78;65;84;85;82;69] ++ dashes5 ++ [nl].

Record lstate := mk_ls { ls_state : mstate; ls_entries : list entry (* reversed *);
                         ls_pgp : ustr (* openpgp_data, reversed chunks concatenated *) }.

(* one line of a Manifest body: split, look the tag up, parse *)
Definition parse_line (line : ustr) : res (option entry) :=
  match split_ws (strip_ws line) with
  | [] => Ok None
  | t :: rest =>
      match lookup_tag t with
      | None => Err XSyntax                      (* KeyError -> ManifestSyntaxError *)
      | Some tg => e <- from_list tg (t :: rest) ;; Ok (Some e)
      end
  end.

Definition is_armor_line (line : ustr) : bool :=
  py_startswith line dashes5 && py_endswith (rstrip_ws line) dashes5.

(* the part of the loop body after the per-state prologue *)
Definition step_tail (verify : bool) (st : mstate) (entries : list entry) (pgp : ustr) (line : ustr)
  : res lstate :=
  if is_armor_line line then Err XSyntax else
  match st with
  | SPreamble | SSignature => Ok (mk_ls st entries pgp)
  | _ =>
      match split_ws (strip_ws line) with
      | [] => Ok (mk_ls st entries pgp)
      | t :: rest =>
          match st with
          | SPost => Err XUnsigned
          | _ =>
              match lookup_tag t with
              | None => Err XSyntax
              | Some tg => e <- from_list tg (t :: rest) ;; Ok (mk_ls st (e :: entries) pgp)
              end
          end
      end
  end.

Definition load_step (verify : bool) (s : lstate) (line : ustr) : res lstate :=
  let st := ls_state s in let es := ls_entries s in let pgp := ls_pgp s in
  let pgp' := if verify then pgp ++ line else pgp in
  match st with
  | SData =>
      if ustr_eqb line l_begin_signed then
        match es with
        | _ :: _ => Err XUnsigned
        | [] => Ok (mk_ls SPreamble es pgp')
        end
      else step_tail verify st es pgp line
  | SPreamble =>
      match strip_ws line with
      | _ :: _ => Ok (mk_ls SPreamble es pgp')          (* header line: `continue` *)
      | [] => step_tail verify SSigned es pgp' line
      end
  | SSigned =>
      if ustr_eqb line l_begin_sig then Ok (mk_ls SSignature es pgp')
      else
        let line' := if py_startswith line [45;32] then skipn 2 line else line in
        step_tail verify SSigned es pgp' line'
  | SSignature =>
      if ustr_eqb line l_end_sig then Ok (mk_ls SPost es pgp')
      else step_tail verify SSignature es pgp' line
  | SPost => step_tail verify SPost es pgp line
  end.

Fixpoint load_lines (verify : bool) (s : lstate) (ls : list ustr) : res lstate :=
  match ls with
  | [] => Ok s
  | l :: r => s' <- load_step verify s l ;; load_lines verify s' r
  end.

(* Result of ManifestFile.load(f, verify_openpgp, env) up to the call of env.verify_file:
   the entries, and Some text when a signature has to be verified (state POST_SIGNED_DATA
   and verify_openpgp), i.e. exactly what is handed to verify_file. *)
Definition load (text : ustr) (verify : bool) : res (list entry * option ustr) :=
  s <- load_lines verify (mk_ls SData [] []) (py_lines text) ;;
  match ls_state s with
  | SPreamble | SSigned | SSignature => Err XSyntax
  | SPost => Ok (rev (ls_entries s), if verify then Some (ls_pgp s) else None)
  | SData => Ok (rev (ls_entries s), None)
  end.

(* dump with sign_openpgp false: ' '.join(e.to_list()) + '\n' for each entry *)
Fixpoint dump_entries (es : list entry) : res ustr :=
  match es with
  | [] => Ok []
  | e :: r => l <- to_list e ;; t <- dump_entries r ;; Ok (join [32] l ++ [nl] ++ t)
  end.
Definition dump (es : list entry) (sort : bool) : res ustr :=
  dump_entries (if sort then py_sorted entry_ltb es else es).
