(* gemato/hash.py: hash_file over a read schedule, get_hash_by_name, SizeHash; and the
   Manifest-name -> hashlib-name mapping of manifest.py / verify.py. *)
From Gemato Require Import Py.PyStr Gen.Tables Model.Entry.
Open Scope N_scope.

(* a hashlib-like streaming object, abstract: the state after init/updates and its hexdigest *)
Record hashlib := mk_hashlib {
  hl_state : Type;
  hl_new : ustr -> hl_state;                 (* hashlib.new(name) *)
  hl_update : hl_state -> bytes -> hl_state;
  hl_hexdigest : hl_state -> res ustr        (* res: the executable instance may report an oracle miss *)
}.

Definition s_size : ustr := [95;95;115;105;122;101;95;95].      (* "__size__" *)

Inductive hval := HStr (s : ustr) | HInt (n : N).

Section HashFile.
  Variable L : hashlib.
  Variable available : list ustr.            (* hashlib.algorithms_available *)

  Inductive hobj := OSize (n : N) | OLib (s : hl_state L).

  (* get_hash_by_name *)
  Definition get_hash_by_name (name : ustr) : res hobj :=
    if ustr_eqb name s_size then Ok (OSize 0)
    else if mem_str name available then Ok (OLib (hl_new L name))
    else Err (XUnsupportedHash name).

  Definition obj_update (o : hobj) (block : bytes) : hobj :=
    match o with
    | OSize n => OSize (n + N.of_nat (length block))
    | OLib s => OLib (hl_update L s block)
    end.
  Definition obj_hex (o : hobj) : res hval :=
    match o with
    | OSize n => Ok (HInt n)
    | OLib s => d <- hl_hexdigest L s ;; Ok (HStr d)
    end.

  Fixpoint make_hashes (names : list ustr) (acc : list (ustr * hobj)) : res (list (ustr * hobj)) :=
    match names with
    | [] => Ok acc
    | n :: r => o <- get_hash_by_name n ;; make_hashes r (dict_set n o acc)
    end.

  Definition update_all (hs : list (ustr * hobj)) (block : bytes) : list (ustr * hobj) :=
    map (fun kv => (fst kv, obj_update (snd kv) block)) hs.

  (* for block in iter(lambda: f.read1(HASH_BUFFER_SIZE), b''): stops at the first empty block *)
  Fixpoint feed (hs : list (ustr * hobj)) (schedule : list bytes) : list (ustr * hobj) :=
    match schedule with
    | [] => hs
    | b :: r => match b with [] => hs | _ => feed (update_all hs b) r end
    end.

  Fixpoint finish (hs : list (ustr * hobj)) : res (list (ustr * hval)) :=
    match hs with
    | [] => Ok []
    | (k, o) :: r => v <- obj_hex o ;; t <- finish r ;; Ok ((k, v) :: t)
    end.

  (* hash_file(f, hash_names, _apparent_size): [schedule] is what successive read1() calls
     return, [whole] what a single read() returns *)
  Definition hash_file (names : list ustr) (schedule : list bytes) (whole : bytes) (hint : N)
    : res (list (ustr * hval)) :=
    hs <- make_hashes names [] ;;
    if negb (hint =? 0) && (hint <? MAX_SLURP_SIZE)
    then finish (update_all hs whole)
    else finish (feed hs schedule).
End HashFile.

(* manifest_hashes_to_hashlib: unknown Manifest names are reported as UnsupportedHash *)
Fixpoint manifest_hashes_to_hashlib (hashes : list ustr) : res (list ustr) :=
  match hashes with
  | [] => Ok []
  | h :: r => match assoc h manifest_hash_mapping with
              | Some n => t <- manifest_hashes_to_hashlib r ;; Ok (n :: t)
              | None => Err (XUnsupportedHash h)
              end
  end.
