(* gemato/recursiveloader.py, the writing side: load_unregistered_manifests,
   get_deduplicated_file_entry_dict_for_update, update_entries_for_directory, save_manifest(s),
   set_timestamp.  Entry objects are mutated in place in Python: entries carry identities. *)
From Gemato Require Import Py.PyStr Py.PyPath Py.PyTime Gen.Tables Gen.Util Gen.Profile
  Model.Entry Model.Text Model.OpenPGP Model.Hash Model.FS Model.Verify Model.Loader.
Open Scope N_scope.

(* ---- entry objects inside Manifest objects -------------------------------------------------- *)
Definition get_m (l : loader) (mpath : list N) : option mfile := assoc mpath (l_loaded l).
Definition put_m (l : loader) (mpath : list N) (m : mfile) : loader :=
  set_loaded l (dict_set mpath m (l_loaded l)).
(* the key [k] becomes [k'], in place *)
Definition dict_rename {A} (k k' : list N) (d : list (list N * A)) : list (list N * A) :=
  map (fun kv => if ustr_eqb (fst kv) k then (k', snd kv) else kv) d.

Fixpoint find_id (es : list (N * entry)) (id : N) : option entry :=
  match es with [] => None | (j, e) :: r => if id =? j then Some e else find_id r id end.
Fixpoint set_id (es : list (N * entry)) (id : N) (e' : entry) : list (N * entry) :=
  match es with [] => [] | (j, e) :: r => if id =? j then (j, e') :: r else (j, e) :: set_id r id e' end.
(* list.remove(x): drop the first element that compares equal (==) to x; returns the removed
   object too (it may be another object than x itself: D11) *)
Fixpoint remove_eq (es : list (N * entry)) (x : entry) : option (list (N * entry) * (N * entry)) :=
  match es with
  | [] => None                                       (* ValueError *)
  | (j, e) :: r => if entry_eqb e x then Some (r, (j, e))
                   else match remove_eq r x with Some (r', d) => Some ((j, e) :: r', d) | None => None end
  end.

(* the current value of an entry object: in the list of its Manifest, or detached from it *)
Definition entry_at (l : loader) (mpath : list N) (id : N) : option entry :=
  match (match get_m l mpath with Some m => find_id (mf_entries m) id | None => None end) with
  | Some e => Some e
  | None => find_id (l_detached l) id
  end.
Definition set_entry_at (l : loader) (mpath : list N) (id : N) (e' : entry) : loader :=
  match get_m l mpath with
  | Some m =>
      match find_id (mf_entries m) id with
      | Some _ => put_m l mpath (mk_mf (set_id (mf_entries m) id e') (mf_signed m))
      | None => set_detached l (set_id (l_detached l) id e')
      end
  | None => set_detached l (set_id (l_detached l) id e')
  end.
Definition append_entry (l : loader) (mpath : list N) (e : entry) : loader :=
  match get_m l mpath with
  | Some m => set_next (put_m l mpath (mk_mf (mf_entries m ++ [(l_next l, e)]) (mf_signed m))) (l_next l + 1)
  | None => l
  end.
Definition remove_entry_eq (l : loader) (mpath : list N) (x : entry) : res loader :=
  match get_m l mpath with
  | Some m => match remove_eq (mf_entries m) x with
              | Some (es, d) => Ok (set_detached (put_m l mpath (mk_mf es (mf_signed m))) (d :: l_detached l))
              | None => Err (XInternal IValue)
              end
  | None => Err (XInternal IKey)
  end.

Definition with_size_cks (e : entry) (size : Z) (c : sums) : entry :=
  match e with EFile t p a _ _ => EFile t p a size c | _ => e end.
Definition with_path (e : entry) (p : list N) : entry :=
  match e with EFile t _ a s c => EFile t p a s c | EIgn _ => EIgn p | _ => e end.

Definition profile_entry_type (p : profile_id) (path : list N) : list N :=
  match p with
  | PDefault => DefaultProfile_get_entry_type_for_path path
  | PEbuild => EbuildRepositoryProfile_get_entry_type_for_path path
  | POldEbuild => BackwardsCompatEbuildRepositoryProfile_get_entry_type_for_path path
  end.
Definition profile_want_manifest (p : profile_id) (relpath : list N) (dirnames filenames : list (list N)) : bool :=
  match p with
  | PDefault => DefaultProfile_want_manifest_in_directory relpath dirnames filenames
  | PEbuild => EbuildRepositoryProfile_want_manifest_in_directory relpath dirnames filenames
  | POldEbuild => BackwardsCompatEbuildRepositoryProfile_want_manifest_in_directory relpath dirnames filenames
  end.
Definition profile_want_compressed (p : profile_id) (relpath : list N) (tags : list (list N)) (unc wm : Z) : option bool :=
  match p with
  | PDefault => DefaultProfile_want_compressed_manifest relpath tags unc wm
  | PEbuild => EbuildRepositoryProfile_want_compressed_manifest relpath tags unc wm
  | POldEbuild => BackwardsCompatEbuildRepositoryProfile_want_compressed_manifest relpath tags unc wm
  end.
Definition profile_loader_opts (p : profile_id) (o : loader_opts) : loader_opts :=
  match p with
  | PDefault => DefaultProfile_set_loader_options o
  | PEbuild => EbuildRepositoryProfile_set_loader_options o
  | POldEbuild => BackwardsCompatEbuildRepositoryProfile_set_loader_options o
  end.

Definition manifest_names : list (list N) := map (fun s => [77;97;110;105;102;101;115;116] ++ s) potential_suffixes.

Section Update.
  Variable L : hashlib.
  Variable decompress : list N -> list N -> res (list N).
  Variable compress : list N -> list N -> res (list N).
  Variable pgp_verify : list N -> res sigdata.
  Variable pgp_sign : list N -> option (list N) -> res (list N).     (* clear_sign_file(text, keyid) *)
  Variable now : datetime.                                            (* datetime.utcnow() at the start of the scan *)

  Notation load_manifests := (load_manifests_for_path L decompress pgp_verify rounds_fuel).
  Notation upd_entry := (Verify.update_entry_for_path L).

  (* ---- load_unregistered_manifests ------------------------------------------------------ *)
  Fixpoint walk_unreg (fuel : nat) (w : world) (l : loader) (dirpath rel : list N) (ids : ids_map)
                      (ed : edict) (found : list (list N)) : res (ids_map * loader * list (list N)) :=
    match fuel with
    | O => Err XOutOfFuel
    | S f =>
        ents <- p_scandir w dirpath ;;
        let dirnames := map fst (filter snd ents) in
        let filenames := map fst (filter (fun x => negb (snd x)) ents) in
        dst <- p_stat w dirpath ;;
        if match l_dev l with Some d => negb (st_dev dst =? d) | None => false end
        then Err (XCrossDevice dirpath) else
        let dir_id := (st_dev dst, st_ino dst) in
        let parent_ids := match assoc (dirname dirpath) ids with Some x => x | None => [] end in
        if existsb (fun x => (fst x =? fst dir_id) && (snd x =? snd dir_id)) parent_ids
        then Err (XSymlinkLoop dirpath) else
        let dirdict := match assoc rel ed with Some d => d | None => [] end in
        keep <- fold_left (fun (acc : res (list (list N))) d =>
                  kp <- acc ;;
                  if py_startswith d [46] then Ok kp
                  else match assoc d dirdict with
                       | None => Ok (kp ++ [d])
                       | Some (EIgn _) => Ok kp
                       | Some _ => Err (XInternal IAssertion)
                       end) dirnames (Ok []) ;;
        let ids1 := match keep with [] => ids | _ => dict_set dirpath (parent_ids ++ [dir_id]) ids end in
        r <- fold_left (fun (acc : res (loader * list (list N))) mname =>
               '(l0, fnd) <- acc ;;
               if mem_str mname filenames then
                 let fpath := pjoin rel mname in
                 match assoc fpath (l_loaded l0) with
                 | Some _ => Ok (l0, fnd)
                 | None =>
                     (* an IGNOREd file is not part of the tree *)
                     if match assoc mname dirdict with Some _ => true | None => false end then Ok (l0, fnd) else
                     match load_manifest L decompress pgp_verify w l0 fpath None false false with
                     | Ok (l1, _) => Ok (l1, fnd ++ [fpath])
                     | Err XSyntax => Ok (l0, fnd)
                     | Err XBadCompressed => Ok (l0, fnd)
                     | Err e => Err e
                     end
                 end
               else Ok (l0, fnd)) manifest_names (Ok (l, found)) ;;
        fold_left (fun (acc : res (ids_map * loader * list (list N))) d =>
          '(i, l0, fnd) <- acc ;;
          walk_unreg f w l0 (pjoin dirpath d) (pjoin rel d) i ed fnd) keep (Ok (ids1, fst r, snd r))
    end.

  Definition load_unregistered_manifests (w : world) (l : loader) (path : list N) (verify : bool)
    : res (loader * list (list N)) :=
    '(l1, ed) <- get_file_entry_dict L decompress pgp_verify w l path (Some [TIGNORE]) verify ;;
    '(_, l2, found) <- walk_unreg (nodes_fuel w) w l1 (walk_top path) path [] ed [] ;;
    Ok (l2, found).

  (* ---- get_deduplicated_file_entry_dict_for_update ----------------------------------------- *)
  (* out: fullpath -> (mpath, entry identity) *)
  Definition ddict := list (list N * (list N * N)).

  Definition dedup_manifest (l : loader) (out : ddict) (path mpath relpath : list N) : res (loader * ddict) :=
    match get_m l mpath with
    | None => Ok (l, out)
    | Some m0 =>
        r <- fold_left (fun (acc : res (loader * ddict * list entry)) ie =>
               '(l0, o, rm) <- acc ;;
               (* current value of this entry object *)
               match entry_at l0 mpath (fst ie) with
               | None => Ok (l0, o, rm)
               | Some e =>
                   match e_tag e with
                   | TDIST | TTIMESTAMP => Ok (l0, o, rm)
                   | _ =>
                       let fullpath := pjoin relpath (e_path e) in
                       if path_starts_with fullpath path then
                         match assoc fullpath o with
                         | Some (kmpath, kid) =>
                             match entry_at l0 kmpath kid with
                             | None => Err (XInternal IKey)
                             | Some kept =>
                                 '(ok, diff) <- verify_entry_compatibility kept e ;;
                                 if negb ok && match diff with (n, _, _) :: _ => ustr_eqb n s_type | [] => false end
                                 then Err (XIncompatible (e_path kept)) else
                                 let l1 := match e, kept with
                                           | EFile _ _ _ _ c, EFile kt kp ka ks kc =>
                                               (* the preserved entry has changed: its Manifest is queued too *)
                                               add_updated (set_entry_at l0 kmpath kid
                                                 (EFile kt kp ka ks (fold_left (fun acc kv => dict_set (fst kv) (snd kv) acc) c kc))) kmpath
                                           | _, _ => l0
                                           end in
                                 (* the duplicate is removed later, by value, as it is then *)
                                 Ok (l1, o, rm ++ [e])
                             end
                         | None => Ok (l0, dict_set fullpath (mpath, fst ie) o, rm)
                         end
                       else Ok (l0, o, rm)
                   end
               end) (mf_entries m0) (Ok (l, out, [])) ;;
        let '(l1, o1, rm) := r in
        match rm with
        | [] => Ok (l1, o1)
        | _ =>
            l2 <- fold_left (fun (acc : res loader) e => l0 <- acc ;; remove_entry_eq l0 mpath e) rm (Ok l1) ;;
            Ok (add_updated l2 mpath, o1)
        end
    end.

  Definition get_dedup_dict (w : world) (l : loader) (path : list N) (verify : bool) : res (loader * ddict) :=
    l1 <- load_manifests w l path true verify ;;
    fold_left (fun (acc : res (loader * ddict)) kdv =>
      '(l0, o) <- acc ;;
      let '(mpath, relpath, _) := kdv in
      dedup_manifest l0 o path mpath relpath) (iter_manifests l1 path true) (Ok (l1, [])).

  (* ---- update_entries_for_directory -------------------------------------------------------- *)
  Definition stack := list (list N * list N).      (* (manifest path, its directory), innermost last *)

  Fixpoint pop_until (st : stack) (relpath : list N) (fuel : nat) : res stack :=
    match fuel with
    | O => Err XOutOfFuel
    | S f => match rev st with
             | [] => Err (XInternal IIndex)
             | (_, d) :: _ => if path_starts_with relpath d then Ok st else pop_until (removelast st) relpath f
             end
    end.

  Definition mk_new_entry (ftype fpath : list N) : res entry :=
    match lookup_tag ftype with
    | Some TAUX => Ok (EFile TAUX (pjoin s_files fpath) fpath 0 [])
    | Some TTIMESTAMP => Err (XInternal IType)
    | Some TIGNORE => Ok (EIgn fpath)
    | Some t => Ok (EFile t fpath [] 0 [])
    | None => Err (XInternal IKey)
    end.

  Record ustate := mk_us { us_l : loader; us_ed : ddict; us_stack : stack; us_ids : ids_map }.

  (* hashes: the requested Manifest hash names (never None here) *)
  Definition scan_files (w : world) (dirpath rel : list N) (new_manifests : list (list N))
                        (hashes : list (list N)) (last_mtime : option Z)
                        (filenames : list (list N)) (s : ustate)
    : res (ustate * list entry * option (list N)) :=
    fold_left (fun (acc : res (ustate * list entry * option (list N))) f =>
      '(s0, news, lastft) <- acc ;;
      if py_startswith f [46] then Ok (s0, news, lastft) else
      let l0 := us_l s0 in
      let fpath := pjoin rel f in
      let hit := assoc fpath (us_ed s0) in
      let ed' := dict_del fpath (us_ed s0) in
      let s1 := mk_us l0 ed' (us_stack s0) (us_ids s0) in
      match hit with
      | Some (mpath, id) =>
          match entry_at l0 mpath id with
          | None => Err (XInternal IKey)
          | Some fe =>
              match e_tag fe with
              | TIGNORE => Ok (s1, news, lastft)
              | tg =>
                  let stk := if tag_eqb tg TMANIFEST then us_stack s0 ++ [(fpath, rel)] else us_stack s0 in
                  if tag_eqb tg TMANIFEST && mem_str rel (l_updated l0) then Ok (mk_us l0 ed' stk (us_ids s0), news, lastft) else
                  (* entries of a Manifest found only by this run, or of one that is queued for rewriting (its entries may have been
                     completed from dropped duplicates), were never checked: the mtime shortcut does not apply to them *)
                  '(changed, sz, ck) <- upd_entry w (pjoin dirpath f) fe (Some hashes) (l_dev l0)
                                                 (if mem_str mpath new_manifests || mem_str mpath (l_updated l0) then None else last_mtime) ;;
                  let l1 := set_entry_at l0 mpath id (with_size_cks fe sz ck) in
                  let l2 := if changed then add_updated l1 mpath else l1 in
                  Ok (mk_us l2 ed' stk (us_ids s0), news, lastft)
              end
          end
      | None =>
          if ustr_eqb fpath (l_top l0) then Ok (s1, news, lastft) else
          let is_new_m := mem_str fpath new_manifests in
          let ftype := if is_new_m then tag_str TMANIFEST else profile_entry_type (o_profile (l_opts l0)) fpath in
          let stk := if is_new_m then us_stack s0 ++ [(fpath, rel)] else us_stack s0 in
          fe <- mk_new_entry ftype fpath ;;
          if mem_str rel (l_updated l0) then Ok (mk_us l0 ed' stk (us_ids s0), news ++ [fe], Some ftype) else
          '(_, sz, ck) <- upd_entry w (pjoin dirpath f) fe (Some hashes) (l_dev l0) last_mtime ;;
          Ok (mk_us l0 ed' stk (us_ids s0), news ++ [with_size_cks fe sz ck], Some ftype)
      end) filenames (Ok (s, [], None)).

  Definition stack_last (st : stack) : res (list N * list N) :=
    match rev st with x :: _ => Ok x | [] => Err (XInternal IIndex) end.

  (* "Manifest needs to go level up": walk down the stack while the Manifest's directory is the
     directory of the new Manifest, but not beyond the outermost Manifest *)
  Fixpoint level_up (rst : list (list N * list N)) (cur : list N * list N) (dir : list N) : list N * list N :=
    if ustr_eqb (snd cur) dir then
      match rst with
      | x :: r => level_up r x dir
      | [] => cur
      end
    else cur.

  Definition place_new_entries (l : loader) (st : stack) (news : list entry) (lastft : option (list N))
                               (new_ignore : list (list N)) : res loader :=
    match news with
    | [] => Ok l
    | _ =>
        '(mpath, mdirpath) <- stack_last st ;;
        l' <- fold_left (fun (acc : res loader) fe =>
                l0 <- acc ;;
                if mem_str (e_path fe) new_ignore then Ok l0 else
                match fe with
                | EFile TMANIFEST p a s c =>
                    let '(mmpath, mmdir) :=
                      match rev st with
                      | top :: rst => level_up rst top (dirname p)
                      | [] => (mpath, mdirpath)
                      end in
                    Ok (add_updated (append_entry l0 mmpath (EFile TMANIFEST (relpath p mmdir) a s c)) mmpath)
                | _ =>
                    match lastft with
                    | None => Err (XInternal IType)                  (* unbound local: unreachable *)
                    | Some ft =>
                        if ustr_eqb ft (tag_str TAUX) then
                          match fe with
                          | EFile TAUX _ aux s c =>
                              let p' := relpath aux mdirpath in
                              if path_inside_dir p' s_files
                              then Ok (append_entry l0 mpath (EFile TAUX p' (relpath p' s_files) s c))
                              else Err (XInternal IAssertion)
                          | _ => Err (XInternal IAttribute)          (* .aux_path of a non-AUX entry *)
                          end
                        else Ok (append_entry l0 mpath (with_path fe (relpath (e_path fe) mdirpath)))
                    end
                end) news (Ok l) ;;
        Ok (add_updated l' mpath)
    end.

  (* find_path_entry(path) is used for its truth value on the new IGNORE paths *)
  Definition any_path_entry (w : world) (l : loader) (path : list N) : res (loader * bool) :=
    '(l', e) <- find_path_entry_l L decompress pgp_verify w l path ;;
    Ok (l', match e with Some _ => true | None => false end).

  Fixpoint walk_update (fuel : nat) (w : world) (dirpath rel : list N) (new_manifests : list (list N))
                       (hashes : list (list N)) (last_mtime : option Z) (s : ustate) : res ustate :=
    match fuel with
    | O => Err XOutOfFuel
    | S f =>
        ents <- p_scandir w dirpath ;;
        let dirnames := map fst (filter snd ents) in
        let filenames := map fst (filter (fun x => negb (snd x)) ents) in
        dst <- p_stat w dirpath ;;
        let l := us_l s in
        if match l_dev l with Some d => negb (st_dev dst =? d) | None => false end
        then Err (XCrossDevice dirpath) else
        let dir_id := (st_dev dst, st_ino dst) in
        let parent_ids := match assoc (dirname dirpath) (us_ids s) with Some x => x | None => [] end in
        if existsb (fun x => (fst x =? fst dir_id) && (snd x =? snd dir_id)) parent_ids
        then Err (XSymlinkLoop dirpath) else
        stk <- pop_until (us_stack s) rel (S (length (us_stack s))) ;;
        let want_manifest := profile_want_manifest (o_profile (l_opts l)) rel dirnames filenames in
        (* directories: hidden and IGNOREd ones are skipped; an entry of another kind for a directory
           makes update_entry_for_path raise *)
        r1 <- fold_left (fun (acc : res (list (list N) * ddict)) d =>
                '(kp, ed) <- acc ;;
                if py_startswith d [46] then Ok (kp, ed) else
                let dpath := pjoin rel d in
                match assoc dpath ed with
                | None => Ok (kp ++ [d], ed)
                | Some (mpath, id) =>
                    let ed' := dict_del dpath ed in
                    match entry_at l mpath id with
                    | Some (EIgn _) => Ok (kp, ed')
                    | Some de =>
                        _ <- upd_entry w (pjoin dirpath d) de (Some hashes) (l_dev l) None ;;
                        Err (XInternal IAssertion)
                    | None => Err (XInternal IKey)
                    end
                end) dirnames (Ok ([], us_ed s)) ;;
        let '(keep, ed1) := r1 in
        let ids1 := match keep with [] => us_ids s | _ => dict_set dirpath (parent_ids ++ [dir_id]) (us_ids s) end in
        '(s2, news, lastft) <- scan_files w dirpath rel new_manifests hashes last_mtime filenames (mk_us l ed1 stk ids1) ;;
        (* do we have a Manifest in this directory? *)
        top_of_stack <- stack_last (us_stack s2) ;;
        r3 <- (if want_manifest && negb (ustr_eqb (snd top_of_stack) rel) then
                 let mpath := pjoin rel [77;97;110;105;102;101;115;116] in
                 '(l3, _) <- load_manifest L decompress pgp_verify w (us_l s2) mpath None true false ;;
                 r <- fold_left (fun (acc : res (loader * list (list N))) ip =>
                        '(l0, ign) <- acc ;;
                        let iep := pjoin rel ip in
                        '(l1, has) <- any_path_entry w l0 iep ;;
                        if has then Err (XInternal INotImplemented)
                        else Ok (append_entry l1 mpath (EIgn ip), ign ++ [iep]))
                      (profile_ignore_paths (o_profile (l_opts l3)) rel) (Ok (l3, [])) ;;
                 Ok (fst r, us_stack s2 ++ [(mpath, rel)], news ++ [EFile TMANIFEST mpath [] 0 []], snd r)
               else Ok (us_l s2, us_stack s2, news, [])) ;;
        let '(l4, stk4, news4, new_ignore) := r3 in
        l5 <- place_new_entries l4 stk4 news4 lastft new_ignore ;;
        fold_left (fun (acc : res ustate) d =>
          s0 <- acc ;;
          walk_update f w (pjoin dirpath d) (pjoin rel d) new_manifests hashes last_mtime s0)
          keep (Ok (mk_us l5 (us_ed s2) stk4 (us_ids s2)))
    end.

  Definition update_entries_for_directory (w : world) (l : loader) (path : list N)
                                          (hashes : option (list (list N))) (last_mtime : option Z)
    : res loader :=
    match (match hashes with Some h => Some h | None => o_hashes (l_opts l) end) with
    | None => Err (XInternal IAssertion)
    | Some hs =>
        '(l1, new_manifests) <- load_unregistered_manifests w l path false ;;
        '(l2, ed) <- get_dedup_dict w l1 path false ;;
        let stk := rev (map (fun kdv => (fst (fst kdv), snd (fst kdv))) (iter_manifests l2 path false)) in
        s <- walk_update (nodes_fuel w) w (walk_top path) path new_manifests hs last_mtime (mk_us l2 ed stk []) ;;
        (* entries whose file was not met: removed (IGNORE entries stay) *)
        fold_left (fun (acc : res loader) pe =>
          l0 <- acc ;;
          let '(_, (mpath, id)) := pe in
          match entry_at l0 mpath id with
          | None => Err (XInternal IValue)
          | Some (EIgn _) => Ok l0
          | Some fe => l1 <- remove_entry_eq l0 mpath fe ;; Ok (add_updated l1 mpath)
          end) (us_ed s) (Ok (us_l s))
    end.

  (* ---- update_entry_for_path(path, new_entry_type, hashes): one path ------------------------- *)
  Definition update_one_path (w : world) (l : loader) (path : list N) (new_type : list N)
                             (hashes : option (list (list N))) : res loader :=
    let hashes := match hashes with Some h => Some h | None => o_hashes (l_opts l) end in
    l1 <- load_manifests w l path false true ;;
    r <- fold_left (fun (acc : res (loader * bool)) kdv =>
           '(la, had) <- acc ;;
           let '(mpath, relpath, m) := kdv in
           r1 <- fold_left (fun (acc1 : res (loader * bool * list entry)) ie =>
                   '(l0, had0, rm) <- acc1 ;;
                   match entry_at l0 mpath (fst ie) with
                   | None => Ok (l0, had0, rm)
                   | Some e =>
                       match e_tag e with
                       | TIGNORE => if path_starts_with path (pjoin relpath (e_path e)) then Err (XInternal IAssertion)
                                    else Ok (l0, had0, rm)
                       | TDIST | TTIMESTAMP => Ok (l0, had0, rm)
                       | _ =>
                           let fullpath := pjoin relpath (e_path e) in
                           if negb (ustr_eqb fullpath path) then Ok (l0, had0, rm) else
                           if had0 then Ok (l0, had0, rm ++ [e]) else
                           match upd_entry w (pjoin rootdir fullpath) e hashes (l_dev l0) None with
                           | Ok (_, sz, ck) =>
                               Ok (add_updated (set_entry_at l0 mpath (fst ie) (with_size_cks e sz ck)) mpath, true, rm)
                           | Err (XInvalidPath p what) =>
                               if ustr_eqb what s_exists then Ok (l0, true, rm ++ [e]) else Err (XInvalidPath p what)
                           | Err x => Err x
                           end
                       end
                   end) (mf_entries m) (Ok (la, had, [])) ;;
           let '(l2, had2, rm) := r1 in
           match rm with
           | [] => Ok (l2, had2)
           | _ => l3 <- fold_left (fun (acc2 : res loader) e => l0 <- acc2 ;; remove_entry_eq l0 mpath e) rm (Ok l2) ;;
                  Ok (add_updated l3 mpath, had2)
           end) (iter_manifests l1 path false) (Ok (l1, false)) ;;
    let '(l4, had) := r in
    if had then Ok l4 else
    match hashes with
    | None => Err (XInternal IAssertion)
    | Some _ =>
        match iter_manifests l4 path false with
        | [] => Ok l4
        | (mpath, mdir, _) :: _ =>
            if ustr_eqb new_type (tag_str TDIST) || ustr_eqb new_type (tag_str TIGNORE) then Err (XInternal IAssertion) else
            let newpath := relpath path mdir in
            np <- (if ustr_eqb new_type (tag_str TAUX)
                   then (if path_inside_dir newpath s_files then Ok (relpath newpath s_files) else Err (XInternal IAssertion))
                   else Ok newpath) ;;
            e <- mk_new_entry new_type np ;;
            '(_, sz, ck) <- upd_entry w (pjoin rootdir path) e hashes (l_dev l4) None ;;
            Ok (add_updated (append_entry l4 mpath (with_size_cks e sz ck)) mpath)
        end
    end.

  (* ---- saving ------------------------------------------------------------------------------ *)
  (* the filesystem after writing a file: a fresh inode replaces the directory entry *)
  Definition fresh_ino (w : world) : N := fold_left (fun acc kn => N.max acc (fst kn + 1)) (w_nodes w) 1.
  Definition replace_node (nodes : list (N * inode)) (i : N) (n : inode) : list (N * inode) :=
    map (fun kn => if fst kn =? i then (i, n) else kn) nodes.
  Definition set_dirent (ents : list (list N * target)) (name : list N) (t : option target) : list (list N * target) :=
    match t with
    | Some x => if existsb (fun e => ustr_eqb (fst e) name) ents
                then map (fun e => if ustr_eqb (fst e) name then (name, x) else e) ents
                else ents ++ [(name, x)]
    | None => filter (fun e => negb (ustr_eqb (fst e) name)) ents
    end.
  (* open(path, 'w'): truncate/create and write *)
  Definition write_file (w : world) (path : list N) (data : list N) (mtime : Z) : res world :=
    let sys := path in
    di <- resolve w (dirname sys) ;;
    match node w di with
    | Some (IDir dev par ents) =>
        let name := basename sys in
        match lookup_name ents name with
        | Some (TIno i) =>
            match node w i with
            | Some (IDir _ _ _) => Err (XOS EISDIR)
            | Some (IFile fdev _ _ _) =>
                (* the same inode is rewritten (symlinks to it see the new content) *)
                Ok (mk_world (w_root w) (replace_node (w_nodes w) i (IFile fdev mtime (N.of_nat (length data)) data))
                             (w_faults w) (w_avail w))
            | _ => Err (XOS EACCES)
            end
        | Some (TErr e) => Err (XOS e)
        | None =>
            let i := fresh_ino w in
            Ok (mk_world (w_root w)
                  (replace_node (w_nodes w) di (IDir dev par (set_dirent ents name (Some (TIno i))))
                   ++ [(i, IFile dev mtime (N.of_nat (length data)) data)])
                  (w_faults w) (w_avail w))
        end
    | Some _ => Err (XOS ENOTDIR)
    | None => Err (XOS ENOENT)
    end.
  Definition unlink_file (w : world) (path : list N) : res world :=
    di <- resolve w (dirname path) ;;
    match node w di with
    | Some (IDir dev par ents) =>
        match lookup_name ents (basename path) with
        | Some _ => Ok (mk_world (w_root w) (replace_node (w_nodes w) di (IDir dev par (set_dirent ents (basename path) None)))
                                 (w_faults w) (w_avail w))
        | None => Err (XOS ENOENT)
        end
    | Some _ => Err (XOS ENOTDIR)
    | None => Err (XOS ENOENT)
    end.

  Variable write_mtime : Z.      (* mtime given to files written by this run *)

  (* save_manifest(relpath, sort) -> (world, loader, number of uncompressed bytes) *)
  Definition save_manifest (w : world) (l : loader) (relpath : list N) (sort : bool) : res (world * loader * Z) :=
    match get_m l relpath with
    | None => Err (XInternal IKey)
    | Some m =>
        let sign := if ustr_eqb relpath (l_top l) then o_sign (l_opts l) else Some false in
        let sign := match sign with Some b => b | None => mf_signed m end in
        let ids := if sort then py_sorted (fun a b => entry_ltb (snd a) (snd b)) (mf_entries m) else mf_entries m in
        let l1 := put_m l relpath (mk_mf ids (mf_signed m)) in
        (* the file is opened for writing (truncated) before anything else can fail *)
        w0 <- write_file w (pjoin rootdir relpath) [] write_mtime ;;
        text <- dump_entries (map snd ids) ;;
        text' <- (if sign then pgp_sign text (o_keyid (l_opts l)) else Ok text) ;;
        raw <- match utf8_encode text' with Some b => Ok b | None => Err (XInternal IUnicode) end ;;
        data <- match compressed_suffix relpath with
                | None => Ok raw
                | Some fmt => if mem_str fmt codec_suffixes then compress fmt raw else Err (XUnsupportedCompression fmt)
                end ;;
        w1 <- write_file w0 (pjoin rootdir relpath) data write_mtime ;;
        Ok (w1, l1, Z.of_nat (length raw))
    end.

  Record saveopts := mk_so { so_hashes : option (list (list N)); so_force : bool; so_sort : option bool;
                             so_watermark : option Z; so_format : option (list N) }.

  Definition is_manifest_tag (e : entry) : bool := match e with EFile TMANIFEST _ _ _ _ => true | _ => false end.

  (* save_manifests(hashes, force, sort, compress_watermark, compress_format) *)
  Definition save_manifests (w : world) (l : loader) (o : saveopts) : res (world * loader) :=
    let hashes := match so_hashes o with Some h => Some h | None => o_hashes (l_opts l) end in
    let sort := match so_sort o with Some b => b | None => o_sort (l_opts l) end in
    let watermark := match so_watermark o with Some x => Some x | None => o_watermark (l_opts l) end in
    let format := match so_format o with Some f => f | None => o_format (l_opts l) end in
    l0 <- (if so_force o then load_manifests w l [] true true else Ok l) ;;
    let snapshot := iter_manifests l0 [] true in
    r <- fold_left (fun (acc : res (world * loader * list (list N) * list (list N * list N))) kdv =>
           '(w0, l1, fixed, renamed) <- acc ;;
           let '(mpath, relp, _) := kdv in
           match get_m l1 mpath with
           | None => Err (XInternal IKey)
           | Some m =>
               (* refresh the MANIFEST entries of this Manifest *)
               r1 <- fold_left (fun (acc2 : res (loader * list (list N))) ie =>
                       '(l2, fx) <- acc2 ;;
                       match entry_at l2 mpath (fst ie) with
                       | Some (EFile TMANIFEST p a s c) =>
                           let fullpath := pjoin relp p in
                           if negb (so_force o) && negb (mem_str fullpath (l_updated l2)) then
                             (if match assoc fullpath renamed with Some _ => true | None => false end
                              then Err (XInternal IAssertion) else Ok (l2, fx))
                           else
                             let '(fullpath', e1) :=
                               match assoc fullpath renamed with
                               | Some np => (np, EFile TMANIFEST (relpath np relp) a s c)
                               | None => (fullpath, EFile TMANIFEST p a s c)
                               end in
                             '(_, sz, ck) <- upd_entry w0 (pjoin rootdir fullpath') e1 hashes (l_dev l2) None ;;
                             Ok (add_updated (set_entry_at l2 mpath (fst ie) (with_size_cks e1 sz ck)) mpath, fx ++ [fullpath'])
                       | _ => Ok (l2, fx)
                       end) (mf_entries m) (Ok (l1, fixed)) ;;
               let '(l3, fixed') := r1 in
               if so_force o || mem_str mpath (l_updated l3) then
                 '(w1, l4, unc) <- save_manifest w0 l3 mpath sort ;;
                 match watermark with
                 | None => Ok (w1, l4, fixed', renamed)
                 | Some wm =>
                     let compr := compressed_suffix mpath in
                     let is_compr := match compr with Some _ => true | None => false end in
                     let tags := match get_m l4 mpath with Some m4 => map (fun e => tag_str (e_tag e)) (entries_of m4) | None => [] end in
                     match profile_want_compressed (o_profile (l_opts l4)) mpath tags unc wm with
                     | Some want =>
                         if Bool.eqb is_compr want then Ok (w1, l4, fixed', renamed) else
                         let new_mpath := if want then mpath ++ [46] ++ format
                                          else firstn (length mpath - (length (match compr with Some c => c | None => [] end) + 1)) mpath in
                         (* never rename onto another loaded Manifest, nor onto an existing file that is not one of the loaded Manifests
                            (os.path.realpath equality = same inode: the model has no hard links) *)
                         if match get_m l4 new_mpath with Some _ => true | None => false end
                            || (p_lexists w1 (pjoin rootdir new_mpath)
                                && negb (existsb (fun kv => match resolve w1 (pjoin rootdir new_mpath), resolve w1 (pjoin rootdir (fst kv)) with
                                                            | Ok i, Ok j => i =? j
                                                            | _, _ => false
                                                            end) (l_loaded l4)))
                         then Ok (w1, l4, fixed', renamed) else
                         match get_m l4 mpath with
                         | None => Err (XInternal IKey)
                         | Some m4 =>
                             (* the renamed Manifest keeps its place in the load order *)
                             let l5 := set_loaded l4 (dict_rename mpath new_mpath (l_loaded l4)) in
                             (* the top-level Manifest is known under its new name before it is written (so it is signed) *)
                             let l5' := if ustr_eqb mpath (l_top l5) then set_top l5 new_mpath else l5 in
                             '(w2, l6, _) <- save_manifest w1 l5' new_mpath false ;;
                             let l7 := l6 in
                             w3 <- unlink_file w2 (pjoin rootdir mpath) ;;
                             Ok (w3, l7, fixed', renamed ++ [(mpath, new_mpath)])
                         end
                     | None => Ok (w1, l4, fixed', renamed)
                     end
                 end
               else Ok (w0, l3, fixed', renamed)
           end) snapshot (Ok (w, l0, [], [])) ;;
    let '(w9, l9, fixed, renamed) := r in
    let upd := filter (fun p => negb (mem_str p fixed) && negb (mem_str p (map fst renamed)) && negb (ustr_eqb p (l_top l9)))
                      (l_updated l9) in
    match upd with
    | [] => Ok (w9, set_updated l9 [])
    | _ => Err (XInternal IAssertion)
    end.

  (* set_timestamp(ts) *)
  Definition set_timestamp (w : world) (l : loader) (ts : datetime) : res loader :=
    '(l1, e) <- find_timestamp_l L decompress pgp_verify w l ;;
    match e with
    | Some (id, _) =>
        (* the entry object found is updated in place, in whichever Manifest holds it *)
        Ok (set_loaded l1 (map (fun km => (fst km, mk_mf (map (fun ie => if fst ie =? id then (id, ETs ts) else ie) (mf_entries (snd km)))
                                                         (mf_signed (snd km)))) (l_loaded l1)))
    | None => Ok (append_entry l1 (l_top l1) (ETs ts))
    end.
End Update.
