(* gemato/recursiveloader.py, the reading side: ManifestLoader, ManifestRecursiveLoader
   construction, chain loading, lookups, get_file_entry_dict, assert_directory_verifies. *)
From Gemato Require Import Py.PyStr Py.PyPath Gen.Tables Gen.Util Gen.Profile
  Model.Entry Model.Text Model.OpenPGP Model.Hash Model.FS Model.Verify.
Open Scope N_scope.

Inductive profile_id := PDefault | PEbuild | POldEbuild.

Record mfile := mk_mf { mf_entries : list (N * entry)   (* (identity, value): Python mutates entry objects *)
                      ; mf_signed : bool }.

Record options := mk_opts {
  o_hashes : option (list (list N)); o_sort : bool; o_watermark : option Z; o_format : list N;
  o_profile : profile_id; o_sign : option bool; o_keyid : option (list N); o_verify_openpgp : bool }.

Record loader := mk_loader {
  l_top : list N;                              (* top_level_manifest_filename *)
  l_loaded : list (list N * mfile);            (* loaded_manifests: a dict, insertion-ordered *)
  l_updated : list (list N);                   (* updated_manifests: a set *)
  l_dev : option N;                            (* manifest_device *)
  l_next : N;                                  (* next fresh entry identity *)
  l_opts : options;
  l_signed : bool;                             (* openpgp_signed of the top-level Manifest *)
  l_detached : list (N * entry)                (* entry objects removed from their list but still referenced *)
}.

Definition set_loaded (l : loader) (x : list (list N * mfile)) : loader :=
  mk_loader (l_top l) x (l_updated l) (l_dev l) (l_next l) (l_opts l) (l_signed l) (l_detached l).
Definition set_updated (l : loader) (x : list (list N)) : loader :=
  mk_loader (l_top l) (l_loaded l) x (l_dev l) (l_next l) (l_opts l) (l_signed l) (l_detached l).
Definition set_dev (l : loader) (x : option N) : loader :=
  mk_loader (l_top l) (l_loaded l) (l_updated l) x (l_next l) (l_opts l) (l_signed l) (l_detached l).
Definition set_next (l : loader) (x : N) : loader :=
  mk_loader (l_top l) (l_loaded l) (l_updated l) (l_dev l) x (l_opts l) (l_signed l) (l_detached l).
Definition set_top (l : loader) (x : list N) : loader :=
  mk_loader x (l_loaded l) (l_updated l) (l_dev l) (l_next l) (l_opts l) (l_signed l) (l_detached l).
Definition set_detached (l : loader) (x : list (N * entry)) : loader :=
  mk_loader (l_top l) (l_loaded l) (l_updated l) (l_dev l) (l_next l) (l_opts l) (l_signed l) x.
Definition add_updated (l : loader) (p : list N) : loader :=
  if mem_str p (l_updated l) then l else set_updated l (l_updated l ++ [p]).

Definition entries_of (m : mfile) : list entry := map snd (mf_entries m).

(* the system path a walk of the directory [path] starts at: written without a trailing slash, so that os.path.dirname of a path
   directly inside it names it (that is how the walks look up the directories they have passed) *)
Definition walk_top (path : list N) : list N :=
  let top := pjoin rootdir path in match py_rstrip top [sl] with [] => top | s => s end.

(* get_compressed_suffix_from_filename *)
Definition compressed_suffix (path : list N) : option (list N) :=
  let ext := snd (splitext path) in
  if mem_str ext compressed_exts then Some (skipn 1 ext) else None.

Section Loader.
  Variable L : hashlib.
  (* the codecs: decompress fmt bytes -> plain bytes (XBadCompressed on invalid data) *)
  Variable decompress : list N -> list N -> res (list N).
  (* openpgp_env.verify_file on the signed text *)
  Variable pgp_verify : list N -> res sigdata.

  Notation verify_path := (Verify.verify_path L).

  Fixpoint number_entries (es : list entry) (next : N) : list (N * entry) * N :=
    match es with
    | [] => ([], next)
    | e :: r => let '(t, n') := number_entries r (next + 1) in ((next, e) :: t, n')
    end.

  (* open_potentially_compressed_path(path, 'r', encoding='utf8') + m.load + fstat *)
  Definition read_manifest (w : world) (path : list N) (verify_openpgp : bool)
    : res (list entry * bool * statinfo) :=
    let comp := compressed_suffix path in
    i <- p_open_file w path ;;
    data <- p_read w i ;;
    plain <- match comp with
             | None => Ok data
             | Some fmt => if mem_str fmt codec_suffixes then decompress fmt data
                           else Err (XUnsupportedCompression fmt)
             end ;;
    text <- match utf8_decode plain with Some t => Ok t | None => Err (XInternal IUnicode) end ;;
    '(es, sg, _) <- load_with_env text verify_openpgp pgp_verify ;;
    st <- p_fstat w i ;;
    Ok (es, sg, st).

  (* ManifestLoader.verify_and_load(relpath, verify_entry) *)
  Definition verify_and_load (w : world) (l : loader) (relpath : list N) (ve : option entry)
    : res (list entry * bool * statinfo) :=
    let path := pjoin rootdir relpath in
    _ <- match ve with
         | None => Ok tt
         | Some e => '(ok, diff) <- verify_path w path (Some e) None None ;;
                     if ok then Ok tt else Err (XMismatch relpath diff)
         end ;;
    read_manifest w path (o_verify_openpgp (l_opts l)).

  Definition profile_ignore_paths (p : profile_id) (relpath : list N) : list (list N) :=
    match p with
    | PDefault => DefaultProfile_get_ignore_paths_for_new_manifest relpath
    | PEbuild => EbuildRepositoryProfile_get_ignore_paths_for_new_manifest relpath
    | POldEbuild => BackwardsCompatEbuildRepositoryProfile_get_ignore_paths_for_new_manifest relpath
    end.

  (* load_manifest(relpath, verify_entry, allow_create, store_dev) *)
  Definition load_manifest (w : world) (l : loader) (relpath : list N) (ve : option entry)
                           (allow_create store_dev : bool) : res (loader * mfile) :=
    r <- match verify_and_load w l relpath ve with
         | Ok (es, sg, st) =>
             let '(ids, nx) := number_entries es (l_next l) in
             Ok (set_next l nx, mk_mf ids sg, st)
         | Err (XOS ENOENT) =>
             if allow_create then
               st <- p_stat w (dirname (pjoin rootdir relpath)) ;;
               let l1 := add_updated l relpath in
               let igs := if ustr_eqb relpath [77;97;110;105;102;101;115;116]
                          then map EIgn (profile_ignore_paths (o_profile (l_opts l)) []) else [] in
               let '(ids, nx) := number_entries igs (l_next l1) in
               Ok (set_next l1 nx, mk_mf ids false, st)
             else Err (XOS ENOENT)
         | Err e => Err e
         end ;;
    let '(l1, m, st) := r in
    let l2 := if store_dev then set_dev l1 (Some (st_dev st)) else l1 in
    Ok (set_loaded l2 (dict_set relpath m (l_loaded l2)), m).

  (* _iter_manifests_for_path(path, recursive): deepest directories first; within one directory the
     most recently loaded first *)
  Definition iter_manifests (l : loader) (path : list N) (recursive : bool)
    : list (list N * list N * mfile) :=
    let unordered :=
      flat_map (fun kv => let d := dirname (fst kv) in
                          if path_starts_with path d then [(fst kv, d, snd kv)]
                          else if recursive && path_starts_with d path then [(fst kv, d, snd kv)]
                          else []) (l_loaded l) in
    py_sorted (fun a b => (length (snd (fst b)) <? length (snd (fst a)))%nat) (rev unordered).

  (* one round of load_manifests_for_path: the (mpath, verify entry) pairs to load *)
  Definition to_load (l : loader) (path : list N) (recursive verify : bool)
    : list (list N * option entry) :=
    flat_map (fun kdv =>
      let '(curmpath, relpath, m) := kdv in
      flat_map (fun e =>
        match e with
        | EFile TMANIFEST p _ _ _ =>
            let mpath := pjoin relpath p in
            if ustr_eqb curmpath mpath || (match assoc mpath (l_loaded l) with Some _ => true | None => false end)
            then []
            else
              let mdir := dirname mpath in
              if path_starts_with path mdir || (recursive && path_starts_with mdir path)
              then [(mpath, if verify then Some e else None)] else []
        | _ => []
        end) (entries_of m)) (iter_manifests l path recursive).

  Fixpoint load_list (w : world) (l : loader) (tl : list (list N * option entry)) : res loader :=
    match tl with
    | [] => Ok l
    | (mpath, ve) :: r =>
        '(l', _) <- load_manifest w l mpath ve false false ;;
        load_list w l' r
    end.

  (* load_manifests_for_path(path, recursive, verify); [fuel] bounds the number of rounds *)
  Fixpoint load_manifests_for_path (fuel : nat) (w : world) (l : loader) (path : list N)
                                   (recursive verify : bool) : res loader :=
    match fuel with
    | O => Err XOutOfFuel
    | S f =>
        match to_load l path recursive verify with
        | [] => Ok l
        | tl => l' <- load_list w l tl ;; load_manifests_for_path f w l' path recursive verify
        end
    end.
  Definition rounds_fuel : nat := 64.

  (* ManifestRecursiveLoader(top_manifest_path, ...) with the top-level Manifest in the root
     directory of the model *)
  Definition new_loader (w : world) (top : list N) (opts : options) (allow_create allow_xdev : bool)
    : res loader :=
    let l0 := mk_loader top [] [] None 0 opts false [] in
    '(l1, m) <- load_manifest w l0 top None allow_create (negb allow_xdev) ;;
    Ok (mk_loader (l_top l1) (l_loaded l1) (l_updated l1) (l_dev l1) (l_next l1) (l_opts l1) (mf_signed m) (l_detached l1)).

  (* ---- lookups ------------------------------------------------------------------------ *)
  Fixpoint first_some {A B} (f : A -> option B) (l : list A) : option B :=
    match l with [] => None | x :: r => match f x with Some b => Some b | None => first_some f r end end.

  (* find_path_entry(path) *)
  Definition find_path_entry_l (w : world) (l : loader) (path : list N) : res (loader * option entry) :=
    l' <- load_manifests_for_path rounds_fuel w l path false true ;;
    Ok (l', first_some (fun kdv =>
          let '(_, relpath, m) := kdv in
          first_some (fun e =>
            match e with
            | EIgn p => if path_starts_with path (pjoin relpath p) then Some e else None
            | ETs _ => None
            | EFile t p _ _ _ =>
                if tag_eqb t TDIST then None
                else if ustr_eqb (pjoin relpath p) path then Some e else None
            end) (entries_of m)) (iter_manifests l' path false)).

  (* verify_path(relpath) *)
  Definition verify_path_l (w : world) (l : loader) (relpath : list N) : res (loader * (bool * list (list N))) :=
    '(l', e) <- find_path_entry_l w l relpath ;;
    r <- verify_path w (pjoin rootdir relpath) e None None ;; Ok (l', r).
  (* assert_path_verifies(relpath) *)
  Definition assert_path_verifies (w : world) (l : loader) (relpath : list N) : res loader :=
    '(l', e) <- find_path_entry_l w l relpath ;;
    '(ok, diff) <- verify_path w (pjoin rootdir relpath) e (l_dev l') None ;;
    if ok then Ok l' else Err (XMismatch relpath diff).
  (* find_dist_entry(filename, relpath) *)
  Definition find_dist_entry_l (w : world) (l : loader) (filename relpath : list N) : res (loader * option entry) :=
    let p := relpath ++ [sl] in
    l' <- load_manifests_for_path rounds_fuel w l p false true ;;
    Ok (l', first_some (fun kdv =>
          let '(_, _, m) := kdv in
          first_some (fun e => match e with
                               | EFile TDIST q _ _ _ => if ustr_eqb q filename then Some e else None
                               | _ => None
                               end) (entries_of m)) (iter_manifests l' p false)).
  (* find_timestamp() *)
  Definition find_timestamp_l (w : world) (l : loader) : res (loader * option (N * entry)) :=
    l' <- load_manifests_for_path rounds_fuel w l [] false true ;;
    Ok (l', first_some (fun kdv =>
          let '(_, _, m) := kdv in
          first_some (fun ie => match snd ie with ETs _ => Some ie | _ => None end) (mf_entries m))
          (iter_manifests l' [] false)).

  (* ---- get_file_entry_dict -------------------------------------------------------------- *)
  (* out: dirpath -> (filename -> entry), both insertion-ordered dicts *)
  Definition edict := list (list N * list (list N * entry)).

  Definition merge_entry (old e : entry) : res entry :=
    '(ok, diff) <- verify_entry_compatibility old e ;;
    if negb ok then Err (XIncompatible (e_path old)) else
    match diff with
    | [] => Ok e
    | _ =>
        match e with
        | EFile t p a s c =>
            let c' := fold_left (fun acc d => match d with
                                              | (k, Some d1, None) => dict_set k d1 acc
                                              | _ => acc
                                              end) diff c in
            (* e = type(e)(e.path, e.size, new_checksums): the AUX constructor prepends files/ again *)
            Ok (match t with TAUX => EFile TAUX (pjoin s_files p) p s c' | _ => EFile t p a s c' end)
        | _ => Ok e
        end
    end.

  Definition get_file_entry_dict (w : world) (l : loader) (path : list N) (only_types : option (list tag))
                                 (verify_manifests : bool) : res (loader * edict) :=
    l' <- load_manifests_for_path rounds_fuel w l path true verify_manifests ;;
    out <- fold_left (fun (acc : res edict) kdv =>
             let '(_, relpath0, m) := kdv in
             (* note: relpath is rebound to '' for the rest of this Manifest once a DIST entry is met *)
             snd (fold_left (fun (st : list N * res edict) e =>
               let '(relpath, racc) := st in
               match racc with
               | Err x => st
               | Ok out =>
                   let skip_or_rel :=
                     match only_types with
                     | Some ts => if existsb (tag_eqb (e_tag e)) ts
                                  then Some (if tag_eqb (e_tag e) TDIST then [] else relpath) else None
                     | None => match e_tag e with TDIST | TTIMESTAMP => None | _ => Some relpath end
                     end in
                   match skip_or_rel with
                   | None => st
                   | Some relpath' =>
                       let fullpath := pjoin relpath' (e_path e) in
                       if path_starts_with fullpath path then
                         let dirpath := dirname fullpath in
                         let filename := basename (e_path e) in
                         let dirout := match assoc dirpath out with Some d => d | None => [] end in
                         match assoc filename dirout with
                         | Some old =>
                             match merge_entry old e with
                             | Ok e' => (relpath', Ok (dict_set dirpath (dict_set filename e' dirout) out))
                             | Err x => (relpath', Err x)
                             end
                         | None => (relpath', Ok (dict_set dirpath (dict_set filename e dirout) out))
                         end
                       else (relpath', racc)
                   end
               end) (entries_of m) (relpath0, acc))) (iter_manifests l' path true) (Ok []) ;;
    Ok (l', out).

  (* ---- assert_directory_verifies -------------------------------------------------------- *)
  Inductive hres := HNone | HBool (b : bool) | HRaise.
  Inductive policy := PolThrow | PolFalse | PolTrue | PolNone | PolParity.
  Definition apply_policy (p : policy) (relpath : list N) : hres :=
    match p with
    | PolThrow => HRaise | PolFalse => HBool false | PolTrue => HBool true | PolNone => HNone
    | PolParity => HBool (Nat.even (length relpath))
    end.

  Record vctx := mk_vctx { vc_top : list N; vc_dev : option N; vc_pol : policy; vc_lm : option Z }.
  Definition call := (list N * list (list N))%type.        (* handler invocation: (path, diff names) *)

  (* SubprocessVerifier._verify_one_file *)
  Definition verify_one (w : world) (c : vctx) (path relpath : list N) (e : option entry) (log : list call)
    : res (bool * list call) :=
    '(ok, diff) <- verify_path w path e (vc_dev c) (vc_lm c) ;;
    if ok then Ok (true, log)
    else match apply_policy (vc_pol c) relpath with
         | HRaise => Err (XMismatch relpath diff)
         | HNone => Ok (true, log ++ [(relpath, diff)])
         | HBool b => Ok (b, log ++ [(relpath, diff)])
         end.

  (* SubprocessVerifier.__call__ on one directory *)
  Definition verify_dir (w : world) (c : vctx) (dirpath relpath : list N) (dirnames filenames : list (list N))
                        (dirdict : list (list N * entry)) (log : list call) : res (bool * list call) :=
    (* directories that have an entry *)
    r1 <- fold_left (fun (acc : res (bool * list call * list (list N * entry))) d =>
            '(ret, lg, dd) <- acc ;;
            match assoc d dd with
            | Some de => '(b, lg') <- verify_one w c (pjoin dirpath d) (pjoin relpath d) (Some de) lg ;;
                         Ok (ret && b, lg', dict_del d dd)
            | None => Ok (ret, lg, dd)
            end) dirnames (Ok (true, log, dirdict)) ;;
    r2 <- fold_left (fun (acc : res (bool * list call * list (list N * entry))) f =>
            '(ret, lg, dd) <- acc ;;
            if py_startswith f [46] then Ok (ret, lg, dd) else
            let fpath := pjoin relpath f in
            if ustr_eqb fpath (vc_top c) then Ok (ret, lg, dd) else
            '(b, lg') <- verify_one w c (pjoin dirpath f) fpath (assoc f dd) lg ;;
            Ok (ret && b, lg', dict_del f dd)) filenames (Ok r1) ;;
    (* missing files *)
    let '(ret2, lg2, dd2) := r2 in
    fold_left (fun (acc : res (bool * list call)) fe =>
      '(ret, lg) <- acc ;;
      '(b, lg') <- verify_one w c (pjoin dirpath (fst fe)) (pjoin relpath (fst fe)) (Some (snd fe)) lg ;;
      Ok (ret && b, lg')) dd2 (Ok (ret2, lg2)).

  (* one step of _walk_directory for the directory (dirpath, rel), given what scandir returned:
     the pruned dirnames, the remaining dirdict, and the bookkeeping of directory identities *)
  Definition ids_map := list (list N * list (N * N)).

  (* os.walk(top, followlinks=True) + _walk_directory + verification of each directory, depth-first.
     [fuel] bounds the depth of the recursion; C16 shows it is never exhausted. *)
  Fixpoint walk_verify (fuel : nat) (w : world) (c : vctx) (dirpath rel : list N) (ids : ids_map)
                       (ed : edict) (ret : bool) (log : list call)
    : res (ids_map * edict * bool * list call) :=
    match fuel with
    | O => Err XOutOfFuel
    | S f =>
        ents <- p_scandir w dirpath ;;
        let dirnames := map fst (filter snd ents) in
        let filenames := map fst (filter (fun x => negb (snd x)) ents) in
        dst <- p_stat w dirpath ;;
        if match vc_dev c with Some d => negb (st_dev dst =? d) | None => false end
        then Err (XCrossDevice dirpath) else
        let dir_id := (st_dev dst, st_ino dst) in
        let parent_ids := match assoc (dirname dirpath) ids with Some x => x | None => [] end in
        if existsb (fun x => (fst x =? fst dir_id) && (snd x =? snd dir_id)) parent_ids
        then Err (XSymlinkLoop dirpath) else
        let dirdict := match assoc rel ed with Some d => d | None => [] end in
        let ed1 := dict_del rel ed in
        (* prune hidden directories and directories that have an entry *)
        let '(keep, dirdict1) :=
          fold_left (fun (acc : list (list N) * list (list N * entry)) d =>
            let '(kp, dd) := acc in
            if py_startswith d [46] then (kp, dd)
            else match assoc d dd with
                 | None => (kp ++ [d], dd)
                 | Some (EIgn _) => (kp, dict_del d dd)
                 | Some _ => (kp, dd)
                 end) dirnames ([], dirdict) in
        let ids1 := match keep with [] => ids | _ => dict_set dirpath (parent_ids ++ [dir_id]) ids end in
        '(b, log1) <- verify_dir w c dirpath rel keep filenames dirdict1 log ;;
        (* recurse into the remaining sub-directories, in order *)
        fold_left (fun (acc : res (ids_map * edict * bool * list call)) d =>
          '(i, e, r, lg) <- acc ;;
          walk_verify f w c (pjoin dirpath d) (pjoin rel d) i e r lg)
          keep (Ok (ids1, ed1, ret && b, log1))
    end.

  Definition nodes_fuel (w : world) : nat := S (S (S (length (w_nodes w)))).

  (* assert_directory_verifies(path, fail_handler, last_mtime) -> (loader, result, handler calls) *)
  Definition assert_directory_verifies (w : world) (l : loader) (path : list N) (pol : policy)
                                       (last_mtime : option Z) : res (loader * bool * list call) :=
    '(l', ed) <- get_file_entry_dict w l path None true ;;
    let c := mk_vctx (l_top l') (l_dev l') pol last_mtime in
    '(_, ed', ret, log) <- walk_verify (nodes_fuel w) w c (walk_top path) path [] ed true [] ;;
    (* check for missing directories *)
    r <- fold_left (fun (acc : res (bool * list call)) dd =>
           fold_left (fun (acc2 : res (bool * list call)) fe =>
             '(rt, lg) <- acc2 ;;
             let fpath := pjoin (fst dd) (fst fe) in
             '(b, lg') <- verify_one w c (pjoin rootdir fpath) fpath (Some (snd fe)) lg ;;
             Ok (rt && b, lg')) (snd dd) acc) ed' (Ok (ret, log)) ;;
    Ok (l', fst r, snd r).
End Loader.
