(* SystemGPGEnvironment.verify_file (the acceptance rule), _spawn_gpg's environment, and the
   signed flag of ManifestFile.load -- gemato/openpgp.py, gemato/manifest.py. *)
From Gemato Require Import Py.PyStr Gen.Tables Model.Entry Model.Text.
Open Scope N_scope.

(* bytes.split(b' ') : split at every single space, empty fields kept *)
Definition bsplit_sp (l : bytes) : list bytes := split_sep l 32.

(* bytes.splitlines(): \n, \r, \r\n (only these, for bytes) *)
Fixpoint blines_aux (s : bytes) (cur : bytes) : list bytes :=
  match s with
  | [] => match cur with [] => [] | _ => [rev cur] end
  | x :: s' =>
      if x =? 10 then rev cur :: blines_aux s' []
      else if x =? 13 then
        match s' with
        | y :: s'' => if y =? 10 then rev cur :: blines_aux s'' [] else rev cur :: blines_aux s' []
        | [] => [rev cur]
        end
      else blines_aux s' (x :: cur)
  end.
Definition bsplitlines (s : bytes) : list bytes := blines_aux s [].

(* _parse_gpg_ts, reduced to: is it a timestamp gpg can print (time_t or ISO 8601 basic)?
   The value is kept as text; malformed text raises ValueError in the implementation. *)
Definition all_ascii_digits (s : bytes) : bool :=
  match s with [] => false | _ => forallb (fun c => (48 <=? c) && (c <=? 57)) s end.
Definition ts_ok (s : bytes) : bool :=
  if contains_cp 84 s then
    (* YYYYMMDDTHHMMSS *)
    match s with
    | [a;b;c;d;e;f;g;h;t;i;j;k;l;m;n] =>
        (t =? 84) && all_ascii_digits [a;b;c;d;e;f;g;h;i;j;k;l;m;n]
    | _ => false
    end
  else all_ascii_digits s && (length s <=? 11)%nat.

Record sigdata := mk_sig { sig_fp : bytes; sig_ts : bytes; sig_expts : bytes; sig_pkfp : bytes }.

Inductive line_class := LGood | LExpKey | LRevKey | LValid | LTrust | LOther.
(* the if/elif chain of verify_file: first matching prefix, in the order of the source *)
Definition classify (line : bytes) : line_class :=
  match status_prefixes with
  | [p0; p1; p2; p3; p4] =>
      if py_startswith line p0 then LGood
      else if py_startswith line p1 then LExpKey
      else if py_startswith line p2 then LRevKey
      else if py_startswith line p3 then LValid
      else if py_startswith line p4 then LTrust
      else LOther
  | _ => LOther
  end.

Fixpoint mem_bytes (b : bytes) (l : list bytes) : bool :=
  match l with [] => false | x :: r => ustr_eqb b x || mem_bytes b r end.

(* line.split(b' ', 2)[1] *)
Definition second_field (line : bytes) : option bytes :=
  match bsplit_sp line with _ :: f :: _ => Some f | _ => None end.

Record vstate := mk_vs { vs_good : bool; vs_trusted : bool; vs_sig : option sigdata }.

Definition verify_step (s : vstate) (line : bytes) : res vstate :=
  match classify line with
  | LGood => Ok (mk_vs true (vs_trusted s) (vs_sig s))
  | LExpKey => Err (XPGP PGPExpiredKey)
  | LRevKey => Err (XPGP PGPRevokedKey)
  | LValid =>
      let spl := bsplit_sp line in
      if (length spl <? 12)%nat then Err (XInternal IAssertion) else
      let ts := nth 4 spl [] in let ex := nth 5 spl [] in
      if ts_ok ts && ts_ok ex
      then Ok (mk_vs (vs_good s) (vs_trusted s) (Some (mk_sig (nth 2 spl []) ts ex (nth 11 spl []))))
      else Err (XInternal IValue)
  | LTrust =>
      match second_field line with
      | Some f => Ok (mk_vs (vs_good s) (vs_trusted s || mem_bytes f trust_accepted) (vs_sig s))
      | None => Err (XInternal IIndex)
      end
  | LOther => Ok s
  end.

Fixpoint verify_lines (s : vstate) (ls : list bytes) : res vstate :=
  match ls with
  | [] => Ok s
  | l :: r => s' <- verify_step s l ;; verify_lines s' r
  end.

(* verify_file, given gpg's exit status and its status output *)
Definition verify_file (exitst : Z) (out : bytes) : res sigdata :=
  if negb (Z.eqb exitst 0) then Err (XPGP PGPVerification) else
  s <- verify_lines (mk_vs false false None) (bsplitlines out) ;;
  match vs_good s, vs_sig s with
  | true, Some d => if vs_trusted s then Ok d else Err (XPGP PGPUntrustedSig)
  | _, _ => Err (XPGP PGPUnknownSig)
  end.

(* ManifestFile.load with an OpenPGP environment: (entries, openpgp_signed, signature) *)
Definition load_with_env (text : ustr) (verify : bool) (env : ustr -> res sigdata)
  : res (list entry * bool * option sigdata) :=
  '(es, o) <- load text verify ;;
  match o with
  | None => Ok (es, false, None)
  | Some t => d <- env t ;; Ok (es, true, Some d)
  end.

(* environment passed to gpg by _spawn_gpg: os.environ.copy(); env['TZ']='UTC'; env.update(override) *)
Definition env_set (k v : ustr) (e : list (ustr * ustr)) : list (ustr * ustr) := dict_set k v e.
Definition env_update (e o : list (ustr * ustr)) : list (ustr * ustr) :=
  fold_left (fun acc kv => env_set (fst kv) (snd kv) acc) o e.
Definition k_TZ : ustr := [84;90].
Definition k_GNUPGHOME : ustr := [71;78;85;80;71;72;79;77;69].
Definition k_http_proxy : ustr := [104;116;116;112;95;112;114;111;120;121].
Definition spawn_env (user_env : list (ustr * ustr)) (override : list (ustr * ustr)) : list (ustr * ustr) :=
  env_update (env_set k_TZ [85;84;67] user_env) override.
(* IsolatedGPGEnvironment._spawn_gpg *)
Definition isolated_override (home : ustr) (proxy : option ustr) : list (ustr * ustr) :=
  (k_GNUPGHOME, home) :: match proxy with Some p => [(k_http_proxy, p)] | None => [] end.
