(* gemato/verify.py: get_file_metadata, verify_path, update_entry_for_path,
   verify_entry_compatibility. *)
From Gemato Require Import Py.PyStr Py.PyPath Gen.Tables Model.Entry Model.Hash Model.FS.
Open Scope N_scope.

Definition s_exists : list N := [95;95;101;120;105;115;116;115;95;95].   (* "__exists__" *)
Definition s_type : list N := [95;95;116;121;112;101;95;95].             (* "__type__" *)

Definition ustr_ltb_pair (a b : list N) : bool := ustr_ltb a b.
Definition sorted_strs (l : list (list N)) : list (list N) := py_sorted ustr_ltb l.

Section Verify.
  Variable L : hashlib.

  (* what the get_file_metadata generator can yield, computed on demand *)
  Inductive opened := ONone (* does not exist *) | OOpened (i : N) | ONotOpened (* socket *).

  (* step 0: os.open *)
  Definition gfm_open (w : world) (path : list N) : res opened :=
    match p_open w path with
    | Ok i => Ok (OOpened i)
    | Err (XOS ENOENT) => Ok ONone
    | Err (XOS ENXIO) | Err (XOS EOPNOTSUPP) => Ok ONotOpened
    | Err e => Err e
    end.
  Definition gfm_stat (w : world) (path : list N) (o : opened) : res statinfo :=
    match o with
    | OOpened i => p_fstat w i
    | _ => p_stat w path
    end.
  (* step 6: the checksums dict: Manifest names (sorted) -> digest, plus __size__ *)
  Definition gfm_checksums (w : world) (i : N) (st : statinfo) (hashes : list (list N))
    : res (list (list N * hval)) :=
    let e_hashes := sorted_strs hashes in
    libs <- manifest_hashes_to_hashlib e_hashes ;;
    (* hash objects are created (UnsupportedHash raised) before anything is read *)
    _ <- make_hashes L (w_avail w) (libs ++ [s_size]) [] ;;
    data <- p_read w i ;;
    (* a persistent read fault hits both read() and read1(); the schedule is the whole content *)
    cks <- hash_file L (w_avail w) (libs ++ [s_size]) (match data with [] => [] | _ => [data] end) data (st_size st) ;;
    (* ret[ek] = checksums[k] for ek, k in zip(e_hashes + ['__size__'], hashes + ['__size__']) *)
    (fix zipret (eks ks : list (list N)) (acc : list (list N * hval)) : res (list (list N * hval)) :=
       match eks, ks with
       | ek :: er, k :: kr =>
           match assoc k cks with
           | Some v => zipret er kr (dict_set ek v acc)
           | None => Err (XInternal IKey)
           end
       | _, _ => Ok acc
       end) (e_hashes ++ [s_size]) (libs ++ [s_size]) [].

  Definition ftype_name (t : ftype) : list N :=
    match t with
    | FTReg => [114;101;103;117;108;97;114;32;102;105;108;101]
    | FTDir => [100;105;114;101;99;116;111;114;121]
    | FTFifo => [110;97;109;101;100;32;112;105;112;101]
    | FTSock => [85;78;73;88;32;115;111;99;107;101;116]
    end.

  Definition hval_eqb_str (v : hval) (s : list N) : bool := match v with HStr d => ustr_eqb d s | HInt _ => false end.
  Definition hval_eqb_Z (v : hval) (z : Z) : bool := match v with HInt n => Z.eqb (Z.of_N n) z | HStr _ => false end.

  (* verify_path(path, e, expected_dev, last_mtime) -> (ok, names of the differences) *)
  Definition verify_path (w : world) (path : list N) (e : option entry) (expected_dev : option N)
                         (last_mtime : option Z) : res (bool * list (list N)) :=
    match e with
    | Some (ETs _) => Err (XInternal IAssertion)
    | Some (EIgn _) => Ok (true, [])
    | _ =>
        let expect_exist := match e with Some _ => true | None => false end in
        let '(esize, ecks) := match e with Some (EFile _ _ _ s c) => (s, c) | _ => (0%Z, []) end in
        o <- gfm_open w path ;;
        let exists_ := match o with ONone => false | _ => true end in
        if negb (Bool.eqb exists_ expect_exist) then Ok (false, [s_exists])
        else if negb exists_ then Ok (true, [])
        else
          st <- gfm_stat w path o ;;
          if match expected_dev with Some d => negb (st_dev st =? d) | None => false end
          then Err (XCrossDevice path)
          else match st_type st with
               | FTReg =>
                   if negb (st_size st =? 0) && negb (Z.eqb (Z.of_N (st_size st)) esize)
                   then Ok (false, [s_size])
                   else if match last_mtime with Some lm => (st_mtime st <=? lm)%Z | None => false end
                           && negb (st_size st =? 0)
                   then Ok (true, [])
                   else
                     match o with
                     | OOpened i =>
                         cks <- gfm_checksums w i st (map fst ecks) ;;
                         match assoc s_size cks with
                         | None => Err (XInternal IKey)
                         | Some sz =>
                             let d1 := if hval_eqb_Z sz esize then [] else [s_size] in
                             (* for h in sorted(e.checksums): compare *)
                             dl <- (fix cmp (hs : list (list N)) : res (list (list N)) :=
                                      match hs with
                                      | [] => Ok []
                                      | h :: r =>
                                          match assoc h ecks, assoc h cks with
                                          | Some ex, Some got =>
                                              t <- cmp r ;; Ok (if hval_eqb_str got ex then t else h :: t)
                                          | _, _ => Err (XInternal IKey)
                                          end
                                      end) (sorted_strs (map fst ecks)) ;;
                             let diff := d1 ++ dl in
                             Ok (match diff with [] => true | _ => false end, diff)
                         end
                     | _ => Err (XInternal IAssertion)   (* a regular file is always opened *)
                     end
               | t => Ok (false, [s_type])
               end
    end.

  (* update_entry_for_path(path, e, hashes, expected_dev, last_mtime) -> (changed, new size, new checksums) *)
  Definition update_entry_for_path (w : world) (path : list N) (e : entry) (hashes : option (list (list N)))
                                   (expected_dev : option N) (last_mtime : option Z)
    : res (bool * Z * sums) :=
    match e with
    | ETs _ | EIgn _ => Err (XInternal IAssertion)
    | EFile _ _ _ esize ecks =>
        let hashes := match hashes with Some h => h | None => map fst ecks end in
        o <- gfm_open w path ;;
        match o with
        | ONone => Err (XInvalidPath path s_exists)
        | _ =>
            st <- gfm_stat w path o ;;
            if match expected_dev with Some d => negb (st_dev st =? d) | None => false end
            then Err (XCrossDevice path)
            else match st_type st with
                 | FTReg =>
                     if match last_mtime with Some lm => (st_mtime st <=? lm)%Z | None => false end
                        && negb (st_size st =? 0) && Z.eqb (Z.of_N (st_size st)) esize
                     then Ok (false, esize, ecks)
                     else
                       match o with
                       | OOpened i =>
                           cks <- gfm_checksums w i st hashes ;;
                           match assoc s_size cks with
                           | Some (HInt size) =>
                               if negb (st_size st =? 0) && negb (st_size st =? size) then Err (XInternal IAssertion) else
                               let newcks := flat_map (fun kv => match snd kv with HStr d => [(fst kv, d)] | HInt _ => [] end)
                                                      (dict_del s_size cks) in
                               if negb (Z.eqb esize (Z.of_N size)) || negb (sums_eqb ecks newcks)
                               then Ok (true, Z.of_N size, newcks) else Ok (false, esize, ecks)
                           | _ => Err (XInternal IKey)
                           end
                       | _ => Err (XInternal IAssertion)
                       end
                 | _ => Err (XInvalidPath path s_type)
                 end
        end
    end.
End Verify.

Fixpoint nodup_str (l : list (list N)) : list (list N) :=
  match l with
  | [] => []
  | x :: r => if mem_str x r then nodup_str r else x :: nodup_str r
  end.

(* verify_entry_compatibility(e1, e2) -> (ok, diff as (name, value in e1, value in e2)) *)
Definition compat_diff := list (list N * option (list N) * option (list N)).
Definition verify_entry_compatibility (e1 e2 : entry) : res (bool * compat_diff) :=
  match e1, e2 with
  | ETs _, _ | _, ETs _ => Err (XInternal IAssertion)
  | _, _ =>
      let t1 := tag_str (e_tag e1) in
      let t2 := tag_str (e_tag e2) in
      if negb (ustr_eqb t1 t2) && (negb (mem_str t1 compatible_tags) || negb (mem_str t2 compatible_tags))
      then Ok (false, [(s_type, Some t1, Some t2)])
      else
        match e1, e2 with
        | EIgn _, _ => Ok (true, [])              (* t1 == 'IGNORE' (then t2 is IGNORE too) *)
        | EFile _ _ _ s1 c1, EFile _ _ _ s2 c2 =>
            if negb (Z.eqb s1 s2) then Ok (false, [(s_size, None, None)]) else
            let hashes := sorted_strs (nodup_str (map fst (c1 ++ c2))) in
            let diff := flat_map (fun h => let h1 := assoc h c1 in let h2 := assoc h c2 in
                                           if match h1, h2 with
                                              | Some a, Some b => ustr_eqb a b
                                              | None, None => true
                                              | _, _ => false
                                              end then [] else [(h, h1, h2)]) hashes in
            Ok (forallb (fun d => match d with (_, Some _, Some _) => false | _ => true end) diff, diff)
        | _, _ => Err (XInternal IAttribute)       (* .size of an IGNORE entry: unreachable *)
        end
  end.
