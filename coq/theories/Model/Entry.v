(* Manifest entries and the per-line codec of gemato/manifest.py (hand-written model).
   No proofs in Model/ files, so the model still runs when a proof breaks. *)
From Gemato Require Import Py.PyStr Py.PyTime Gen.PyFacts Gen.Tables Gen.Util.
Open Scope N_scope.

(* --- results ---------------------------------------------------------------- *)
Inductive errno := ENOENT | EACCES | EPERM | EIO | ENOMEM | ELOOP | ENOTDIR | EISDIR
                 | ENXIO | EOPNOTSUPP | EMFILE | ESTALE | EOther (n : N).
Inductive ikind := IAttribute | IKey | IIndex | IAssertion | IValue | IOverflow | IType
                 | IUnicode | INotImplemented.
Inductive pgpfail := PGPVerification | PGPExpiredKey | PGPRevokedKey | PGPUnknownSig
                   | PGPUntrustedSig | PGPSigning | PGPNoImpl | PGPKeyImport.
Inductive exn :=
| XSyntax | XUnsigned
| XMismatch (p : ustr) (names : list ustr)
| XIncompatible (p : ustr)
| XCrossDevice (p : ustr)
| XSymlinkLoop (p : ustr)
| XInvalidPath (p what : ustr)
| XUnsupportedHash (h : ustr)
| XUnsupportedCompression (s : ustr)
| XPGP (k : pgpfail)
| XOS (e : errno)
| XBadCompressed            (* gzip.BadGzipFile / lzma.LZMAError / errno-less OSError of bz2 *)
| XCodecInternal            (* zlib.error / EOFError from a damaged stream: not a gemato or OS exception *)
| XInternal (k : ikind)
| XOutOfFuel                (* model only *)
| XOracleMiss (q : list bytes).   (* model only: the harness must extend an oracle table *)
Inductive res (A : Type) := Ok (a : A) | Err (e : exn).
Arguments Ok {A} a. Arguments Err {A} e.
Definition bind {A B} (r : res A) (f : A -> res B) : res B :=
  match r with Ok a => f a | Err e => Err e end.
Notation "x <- r ;; k" := (bind r (fun x => k)) (at level 61, r at next level, right associativity).
Notation "' pat <- r ;; k" := (bind r (fun x => match x with pat => k end))
  (at level 61, pat pattern, r at next level, right associativity).

(* --- entries ---------------------------------------------------------------- *)
Inductive tag := TTIMESTAMP | TMANIFEST | TIGNORE | TDATA | TDIST | TEBUILD | TMISC | TAUX.
Definition tag_eqb (a b : tag) : bool :=
  match a, b with
  | TTIMESTAMP, TTIMESTAMP | TMANIFEST, TMANIFEST | TIGNORE, TIGNORE | TDATA, TDATA
  | TDIST, TDIST | TEBUILD, TEBUILD | TMISC, TMISC | TAUX, TAUX => true
  | _, _ => false
  end.
Definition all_tags := [TTIMESTAMP; TMANIFEST; TIGNORE; TDATA; TDIST; TEBUILD; TMISC; TAUX].

(* the entry classes of manifest.py, by name *)
Definition class_name (t : tag) : ustr :=
  (* "ManifestEntry" *) [77;97;110;105;102;101;115;116;69;110;116;114;121] ++
  match t with
  | TTIMESTAMP => [84;73;77;69;83;84;65;77;80] | TMANIFEST => [77;65;78;73;70;69;83;84]
  | TIGNORE => [73;71;78;79;82;69] | TDATA => [68;65;84;65] | TDIST => [68;73;83;84]
  | TEBUILD => [69;66;85;73;76;68] | TMISC => [77;73;83;67] | TAUX => [65;85;88]
  end.
Definition class_of_name (n : ustr) : option tag :=
  find (fun t => ustr_eqb (class_name t) n) all_tags.
(* MANIFEST_TAG_MAPPING[s]  (None = KeyError) *)
Definition lookup_tag (s : ustr) : option tag :=
  match assoc s tag_mapping with Some cls => class_of_name cls | None => None end.
(* cls.tag *)
Definition tag_str (t : tag) : ustr :=
  match assoc (class_name t) class_tags with Some s => s | None => [] end.

Definition sums := list (ustr * ustr).    (* a dict: unique keys, insertion order *)

Inductive entry :=
| ETs (ts : datetime)
| EIgn (path : ustr)
(* [path] is the .path attribute; [aux] is .aux_path, meaningful for AUX only *)
| EFile (t : tag) (path : ustr) (aux : ustr) (size : Z) (cks : sums).

Definition e_tag (e : entry) : tag :=
  match e with ETs _ => TTIMESTAMP | EIgn _ => TIGNORE | EFile t _ _ _ _ => t end.
Definition e_path (e : entry) : ustr :=
  match e with ETs _ => [] | EIgn p => p | EFile _ p _ _ _ => p end.

(* dict equality: same key set, same values (order irrelevant) *)
Definition sums_eqb (a b : sums) : bool :=
  (length a =? length b)%nat &&
  forallb (fun '(k, v) => match assoc k b with Some v' => ustr_eqb v v' | None => false end) a.

(* __eq__ of the entry classes *)
Definition entry_eqb (a b : entry) : bool :=
  match a, b with
  | ETs x, ETs y => dt_eqb x y
  | EIgn p, EIgn q => ustr_eqb p q
  | EFile t p _ s c, EFile t' p' _ s' c' =>
      ustr_eqb (tag_str t) (tag_str t') && ustr_eqb p p' && Z.eqb s s' && sums_eqb c c'
  | _, _ => false
  end.

(* __lt__: by tag text, then by timestamp / path *)
Definition entry_ltb (a b : entry) : bool :=
  let ta := tag_str (e_tag a) in let tb := tag_str (e_tag b) in
  ustr_ltb ta tb ||
  (ustr_eqb ta tb &&
   match a, b with
   | ETs x, ETs y => dt_ltb x y
   | _, _ => ustr_ltb (e_path a) (e_path b)
   end).

(* --- path escaping ------------------------------------------------------------ *)
Definition lower_hex (c : cp) : cp := if (65 <=? c) && (c <=? 70) then c + 32 else c.
Fixpoint encode_char_with (forms : list (option N * cp * nat * bool)) (c : cp) : ustr :=
  match forms with
  | [] => [c]    (* unreachable for the forms in the source: the last bound is None *)
  | (bound, letter, width, upper) :: r =>
      let hit := match bound with Some b => c <=? b | None => true end in
      if hit then 92 :: letter :: (if upper then hexfmt width c else map lower_hex (hexfmt width c))
      else encode_char_with r c
  end.
Definition encode_char (c : cp) : ustr := encode_char_with encode_forms c.
(* .encoded_path *)
Definition encode_path (p : ustr) : ustr :=
  flat_map (fun c => if disallowed_path_char c then encode_char c else [c]) p.

(* the escape regex: after a backslash try the alternatives in order *)
Fixpoint try_forms (forms : list (cp * nat)) (r : ustr) : option (N * ustr) :=
  match forms with
  | [] => None
  | (letter, k) :: fr =>
      match r with
      | c :: r' => if c =? letter
                   then match hexparse k r' 0 with
                        | Some x => Some x
                        | None => try_forms fr r
                        end
                   else try_forms fr r
      | [] => None
      end
  end.
(* escape_seq_re.sub(decode_char, s); decode_char: chr(int(hex,16)), out of range -> SyntaxError *)
Fixpoint decode_fuel (fuel : nat) (s : ustr) : res ustr :=
  match fuel with
  | O => Err XOutOfFuel
  | S f =>
      match s with
      | [] => Ok []
      | c :: r =>
          if c =? 92 then
            match try_forms escape_forms r with
            | Some (v, r') => if v <=? max_cp then (t <- decode_fuel f r' ;; Ok (v :: t))
                              else Err XSyntax
            | None => Err XSyntax
            end
          else (t <- decode_fuel f r ;; Ok (c :: t))
      end
  end.
Definition decode_path (s : ustr) : res ustr := decode_fuel (S (length s)) s.

Definition slash : cp := 47.
Definition s_files : ustr := [102;105;108;101;115].          (* "files" *)
(* os.path.join(a, b) *)
Definition path_join (a b : ustr) : ustr :=
  match b with
  | c :: _ => if c =? slash then b else
      match a with
      | [] => b
      | _ => if py_endswith a [slash] then a ++ b else a ++ [slash] ++ b
      end
  | [] => match a with [] => [] | _ => if py_endswith a [slash] then a else a ++ [slash] end
  end.

(* process_path(data) where data = the first (at most two) fields *)
Definition process_path (data : list ustr) : res ustr :=
  match data with
  | [_; p] =>
      match p with
      | [] => Err XSyntax
      | c :: _ =>
          if c =? slash then Err XSyntax else
          path <- decode_path p ;;
          match path with
          | c' :: _ => if c' =? slash then Err XSyntax else Ok path
          | [] => Err (XInternal IIndex)     (* path[0] on an empty string: unreachable *)
          end
      end
  | _ => Err XSyntax
  end.

Fixpoint parse_cks (l : list ustr) (acc : sums) : res sums :=
  match l with
  | [] => Ok acc
  | [_] => Err XSyntax
  | k :: v :: r => parse_cks r (dict_set k v acc)
  end.
(* process_checksums(data) *)
Definition process_checksums (data : list ustr) : res (Z * sums) :=
  match data with
  | _ :: _ :: sz :: rest =>
      match py_int nd_starts sz with
      | Some z => if (z <? 0)%Z then Err XSyntax else (c <- parse_cks rest [] ;; Ok (z, c))
      | None => Err XSyntax
      end
  | _ => Err XSyntax
  end.

Definition mk_file (t : tag) (p : ustr) (size : Z) (c : sums) : entry :=
  match t with
  | TAUX => EFile TAUX (path_join s_files p) p size c
  | _ => EFile t p [] size c
  end.

(* cls.from_list(data) for the class registered under the line's tag *)
Definition from_list (t : tag) (data : list ustr) : res entry :=
  match t with
  | TTIMESTAMP =>
      match data with
      | [_; v] => match strptime nd_starts v with Some d => Ok (ETs d) | None => Err XSyntax end
      | _ => Err XSyntax
      end
  | TIGNORE => p <- process_path data ;; Ok (EIgn p)
  | TDIST =>
      p <- process_path (firstn 2 data) ;;
      if contains_cp slash p then Err XSyntax else
      '(sz, c) <- process_checksums data ;; Ok (mk_file TDIST p sz c)
  | _ =>
      p <- process_path (firstn 2 data) ;;
      '(sz, c) <- process_checksums data ;; Ok (mk_file t p sz c)
  end.

Definition cks_ltb (a b : ustr * ustr) : bool :=
  ustr_ltb (fst a) (fst b) || (ustr_eqb (fst a) (fst b) && ustr_ltb (snd a) (snd b)).
Definition sorted_cks (c : sums) : sums := py_sorted cks_ltb c.

(* e.to_list() *)
Definition to_list (e : entry) : res (list ustr) :=
  match e with
  | ETs d => Ok [tag_str TTIMESTAMP; strftime d]
  | EIgn p => Ok [tag_str TIGNORE; encode_path p]
  | EFile t p _ size c =>
      let ep := encode_path p in
      let tail := str_of_Z size :: flat_map (fun kv => [fst kv; snd kv]) (sorted_cks c) in
      match t with
      | TAUX => if path_inside_dir ep s_files then Ok (tag_str t :: skipn 6 ep :: tail)
                else Err (XInternal IAssertion)
      | _ => Ok (tag_str t :: ep :: tail)
      end
  end.
