(* The filesystem as gemato can observe it (stat, never lstat; open; fstat; scandir; read): an
   inode graph.  A directory symlink is a second edge to a directory inode, so loops are cycles. *)
From Gemato Require Import Py.PyStr Py.PyPath Model.Entry.
Open Scope N_scope.

Inductive target := TIno (i : N) | TErr (e : errno).      (* TErr: dangling / looping / unreadable link *)
Inductive fkind := KFifo | KSock.
Inductive inode :=
| IDir (dev : N) (parent : N) (ents : list (list N * target))      (* ents in scandir order *)
| IFile (dev : N) (mtime : Z) (st_size : N) (data : list N)         (* st_size kept apart from the content *)
| ISpecial (dev : N) (k : fkind).

(* PMOpen: open(path) of the Python level (how Manifest files are opened), as opposed to os.open (hashing) *)
Inductive prim := POpen | PStat | PFstat | PScandir | PRead | PMOpen.
Definition prim_eqb (a b : prim) : bool :=
  match a, b with
  | POpen, POpen | PStat, PStat | PFstat, PFstat | PScandir, PScandir | PRead, PRead | PMOpen, PMOpen => true
  | _, _ => false
  end.

Record world := mk_world {
  w_root : N;                                   (* inode of the directory of the top-level Manifest *)
  w_nodes : list (N * inode);
  w_faults : list (prim * N * errno);           (* persistent faults: primitive x inode -> errno *)
  w_avail : list (list N)                       (* hashlib.algorithms_available *)
}.

Fixpoint lookup_ino (nodes : list (N * inode)) (i : N) : option inode :=
  match nodes with
  | [] => None
  | (j, n) :: r => if i =? j then Some n else lookup_ino r i
  end.
Definition node (w : world) (i : N) : option inode := lookup_ino (w_nodes w) i.

Fixpoint fault_in (fs : list (prim * N * errno)) (p : prim) (i : N) : option errno :=
  match fs with
  | [] => None
  | (q, j, e) :: r => if prim_eqb p q && (i =? j) then Some e else fault_in r p i
  end.
Definition fault (w : world) (p : prim) (i : N) : option errno := fault_in (w_faults w) p i.

Fixpoint lookup_name (ents : list (list N * target)) (n : list N) : option target :=
  match ents with
  | [] => None
  | (m, t) :: r => if ustr_eqb n m then Some t else lookup_name r n
  end.

(* kernel path resolution of a relative path, starting at directory inode [cur] *)
Fixpoint resolve_comps (w : world) (cur : N) (comps : list (list N)) : res N :=
  match comps with
  | [] => Ok cur
  | c :: r =>
      match node w cur with
      | Some (IDir _ parent ents) =>
          match c with
          | [] => resolve_comps w cur r
          | _ =>
              if is_dot c then resolve_comps w cur r
              else if is_dotdot c then resolve_comps w parent r
              else match lookup_name ents c with
                   | Some (TIno i) => resolve_comps w i r
                   | Some (TErr e) => Err (XOS e)
                   | None => Err (XOS ENOENT)
                   end
          end
      | Some _ => Err (XOS ENOTDIR)
      | None => Err (XOS ENOENT)
      end
  end.
(* The loader's root_directory is the one-letter path "R" in the model: system paths handed to
   the primitives are os.path.join("R", relative path); "R" itself is the root inode. *)
Definition rootdir : list N := [82].
Definition unroot (path : list N) : list N :=
  match path with
  | 82 :: 47 :: r => r
  | [82] => []
  | _ => path
  end.
(* os.fsencode (utf-8, surrogateescape): a lone surrogate other than U+DC80..U+DCFF cannot be handed to the kernel *)
Definition bad_surrogate (c : N) : bool :=
  (55296 <=? c) && (c <=? 57343) && negb ((56448 <=? c) && (c <=? 56575)).
(* a trailing slash requires a directory *)
Definition resolve (w : world) (syspath : list N) : res N :=
  let path := unroot syspath in
  if existsb (N.eqb 0) syspath then Err (XInternal IValue) else    (* ValueError: embedded null byte *)
  if existsb bad_surrogate syspath then Err (XInternal IUnicode) else
  i <- resolve_comps w (w_root w) (split_sep path sl) ;;
  if py_endswith path [sl] then
    match node w i with Some (IDir _ _ _) => Ok i | Some _ => Err (XOS ENOTDIR) | None => Err (XOS ENOENT) end
  else Ok i.

Inductive ftype := FTReg | FTDir | FTFifo | FTSock.
Record statinfo := mk_stat { st_dev : N; st_ino : N; st_type : ftype; st_size : N; st_mtime : Z }.

Definition stat_of (i : N) (n : inode) : statinfo :=
  match n with
  | IDir d _ _ => mk_stat d i FTDir 0 0
  | IFile d m s _ => mk_stat d i FTReg s m
  | ISpecial d KFifo => mk_stat d i FTFifo 0 0
  | ISpecial d KSock => mk_stat d i FTSock 0 0
  end.

(* os.stat(path) *)
Definition p_stat (w : world) (path : list N) : res statinfo :=
  i <- resolve w path ;;
  match fault w PStat i with
  | Some e => Err (XOS e)
  | None => match node w i with Some n => Ok (stat_of i n) | None => Err (XOS ENOENT) end
  end.

(* os.open(path, O_RDONLY|O_NONBLOCK): the inode, or the errno (ENXIO for a socket) *)
Definition p_open (w : world) (path : list N) : res N :=
  i <- resolve w path ;;
  match fault w POpen i with
  | Some e => Err (XOS e)
  | None => match node w i with
            | Some (ISpecial _ KSock) => Err (XOS ENXIO)
            | Some _ => Ok i
            | None => Err (XOS ENOENT)
            end
  end.
Definition p_fstat (w : world) (i : N) : res statinfo :=
  match fault w PFstat i with
  | Some e => Err (XOS e)
  | None => match node w i with Some n => Ok (stat_of i n) | None => Err (XOS ENOENT) end
  end.
(* os.path.lexists(path): the name exists in its directory, whatever it points to *)
Definition p_lexists (w : world) (path : list N) : bool :=
  match resolve w (dirname path) with
  | Ok i => match node w i with
            | Some (IDir _ _ ents) => match lookup_name ents (basename path) with Some _ => true | None => false end
            | _ => false
            end
  | Err _ => false
  end.
(* reading the whole content of an open regular file *)
Definition p_read (w : world) (i : N) : res (list N) :=
  match fault w PRead i with
  | Some e => Err (XOS e)
  | None => match node w i with
            | Some (IFile _ _ _ d) => Ok d
            | Some (IDir _ _ _) => Err (XOS EISDIR)
            | _ => Ok []
            end
  end.
(* open(path, 'rb') of the Python level: a directory cannot be opened for reading *)
Definition p_open_file (w : world) (path : list N) : res N :=
  i <- p_open w path ;;
  match fault w PMOpen i with
  | Some e => Err (XOS e)
  | None => match node w i with Some (IDir _ _ _) => Err (XOS EISDIR) | _ => Ok i end
  end.

(* os.scandir(path) as os.walk uses it: (name, is_dir) in directory order; is_dir() swallows errors *)
Definition p_scandir (w : world) (path : list N) : res (list (list N * bool)) :=
  i <- resolve w path ;;
  match fault w PScandir i with
  | Some e => Err (XOS e)
  | None =>
      match node w i with
      | Some (IDir _ _ ents) =>
          Ok (map (fun nt => (fst nt,
                              match snd nt with
                              | TIno j => match node w j with
                                          | Some (IDir _ _ _) => true
                                          | _ => false
                                          end
                              | TErr _ => false
                              end)) ents)
      | Some _ => Err (XOS ENOTDIR)
      | None => Err (XOS ENOENT)
      end
  end.
