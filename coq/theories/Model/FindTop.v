(* gemato/find_top_level.py: walk upwards from a directory to the outermost covering Manifest;
   and ManifestFile.find_path_entry / find_dist_entry / find_manifests_for_path / find_timestamp. *)
From Gemato Require Import Py.PyStr Gen.Tables Gen.Util Model.Entry Model.Text.
Open Scope N_scope.

(* ManifestFile.find_path_entry *)
Fixpoint find_path_entry (es : list entry) (path : ustr) : option entry :=
  match es with
  | [] => None
  | e :: r =>
      match e with
      | EIgn p => if path_starts_with path p then Some e else find_path_entry r path
      | ETs _ => find_path_entry r path
      | EFile t p _ _ _ =>
          if tag_eqb t TDIST then find_path_entry r path
          else if ustr_eqb p path then Some e else find_path_entry r path
      end
  end.
Definition find_dist_entry (es : list entry) (name : ustr) : option entry :=
  find (fun e => match e with EFile TDIST p _ _ _ => ustr_eqb p name | _ => false end) es.
Definition find_timestamp (es : list entry) : option entry :=
  find (fun e => match e with ETs _ => true | _ => false end) es.

(* what a level of the ancestor chain looks like to find_top_level_manifest *)
Inductive fres :=
| FAbsent                                  (* FileNotFoundError *)
| FErr (e : exn)                           (* any other failure of open / decompress *)
| FText (dev : N) (text : ustr).           (* opened: device of the file, decoded content *)
Record level := mk_level {
  lv_stat : res (N * bool);                (* os.stat(cur_path): (st_dev, is it the root directory) *)
  lv_files : list (ustr * fres)            (* Manifest-named files of this directory *)
}.

Definition s_Manifest : ustr := [77;97;110;105;102;101;115;116].
Definition manifest_filenames (allow_compressed : bool) : list ustr :=
  if allow_compressed then map (fun suf => s_Manifest ++ suf) potential_suffixes
  else top_manifest_filenames.

Definition lookup_file (lv : level) (name : ustr) : fres :=
  match assoc name (lv_files lv) with Some f => f | None => FAbsent end.

Definition lastn {A} (n : nat) (l : list A) : list A := skipn (length l - n) l.
(* os.path.relpath(path, path/../.. (i times)) for a canonical absolute path: its last i components *)
Definition relpath_up (comps : list ustr) (i : nat) : ustr := join [47] (lastn i comps).

Inductive probe := PReturn | PFound (name : ustr) | PNone.

(* the inner "for m_name in manifest_filenames" loop of one level *)
Fixpoint try_names (names : list ustr) (lv : level) (orig : N) (allow_xdev : bool) (rel : ustr) : res probe :=
  match names with
  | [] => Ok PNone
  | n :: r =>
      match lookup_file lv n with
      | FAbsent => try_names r lv orig allow_xdev rel
      | FErr e => Err e
      | FText fdev text =>
          if negb (fdev =? orig) && negb allow_xdev then Ok PReturn else
          '(es, _) <- load text false ;;
          match find_path_entry es rel with
          | Some (EIgn _) => Ok PReturn
          | _ => Ok (PFound n)
          end
      end
  end.

Fixpoint ftl_loop (levels : list level) (i : nat) (comps : list ustr) (allow_xdev : bool)
                  (names : list ustr) (orig : option N) (last : option (nat * ustr))
  : res (option (nat * ustr)) :=
  match levels with
  | [] => Ok last
  | lv :: up =>
      '(dev, is_root) <- lv_stat lv ;;
      let crossing := match orig with Some d => negb (d =? dev) && negb allow_xdev | None => false end in
      if crossing then Ok last else
      let orig' := match orig with Some d => d | None => dev end in
      p <- try_names names lv orig' allow_xdev (relpath_up comps i) ;;
      match p with
      | PReturn => Ok last
      | PFound n => if is_root then Ok (Some (i, n))
                    else ftl_loop up (S i) comps allow_xdev names (Some orig') (Some (i, n))
      | PNone => if is_root then Ok last
                 else ftl_loop up (S i) comps allow_xdev names (Some orig') last
      end
  end.

(* find_top_level_manifest(path, allow_xdev, allow_compressed): [levels] from the start directory
   upwards to the root, [comps] the components of the canonical start path.  The result is
   (number of levels above the start directory, file name). *)
Definition find_top_level (levels : list level) (comps : list ustr) (allow_xdev allow_compressed : bool)
  : res (option (nat * ustr)) :=
  ftl_loop levels 0 comps allow_xdev (manifest_filenames allow_compressed) None None.
