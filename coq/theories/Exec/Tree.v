(* Decoding of tree cases (world, oracle tables, loader parameters, operations) and the runner
   of operation sequences on the executable model. *)
From Coq Require Import String.
From Gemato Require Import Py.PyStr Py.PyLit Py.PyPath Gen.Tables Model.Entry Model.Text Model.OpenPGP
  Model.Hash Model.FS Model.Verify Model.Loader Model.Update Gen.Profile Exec.Sx Exec.Oracles.
Open Scope N_scope.

Definition dec_otable (x : sx) : otable :=
  map (fun e => match x_list e with [n; c; d] => (x_str n, x_str c, x_str d) | _ => ([], [], []) end) (x_list x).

Definition dec_target (x : sx) : target :=
  match x with
  | SN n => TIno (Z.to_N n)
  | _ => match x_list x with [_; e] => TErr (dec_errno e) | _ => TErr ENOENT end
  end.
Definition dec_inode (x : sx) : N * inode :=
  match x_list x with
  | [i; k; a; b; c] =>
      if ustr_eqb (x_str k) (u "d")
      then (x_N i, IDir (x_N a) (x_N b) (map (fun e => match x_list e with [n; t] => (x_str n, dec_target t) | _ => ([], TErr ENOENT) end) (x_list c)))
      else (x_N i, ISpecial (x_N a) (if ustr_eqb (x_str b) (u "fifo") then KFifo else KSock))
  | [i; k; d; m; s; data] => (x_N i, IFile (x_N d) (x_Z m) (x_N s) (x_str data))
  | _ => (0, ISpecial 0 KFifo)
  end.
Definition dec_prim (x : sx) : prim :=
  let s := x_str x in
  if ustr_eqb s (u "open") then POpen else if ustr_eqb s (u "stat") then PStat
  else if ustr_eqb s (u "fstat") then PFstat else if ustr_eqb s (u "scandir") then PScandir else if ustr_eqb s (u "mopen") then PMOpen else PRead.
Definition dec_world (x : sx) : world :=
  match x_list x with
  | [r; nodes; faults; avail] =>
      mk_world (x_N r) (map dec_inode (x_list nodes))
               (map (fun f => match x_list f with [p; i; e] => (dec_prim p, x_N i, dec_errno e) | _ => (POpen, 0, EIO) end) (x_list faults))
               (x_strs avail)
  | _ => mk_world 0 [] [] []
  end.

(* codec table: (direction, format, input bytes, result): direction "d" = decompress, "c" = compress;
   the result is the output bytes, or 0 = invalid data (BadGzipFile / LZMAError / errno-less OSError),
   or 1 = damaged stream (zlib.error / EOFError); an unlisted query is an oracle miss *)
Definition ctable := list (list N * list N * list N * res (list N)).
Definition dec_ctable (x : sx) : ctable :=
  map (fun e => match x_list e with
                | [d; f; c; SS p] => (x_str d, x_str f, x_str c, Ok p)
                | [d; f; c; SN 0] => (x_str d, x_str f, x_str c, Err XBadCompressed)
                | [d; f; c; _] => (x_str d, x_str f, x_str c, Err XCodecInternal)
                | _ => ([], [], [], Err XBadCompressed)
                end) (x_list x).
Fixpoint table_codec (t : ctable) (dir fmt data : list N) : res (list N) :=
  match t with
  | [] => Err (XOracleMiss [dir; fmt; data])
  | (d, f, c, p) :: r =>
      if ustr_eqb d dir && ustr_eqb f fmt && ustr_eqb c data then p else table_codec r dir fmt data
  end.
Definition table_decompress (t : ctable) : list N -> list N -> res (list N) := table_codec t (u "d").
Definition table_compress (t : ctable) : list N -> list N -> res (list N) := table_codec t (u "c").

Definition dec_profile (x : sx) : profile_id :=
  let s := x_str x in
  if ustr_eqb s (u "ebuild") then PEbuild else if ustr_eqb s (u "old-ebuild") then POldEbuild else PDefault.
Definition dec_policy (x : sx) : policy :=
  match x_Z x with 0%Z => PolThrow | 1%Z => PolFalse | 2%Z => PolTrue | 3%Z => PolNone | _ => PolParity end.

(* (hashes sort watermark format profile sign keyid verify_openpgp): the constructor arguments; the
   profile then fills in what the user left unset (translated set_loader_options), and the
   constructor's own defaults (sort False, format 'gz') apply last *)
Definition dec_options (x : sx) : options :=
  match x_list x with
  | [h; s; wm; f; p; sg; k; v] =>
      let pid := dec_profile p in
      let lo := profile_loader_opts pid (mk_lo (x_opt x_strs h) (x_opt x_bool s) (x_opt x_Z wm) (x_opt x_str f)) in
      mk_opts (lo_hashes lo) (match lo_sort lo with Some b => b | None => false end) (lo_compress_watermark lo)
              (match lo_compress_format lo with Some fm => fm | None => u "gz" end) pid
              (x_opt x_bool sg) (x_opt x_str k) (x_bool v)
  | _ => mk_opts None false None (u "gz") PDefault None None false
  end.

Definition enc_call (c : list N * list (list N)) : sx := SL [SS (fst c); sstrs (snd c)].
Definition enc_edict (d : edict) : sx :=
  SL (map (fun kv => SL [SS (fst kv); SL (map (fun fe => SL [SS (fst fe); enc_entry (snd fe)]) (snd kv))]) d).

(* every file reachable from the root through directory entries, depth-first, with its content;
   directories reached a second time (symlinks) are not descended into again *)
Fixpoint list_files (fuel : nat) (w : world) (i : N) (prefix : list N) (seen : list N) : list sx :=
  match fuel with
  | O => []
  | S f =>
      match node w i with
      | Some (IDir _ _ ents) =>
          flat_map (fun nt =>
            match snd nt with
            | TIno j =>
                match node w j with
                | Some (IFile _ m _ d) => [SL [SS (prefix ++ fst nt); SS d; SN m]]
                | Some (IDir _ par _) =>
                    if (par =? i) && negb (existsb (N.eqb j) seen)
                    then list_files f w j (prefix ++ fst nt ++ [sl]) (i :: seen) else []
                | _ => []
                end
            | TErr _ => []
            end) ents
      | _ => []
      end
  end.
Definition enc_world_files (w : world) : sx := SL (list_files (S (length (w_nodes w))) w (w_root w) [] []).

(* A deterministic stand-in for gpg, implemented identically in the harness (tools/corr/engine_tree.py FakePGP):
   the signature block names the key; the key id "bad" has no usable secret key; verification accepts exactly
   the messages whose signature block starts with FAKESIG.  Real gpg is exercised separately (C04, C05, C14). *)
Definition fake_head : list N := u "-----BEGIN PGP SIGNED MESSAGE-----" ++ [10] ++ u "Hash: FAKE" ++ [10; 10].
Definition fake_sig (k : list N) : list N :=
  u "-----BEGIN PGP SIGNATURE-----" ++ [10; 10] ++ u "FAKESIG " ++ k ++ [10] ++ u "-----END PGP SIGNATURE-----" ++ [10].
Fixpoint has_infix (p s : list N) : bool :=
  match s with
  | [] => match p with [] => true | _ => false end
  | _ :: r => py_startswith s p || has_infix p r
  end.
Definition fake_pgp_verify (t : list N) : res sigdata :=
  if has_infix ([10] ++ u "FAKESIG ") t then Ok (mk_sig (u "FAKE") [] [] (u "FAKE")) else Err (XPGP PGPVerification).
Definition fake_pgp_sign (t : list N) (k : option (list N)) : res (list N) :=
  let kid := match k with Some x => x | None => u "default" end in
  if ustr_eqb kid (u "bad") then Err (XPGP PGPSigning) else Ok (fake_head ++ t ++ fake_sig kid).

Section Run.
  Variable dt : otable.
  Variable ct : ctable.
  Let L := table_hashlib dt.
  Let dec := table_decompress ct.
  Let comp := table_compress ct.
  Let pgp := fake_pgp_verify.
  Let sign := fake_pgp_sign.
  Variable wmtime : Z.
  Variable reload : world -> res loader.

  Definition now0 : PyTime.datetime := PyTime.mkdt 2000 1 1 0 0 0.
  Definition err_sx (e : exn) : sx := SL [sym "err"; enc_exn e].

  (* one operation; returns the new world and loader and the encoded result *)
  Definition run_op (w : world) (l : loader) (op : sx) : world * loader * sx :=
    match x_list op with
    | SS c :: args =>
        if ustr_eqb c (u "verify") then
          match args with
          | [p; pol; lm] =>
              match assert_directory_verifies L dec pgp w l (x_str p) (dec_policy pol) (x_opt x_Z lm) with
              | Ok (l', b, log) => (w, l', SL [sym "ok"; SL [sbool b; SL (map enc_call log)]])
              | Err e => (w, l, err_sx e)
              end
          | _ => (w, l, sym "bad-args")
          end
        else if ustr_eqb c (u "find_path_entry") then
          match args with
          | [p] => match find_path_entry_l L dec pgp w l (x_str p) with
                   | Ok (l', e) => (w, l', SL [sym "ok"; sopt enc_entry e])
                   | Err e => (w, l, err_sx e)
                   end
          | _ => (w, l, sym "bad-args")
          end
        else if ustr_eqb c (u "verify_path") then
          match args with
          | [p] => match verify_path_l L dec pgp w l (x_str p) with
                   | Ok (l', (b, d)) => (w, l', SL [sym "ok"; SL [sbool b; sstrs d]])
                   | Err e => (w, l, err_sx e)
                   end
          | _ => (w, l, sym "bad-args")
          end
        else if ustr_eqb c (u "assert_path_verifies") then
          match args with
          | [p] => match assert_path_verifies L dec pgp w l (x_str p) with
                   | Ok l' => (w, l', SL [sym "ok"; SL []])
                   | Err e => (w, l, err_sx e)
                   end
          | _ => (w, l, sym "bad-args")
          end
        else if ustr_eqb c (u "find_dist_entry") then
          match args with
          | [f; p] => match find_dist_entry_l L dec pgp w l (x_str f) (x_str p) with
                      | Ok (l', e) => (w, l', SL [sym "ok"; sopt enc_entry e])
                      | Err e => (w, l, err_sx e)
                      end
          | _ => (w, l, sym "bad-args")
          end
        else if ustr_eqb c (u "entry_dict") then
          match args with
          | [p] => match get_file_entry_dict L dec pgp w l (x_str p) None true with
                   | Ok (l', d) => (w, l', SL [sym "ok"; enc_edict d])
                   | Err e => (w, l, err_sx e)
                   end
          | _ => (w, l, sym "bad-args")
          end
        else if ustr_eqb c (u "loaded") then (w, l, SL [sym "ok"; sstrs (map fst (l_loaded l))])
        else if ustr_eqb c (u "update") then
          match args with
          | [p; hs; lm] =>
              match update_entries_for_directory L dec pgp w l (x_str p) (x_opt x_strs hs) (x_opt x_Z lm) with
              | Ok l' => (w, l', SL [sym "ok"; SL []])
              | Err e => (w, l, err_sx e)
              end
          | _ => (w, l, sym "bad-args")
          end
        else if ustr_eqb c (u "update_path") then
          match args with
          | [p; ty; hs] =>
              match update_one_path L dec pgp w l (x_str p) (x_str ty) (x_opt x_strs hs) with
              | Ok l' => (w, l', SL [sym "ok"; SL []])
              | Err e => (w, l, err_sx e)
              end
          | _ => (w, l, sym "bad-args")
          end
        else if ustr_eqb c (u "save") then
          match args with
          | [hs; force; srt; wm; fmt] =>
              match save_manifests L dec comp pgp sign wmtime w l
                      (mk_so (x_opt x_strs hs) (x_bool force) (x_opt x_bool srt) (x_opt x_Z wm) (x_opt x_str fmt)) with
              | Ok (w', l') => (w', l', SL [sym "ok"; SL []])
              | Err e => (w, l, err_sx e)
              end
          | _ => (w, l, sym "bad-args")
          end
        else if ustr_eqb c (u "set_timestamp") then
          match args with
          | [d] => match set_timestamp L dec pgp w l (dec_dt d) with
                   | Ok l' => (w, l', SL [sym "ok"; SL []])
                   | Err e => (w, l, err_sx e)
                   end
          | _ => (w, l, sym "bad-args")
          end
        (* gemato update --incremental: last_mtime is the TIMESTAMP entry read as UTC *)
        else if ustr_eqb c (u "update_inc") then
          match args with
          | [p; hs; scale] =>
              (* scale: file times of this world are given in 1/scale seconds (sub-second mtimes) *)
              match find_timestamp_l L dec pgp w l with
              | Ok (l1, Some (_, ETs ts)) =>
                  match update_entries_for_directory L dec pgp w l1 (x_str p) (x_opt x_strs hs) (Some (PyTime.utc_epoch ts * x_Z scale)%Z) with
                  | Ok l' => (w, l', SL [sym "ok"; SL []])
                  | Err e => (w, l, err_sx e)
                  end
              | Ok (_, _) => (w, l, SL [sym "err"; SL [sym "NoTimestamp"]])
              | Err e => (w, l, err_sx e)
              end
          | _ => (w, l, sym "bad-args")
          end
        (* the CLI after the scan: TIMESTAMP := start of the scan, if requested or if there is one already *)
        else if ustr_eqb c (u "touch_timestamp") then
          match args with
          | [flag; d] =>
              match find_timestamp_l L dec pgp w l with
              | Ok (l1, found) =>
                  if x_bool flag || match found with Some _ => true | None => false end then
                    match set_timestamp L dec pgp w l1 (dec_dt d) with
                    | Ok l' => (w, l', SL [sym "ok"; SL []])
                    | Err e => (w, l, err_sx e)
                    end
                  else (w, l1, SL [sym "ok"; SL []])
              | Err e => (w, l, err_sx e)
              end
          | _ => (w, l, sym "bad-args")
          end
        else if ustr_eqb c (u "find_timestamp") then
          match find_timestamp_l L dec pgp w l with
          | Ok (l', e) => (w, l', SL [sym "ok"; sopt (fun ie => enc_entry (snd ie)) e])
          | Err e => (w, l, err_sx e)
          end
        else if ustr_eqb c (u "reload") then
          match reload w with
          | Ok l' => (w, l', SL [sym "ok"; SL []])
          | Err e => (w, l, err_sx e)
          end
        else if ustr_eqb c (u "files") then (w, l, SL [sym "ok"; enc_world_files w])
        else if ustr_eqb c (u "manifests") then
          (w, l, SL [sym "ok"; SL (map (fun km => SL [SS (fst km); SL (map enc_entry (entries_of (snd km)))]) (l_loaded l))])
        else if ustr_eqb c (u "updated") then (w, l, SL [sym "ok"; sstrs (sorted_strs (l_updated l))])
        (* harness-side observation point (bytes and st_mtime_ns are recorded by the harness): no effect here *)
        else if ustr_eqb c (u "stamp") then (w, l, SL [sym "ok"; SL []])
        else (w, l, sym "bad-op")
    | _ => (w, l, sym "bad-op")
    end.

  Definition op_is (name : string) (op : sx) : bool :=
    match x_list op with SS c :: _ => ustr_eqb c (u name) | _ => false end.
  (* after a failed operation other than save, only the file listings among the remaining operations are taken *)
  Fixpoint observe (w : world) (ops : list sx) : list sx :=
    match ops with
    | [] => []
    | op :: r => (if op_is "files" op then [SL [sym "ok"; enc_world_files w]] else []) ++ observe w r
    end.
  Fixpoint run_ops (w : world) (l : loader) (ops : list sx) : list sx :=
    match ops with
    | [] => []
    | op :: r => let '(w', l', res) := run_op w l op in
                 res :: (match res with
                         | SL (SS k :: _) => if ustr_eqb k (u "err") then (if op_is "save" op then [] else observe w' r)
                                             else run_ops w' l' r
                         | _ => run_ops w' l' r
                         end)
    end.
End Run.

(* (tree world digest-table codec-table (top options allow_create allow_xdev) ops write-mtime) *)
Definition run_tree (args : list sx) : option sx :=
  match args with
  | [wx; dtx; ctx; lx; ops; wmt] =>
      let w := dec_world wx in
      let dt := dec_otable dtx in
      let ct := dec_ctable ctx in
      match x_list lx with
      | [top; o; ac; ax] =>
          let mk := fun (w' : world) (create : bool) =>
            new_loader (table_hashlib dt) (table_decompress ct) fake_pgp_verify
                       w' (x_str top) (dec_options o) create (x_bool ax) in
          match mk w (x_bool ac) with
          | Ok l => Some (SL [sym "ok"; SL (run_ops dt ct (x_Z wmt) (fun w' => mk w' false) w l (x_list ops))])
          | Err e => Some (SL [sym "err"; enc_exn e])
          end
      | _ => None
      end
  | _ => None
  end.
