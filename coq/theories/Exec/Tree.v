(* Decoding of tree cases (world, oracle tables, loader parameters, operations) and the runner
   of operation sequences on the executable model. *)
From Coq Require Import String.
From Gemato Require Import Py.PyStr Py.PyLit Py.PyPath Gen.Tables Model.Entry Model.Text Model.OpenPGP
  Model.Hash Model.FS Model.Verify Model.Loader Exec.Sx Exec.Oracles.
Open Scope N_scope.

Definition dec_otable (x : sx) : otable :=
  map (fun e => match x_list e with [n; c; d] => (x_str n, x_str c, x_str d) | _ => ([], [], []) end) (x_list x).

Definition dec_target (x : sx) : target :=
  match x with
  | SN n => TIno (Z.to_N n)
  | _ => match x_list x with [_; e] => TErr (dec_errno e) | _ => TErr ENOENT end
  end.
Definition dec_inode (x : sx) : N * inode :=
  match x_list x with
  | [i; k; a; b; c] =>
      if ustr_eqb (x_str k) (u "d")
      then (x_N i, IDir (x_N a) (x_N b) (map (fun e => match x_list e with [n; t] => (x_str n, dec_target t) | _ => ([], TErr ENOENT) end) (x_list c)))
      else (x_N i, ISpecial (x_N a) (if ustr_eqb (x_str b) (u "fifo") then KFifo else KSock))
  | [i; k; d; m; s; data] => (x_N i, IFile (x_N d) (x_Z m) (x_N s) (x_str data))
  | _ => (0, ISpecial 0 KFifo)
  end.
Definition dec_prim (x : sx) : prim :=
  let s := x_str x in
  if ustr_eqb s (u "open") then POpen else if ustr_eqb s (u "stat") then PStat
  else if ustr_eqb s (u "fstat") then PFstat else if ustr_eqb s (u "scandir") then PScandir else PRead.
Definition dec_world (x : sx) : world :=
  match x_list x with
  | [r; nodes; faults; avail] =>
      mk_world (x_N r) (map dec_inode (x_list nodes))
               (map (fun f => match x_list f with [p; i; e] => (dec_prim p, x_N i, dec_errno e) | _ => (POpen, 0, EIO) end) (x_list faults))
               (x_strs avail)
  | _ => mk_world 0 [] [] []
  end.

(* decompression table: (format, compressed bytes, plain bytes) ; a listed entry with the marker
   "bad" instead of plain bytes means invalid data; an unlisted pair is an oracle miss *)
Definition ctable := list (list N * list N * option (list N)).
Definition dec_ctable (x : sx) : ctable :=
  map (fun e => match x_list e with
                | [f; c; SS p] => (x_str f, x_str c, Some p)
                | [f; c; _] => (x_str f, x_str c, None)
                | _ => ([], [], None)
                end) (x_list x).
Fixpoint table_decompress (t : ctable) (fmt data : list N) : res (list N) :=
  match t with
  | [] => Err (XOracleMiss [u "decompress"; fmt; data])
  | (f, c, p) :: r =>
      if ustr_eqb f fmt && ustr_eqb c data
      then match p with Some x => Ok x | None => Err XBadCompressed end
      else table_decompress r fmt data
  end.

Definition dec_profile (x : sx) : profile_id :=
  let s := x_str x in
  if ustr_eqb s (u "ebuild") then PEbuild else if ustr_eqb s (u "old-ebuild") then POldEbuild else PDefault.
Definition dec_policy (x : sx) : policy :=
  match x_Z x with 0%Z => PolThrow | 1%Z => PolFalse | 2%Z => PolTrue | 3%Z => PolNone | _ => PolParity end.

(* (hashes sort watermark format profile sign keyid verify_openpgp) *)
Definition dec_options (x : sx) : options :=
  match x_list x with
  | [h; s; wm; f; p; sg; k; v] =>
      mk_opts (x_opt x_strs h) (x_bool s) (x_opt x_Z wm) (x_str f) (dec_profile p)
              (x_opt x_bool sg) (x_opt x_str k) (x_bool v)
  | _ => mk_opts None false None (u "gz") PDefault None None false
  end.

Definition enc_call (c : list N * list (list N)) : sx := SL [SS (fst c); sstrs (snd c)].
Definition enc_edict (d : edict) : sx :=
  SL (map (fun kv => SL [SS (fst kv); SL (map (fun fe => SL [SS (fst fe); enc_entry (snd fe)]) (snd kv))]) d).

Section Run.
  Variable dt : otable.
  Variable ct : ctable.
  Let L := table_hashlib dt.
  Let dec := table_decompress ct.
  Let pgp (t : list N) : res sigdata := Err (XPGP PGPNoImpl).

  (* one operation; returns the new loader and the encoded result *)
  Definition run_op (w : world) (l : loader) (op : sx) : loader * sx :=
    match x_list op with
    | SS c :: args =>
        if ustr_eqb c (u "verify") then
          match args with
          | [p; pol; lm] =>
              match assert_directory_verifies L dec pgp w l (x_str p) (dec_policy pol) (x_opt x_Z lm) with
              | Ok (l', b, log) => (l', SL [sym "ok"; SL [sbool b; SL (map enc_call log)]])
              | Err e => (l, SL [sym "err"; enc_exn e])
              end
          | _ => (l, sym "bad-args")
          end
        else if ustr_eqb c (u "find_path_entry") then
          match args with
          | [p] => match find_path_entry_l L dec pgp w l (x_str p) with
                   | Ok (l', e) => (l', SL [sym "ok"; sopt enc_entry e])
                   | Err e => (l, SL [sym "err"; enc_exn e])
                   end
          | _ => (l, sym "bad-args")
          end
        else if ustr_eqb c (u "verify_path") then
          match args with
          | [p] => match verify_path_l L dec pgp w l (x_str p) with
                   | Ok (l', (b, d)) => (l', SL [sym "ok"; SL [sbool b; sstrs d]])
                   | Err e => (l, SL [sym "err"; enc_exn e])
                   end
          | _ => (l, sym "bad-args")
          end
        else if ustr_eqb c (u "assert_path_verifies") then
          match args with
          | [p] => match assert_path_verifies L dec pgp w l (x_str p) with
                   | Ok l' => (l', SL [sym "ok"; SL []])
                   | Err e => (l, SL [sym "err"; enc_exn e])
                   end
          | _ => (l, sym "bad-args")
          end
        else if ustr_eqb c (u "find_dist_entry") then
          match args with
          | [f; p] => match find_dist_entry_l L dec pgp w l (x_str f) (x_str p) with
                      | Ok (l', e) => (l', SL [sym "ok"; sopt enc_entry e])
                      | Err e => (l, SL [sym "err"; enc_exn e])
                      end
          | _ => (l, sym "bad-args")
          end
        else if ustr_eqb c (u "entry_dict") then
          match args with
          | [p] => match get_file_entry_dict L dec pgp w l (x_str p) None true with
                   | Ok (l', d) => (l', SL [sym "ok"; enc_edict d])
                   | Err e => (l, SL [sym "err"; enc_exn e])
                   end
          | _ => (l, sym "bad-args")
          end
        else if ustr_eqb c (u "loaded") then (l, SL [sym "ok"; sstrs (map fst (l_loaded l))])
        else (l, sym "bad-op")
    | _ => (l, sym "bad-op")
    end.

  Fixpoint run_ops (w : world) (l : loader) (ops : list sx) : list sx :=
    match ops with
    | [] => []
    | op :: r => let '(l', res) := run_op w l op in
                 res :: (match res with SL (SS k :: _) => if ustr_eqb k (u "err") then [] else run_ops w l' r | _ => run_ops w l' r end)
    end.
End Run.

(* (tree world digest-table codec-table (top options allow_create allow_xdev) ops) *)
Definition run_tree (args : list sx) : option sx :=
  match args with
  | [wx; dtx; ctx; lx; ops] =>
      let w := dec_world wx in
      let dt := dec_otable dtx in
      let ct := dec_ctable ctx in
      match x_list lx with
      | [top; o; ac; ax] =>
          match new_loader (table_hashlib dt) (table_decompress ct) (fun _ => Err (XPGP PGPNoImpl))
                           w (x_str top) (dec_options o) (x_bool ac) (x_bool ax) with
          | Ok l => Some (SL [sym "ok"; SL (run_ops dt ct w l (x_list ops))])
          | Err e => Some (SL [sym "err"; enc_exn e])
          end
      | _ => None
      end
  | _ => None
  end.
