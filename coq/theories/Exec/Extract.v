(* Extraction of the executable model for the correspondence harness.
   Directives used: ExtrOcamlBasic only (bool, option, list, prod, unit, sumbool ->
   the OCaml types).  N, Z, positive, nat, string, ascii stay extracted inductives. *)
Require Extraction.
Require Import ExtrOcamlBasic.
From Gemato Require Import Py.PyStr Exec.Sx Exec.Main.
Extraction "model.ml" run str_of_Z Z.add Z.mul Z.opp N.add N.mul.
