From Coq Require Import String.
From Gemato Require Import Py.PyLit.
From Gemato Require Import Py.PyStr Exec.Sx Exec.Run Exec.Tree.

(* one request: (cmd arg ...) *)
Definition run (x : sx) : sx :=
  match x with
  | SL (SS c :: args) =>
      match (if ustr_eqb c (u "tree") then run_tree args else run_text c args) with
      | Some r => r
      | None => SL [sym "bad-command"; SS c]
      end
  | _ => SL [sym "bad-request"]
  end.
