(* Table-backed instances of the external agents, for running the model: digests are looked
   up in a table computed by the harness with hashlib (never with gemato); a miss is reported
   so that the harness can extend the table and re-run. *)
From Coq Require Import List NArith.
From Gemato Require Import Py.PyStr Model.Entry Model.Hash.
Import ListNotations.

Definition otable := list (list N * list N * list N).      (* hashlib name, content, hex digest *)
Fixpoint lookup_digest (t : otable) (name content : list N) : option (list N) :=
  match t with
  | [] => None
  | (n, c, d) :: r => if ustr_eqb n name && ustr_eqb c content then Some d else lookup_digest r name content
  end.

Definition table_hashlib (t : otable) : hashlib :=
  mk_hashlib (list N * list N)
             (fun n => (n, []))
             (fun s b => (fst s, snd s ++ b))
             (fun s => match lookup_digest t (fst s) (snd s) with
                       | Some d => Ok d
                       | None => Err (XOracleMiss [fst s; snd s])
                       end).

(* the streaming laws hold for this instance *)
Lemma table_upd_app t : forall s a b,
  hl_update (table_hashlib t) (hl_update (table_hashlib t) s a) b = hl_update (table_hashlib t) s (a ++ b).
Proof. intros [n c] a b. cbn. rewrite app_assoc. reflexivity. Qed.
Lemma table_upd_nil t : forall s, hl_update (table_hashlib t) s [] = s.
Proof. intros [n c]. cbn. rewrite app_nil_r. reflexivity. Qed.
