(* Command dispatcher of the executable model: [run : sx -> sx].  Evaluated either by
   vm_compute inside Coq or through the OCaml extraction (coq/extract). *)
From Coq Require Import String.
From Gemato Require Import Py.PyLit.
From Gemato Require Import Py.PyStr Py.PyPath Py.PyTime Gen.PyFacts Gen.Tables Gen.Util
  Model.Entry Model.Text Model.OpenPGP Model.Hash Model.FindTop Spec.Cleartext Spec.Accept Exec.Sx Exec.Oracles Exec.Tree.
Open Scope N_scope.

Definition is_cmd (c : ustr) (s : string) : bool := ustr_eqb c (u s).

(* all code points in [lo, lo+n) whose encoding is not the character itself, with the encoding;
   and whether decode (encode [c]) = [c] held for every code point of the range *)
Fixpoint encode_sweep_aux (lo : N) (n : nat) (acc : list sx) (ok : bool) : list sx * bool :=
  match n with
  | O => (rev acc, ok)
  | S n' =>
      let e := encode_path [lo] in
      let ok' := ok && match decode_path e with Ok [c] => c =? lo | _ => false end in
      encode_sweep_aux (lo + 1) n' (if ustr_eqb e [lo] then acc else SL [sN lo; SS e] :: acc) ok'
  end.
Definition encode_sweep (lo : N) (n : nat) : sx :=
  let '(l, ok) := encode_sweep_aux lo n [] true in SL [SL l; sbool ok].

Definition enc_hval (v : hval) : sx := match v with HStr s => SS s | HInt n => sN n end.
Definition enc_hres (r : list (list N * hval)) : sx := SL (map (fun kv => SL [SS (fst kv); enc_hval (snd kv)]) r).

Definition dec_exn_name (x : sx) : exn :=
  let s := x_str x in
  if ustr_eqb s (u "ManifestSyntaxError") then XSyntax
  else if ustr_eqb s (u "ManifestUnsignedData") then XUnsigned
  else if ustr_eqb s (u "BadCompressedFile") then XBadCompressed
  else if ustr_eqb s (u "UnicodeError") then XInternal IUnicode
  else XOS (dec_errno x).
Definition dec_fres (x : sx) : fres :=
  match x_list x with
  | [k; d; t] => FText (x_N d) (x_str t)
  | [k; e] => FErr (dec_exn_name e)
  | _ => FAbsent
  end.
Definition dec_level (x : sx) : level :=
  match x_list x with
  | [st; files] =>
      mk_level (match x_list st with
                | [d; r] => Ok (x_N d, x_bool r)
                | [e] => Err (dec_exn_name e)
                | _ => Err XOutOfFuel
                end)
               (map (fun f => match x_list f with [n; v] => (x_str n, dec_fres v) | _ => ([], FAbsent) end) (x_list files))
  | _ => mk_level (Err XOutOfFuel) []
  end.

Definition run_text (c : ustr) (args : list sx) : option sx :=
  match args with
  | [a] =>
      if is_cmd c "split_ws" then Some (sstrs (split_ws (x_str a)))
      else if is_cmd c "strip_ws" then Some (SS (strip_ws (x_str a)))
      else if is_cmd c "py_lines" then Some (sstrs (py_lines (x_str a)))
      else if is_cmd c "py_int" then Some (sopt SN (py_int nd_starts (x_str a)))
      else if is_cmd c "str_of_Z" then Some (SS (str_of_Z (x_Z a)))
      else if is_cmd c "manifest_hashes_to_hashlib" then Some (enc_res sstrs (manifest_hashes_to_hashlib (x_strs a)))
      else if is_cmd c "strptime" then Some (sopt enc_dt (strptime nd_starts (x_str a)))
      else if is_cmd c "strftime" then Some (SS (strftime (dec_dt a)))
      else if is_cmd c "utc_epoch" then Some (SN (utc_epoch (dec_dt a)))
      else if is_cmd c "is_space" then Some (sbool (is_space (x_N a)))
      else if is_cmd c "is_decimal" then Some (sbool (is_decimal nd_starts (x_N a)))
      else if is_cmd c "disallowed" then Some (sbool (disallowed_path_char (x_N a)))
      else if is_cmd c "encode_path" then Some (SS (encode_path (x_str a)))
      else if is_cmd c "decode_path" then Some (enc_res SS (decode_path (x_str a)))
      else if is_cmd c "dirname" then Some (SS (dirname (x_str a)))
      else if is_cmd c "basename" then Some (SS (basename (x_str a)))
      else if is_cmd c "splitext" then Some (SL [SS (fst (splitext (x_str a))); SS (snd (splitext (x_str a)))])
      else if is_cmd c "utf8_encode" then Some (sopt SS (utf8_encode (x_str a)))
      else if is_cmd c "utf8_decode" then Some (sopt SS (utf8_decode (x_str a)))
      else if is_cmd c "from_list" then
        Some (match x_strs a with
              | t :: r => match lookup_tag t with
                          | Some tg => enc_res enc_entry (from_list tg (t :: r))
                          | None => SL [sym "err"; SL [sym "KeyError"]]
                          end
              | [] => SL [sym "err"; SL [sym "IndexError"]]
              end)
      else if is_cmd c "to_list" then Some (enc_res sstrs (to_list (dec_entry a)))
      else if is_cmd c "sorted" then Some (SL (map enc_entry (py_sorted entry_ltb (map dec_entry (x_list a)))))
      else None
  | [a; b] =>
      if is_cmd c "load" then
        Some (enc_res (fun r => SL [SL (map enc_entry (fst r)); sopt SS (snd r)])
                      (load (x_str a) (x_bool b)))
      else if is_cmd c "dump" then Some (enc_res SS (dump (map dec_entry (x_list a)) (x_bool b)))
      else if is_cmd c "path_starts_with" then Some (sbool (path_starts_with (x_str a) (x_str b)))
      else if is_cmd c "path_inside_dir" then Some (sbool (path_inside_dir (x_str a) (x_str b)))
      else if is_cmd c "entry_eqb" then Some (sbool (entry_eqb (dec_entry a) (dec_entry b)))
      else if is_cmd c "entry_ltb" then Some (sbool (entry_ltb (dec_entry a) (dec_entry b)))
      else if is_cmd c "ustr_ltb" then Some (sbool (ustr_ltb (x_str a) (x_str b)))
      else if is_cmd c "find_path_entry" then Some (sopt enc_entry (find_path_entry (map dec_entry (x_list a)) (x_str b)))
      else if is_cmd c "find_dist_entry" then Some (sopt enc_entry (find_dist_entry (map dec_entry (x_list a)) (x_str b)))
      else if is_cmd c "path_join" then Some (SS (path_join (x_str a) (x_str b)))
      else if is_cmd c "pjoin" then Some (SS (pjoin (x_str a) (x_str b)))
      else if is_cmd c "relpath" then Some (SS (relpath (x_str a) (x_str b)))
      else if is_cmd c "rstrip" then Some (SS (py_rstrip (x_str a) (x_str b)))
      else if is_cmd c "startswith" then Some (sbool (py_startswith (x_str a) (x_str b)))
      else if is_cmd c "endswith" then Some (sbool (py_endswith (x_str a) (x_str b)))
      else if is_cmd c "encode_sweep" then Some (encode_sweep (x_N a) (x_nat b))
      else if is_cmd c "verify_file" then
        Some (enc_res (fun d => SL [SS (sig_fp d); SS (sig_ts d); SS (sig_expts d); SS (sig_pkfp d)])
                      (verify_file (x_Z a) (x_str b)))
      else if is_cmd c "accept_spec" then
        Some (SL [sbool (accept_spec (x_Z a) (bsplitlines (x_str b)));
                  enc_pgpfail (failure_spec (x_Z a) (bsplitlines (x_str b)))])
      else if is_cmd c "spawn_env" then
        Some (SL (map (fun kv => SL [SS (fst kv); SS (snd kv)])
                      (spawn_env (dec_sums a) (dec_sums b))))
      else None
  | [a; b; d; e; f; g] =>
      if is_cmd c "hash_file" then
        Some (enc_res enc_hres (hash_file (table_hashlib (dec_otable g)) (x_strs f) (x_strs a)
                                          (map x_str (x_list b)) (x_str d) (x_N e)))
      else None
  | [a; b; d; e] =>
      if is_cmd c "find_top_level" then
        Some (enc_res (sopt (fun r => SL [SN (Z.of_nat (fst r)); SS (snd r)]))
                      (find_top_level (map dec_level (x_list a)) (x_strs b) (x_bool d) (x_bool e)))
      else None
  | [a; b; d] =>
      if is_cmd c "c04_b" then Some (sbool (c04_b (x_str a) (map dec_entry (x_list b)) (x_str d)))
      else None
  | _ => None
  end.
