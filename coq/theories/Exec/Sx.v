(* Transport between the correspondence harness and the executable model: a tiny
   S-expression type, and encoders/decoders for the model's data.  Glue, not trusted by
   any theorem; exercised by every correspondence run. *)
From Coq Require Import String.
From Gemato Require Import Py.PyStr Py.PyLit Py.PyTime Model.Entry.
Open Scope N_scope.

Inductive sx := SN (n : Z) | SS (s : ustr) | SL (l : list sx).


Definition sym (s : string) : sx := SS (u s).
Definition sbool (b : bool) : sx := SN (if b then 1 else 0)%Z.
Definition sN (n : N) : sx := SN (Z.of_N n).
Definition sstrs (l : list ustr) : sx := SL (map SS l).
Definition sopt {A} (f : A -> sx) (o : option A) : sx :=
  match o with Some a => SL [f a] | None => SL [] end.

Definition x_str (x : sx) : ustr := match x with SS s => s | _ => [] end.
Definition x_Z (x : sx) : Z := match x with SN n => n | _ => 0%Z end.
Definition x_N (x : sx) : N := Z.to_N (x_Z x).
Definition x_nat (x : sx) : nat := Z.to_nat (x_Z x).
Definition x_bool (x : sx) : bool := negb (Z.eqb (x_Z x) 0).
Definition x_list (x : sx) : list sx := match x with SL l => l | _ => [] end.
Definition x_strs (x : sx) : list ustr := map x_str (x_list x).
Definition x_opt {A} (f : sx -> A) (x : sx) : option A :=
  match x with SL [a] => Some (f a) | _ => None end.

Definition enc_errno (e : errno) : sx :=
  match e with
  | ENOENT => sym "ENOENT" | EACCES => sym "EACCES" | EPERM => sym "EPERM" | EIO => sym "EIO"
  | ENOMEM => sym "ENOMEM" | ELOOP => sym "ELOOP" | ENOTDIR => sym "ENOTDIR" | EISDIR => sym "EISDIR"
  | ENXIO => sym "ENXIO" | EOPNOTSUPP => sym "EOPNOTSUPP" | EMFILE => sym "EMFILE"
  | ESTALE => sym "ESTALE" | EOther n => sN n
  end.
Definition dec_errno (x : sx) : errno :=
  match x with
  | SN n => EOther (Z.to_N n)
  | _ => let s := x_str x in
      if ustr_eqb s (u "ENOENT") then ENOENT else if ustr_eqb s (u "EACCES") then EACCES
      else if ustr_eqb s (u "EPERM") then EPERM else if ustr_eqb s (u "EIO") then EIO
      else if ustr_eqb s (u "ENOMEM") then ENOMEM else if ustr_eqb s (u "ELOOP") then ELOOP
      else if ustr_eqb s (u "ENOTDIR") then ENOTDIR else if ustr_eqb s (u "EISDIR") then EISDIR
      else if ustr_eqb s (u "ENXIO") then ENXIO else if ustr_eqb s (u "EOPNOTSUPP") then EOPNOTSUPP
      else if ustr_eqb s (u "EMFILE") then EMFILE else if ustr_eqb s (u "ESTALE") then ESTALE
      else EOther 0
  end.
Definition enc_ikind (k : ikind) : sx :=
  match k with
  | IAttribute => sym "AttributeError" | IKey => sym "KeyError" | IIndex => sym "IndexError"
  | IAssertion => sym "AssertionError" | IValue => sym "ValueError" | IOverflow => sym "OverflowError"
  | IType => sym "TypeError" | IUnicode => sym "UnicodeError" | INotImplemented => sym "NotImplementedError"
  end.
Definition enc_pgpfail (k : pgpfail) : sx :=
  match k with
  | PGPVerification => sym "OpenPGPVerificationFailure" | PGPExpiredKey => sym "OpenPGPExpiredKeyFailure"
  | PGPRevokedKey => sym "OpenPGPRevokedKeyFailure" | PGPUnknownSig => sym "OpenPGPUnknownSigFailure"
  | PGPUntrustedSig => sym "OpenPGPUntrustedSigFailure" | PGPSigning => sym "OpenPGPSigningFailure"
  | PGPNoImpl => sym "OpenPGPNoImplementation" | PGPKeyImport => sym "OpenPGPKeyImportError"
  end.
Definition enc_exn (e : exn) : sx :=
  match e with
  | XSyntax => SL [sym "ManifestSyntaxError"]
  | XUnsigned => SL [sym "ManifestUnsignedData"]
  | XMismatch p names => SL [sym "ManifestMismatch"; SS p; sstrs names]
  | XIncompatible p => SL [sym "ManifestIncompatibleEntry"; SS p]
  | XCrossDevice p => SL [sym "ManifestCrossDevice"; SS p]
  | XSymlinkLoop p => SL [sym "ManifestSymlinkLoop"; SS p]
  | XInvalidPath p w => SL [sym "ManifestInvalidPath"; SS p; SS w]
  | XUnsupportedHash h => SL [sym "UnsupportedHash"; SS h]
  | XUnsupportedCompression s => SL [sym "UnsupportedCompression"; SS s]
  | XPGP k => SL [enc_pgpfail k]
  | XOS e => SL [sym "OSError"; enc_errno e]
  | XBadCompressed => SL [sym "BadCompressedFile"]
  | XCodecInternal => SL [sym "CodecInternalError"]
  | XInternal k => SL [sym "Internal"; enc_ikind k]
  | XOutOfFuel => SL [sym "OutOfFuel"]
  | XOracleMiss q => SL [sym "OracleMiss"; SL (map SS q)]
  end.
Definition enc_res {A} (f : A -> sx) (r : res A) : sx :=
  match r with
  | Ok a => SL [sym "ok"; f a]
  | Err e => SL [sym "err"; enc_exn e]
  end.

Definition enc_dt (d : datetime) : sx :=
  SL [sN (dt_y d); sN (dt_mo d); sN (dt_d d); sN (dt_h d); sN (dt_mi d); sN (dt_s d)].
Definition dec_dt (x : sx) : datetime :=
  match x_list x with
  | [a; b; c; d; e; f] => mkdt (x_N a) (x_N b) (x_N c) (x_N d) (x_N e) (x_N f)
  | _ => mkdt 0 0 0 0 0 0
  end.
Definition enc_sums (c : sums) : sx := SL (map (fun kv => SL [SS (fst kv); SS (snd kv)]) c).
Definition dec_sums (x : sx) : sums :=
  map (fun p => match x_list p with [k; v] => (x_str k, x_str v) | _ => ([], []) end) (x_list x).
Definition enc_tag (t : tag) : sx := SS (tag_str t).
Definition dec_tag (x : sx) : tag :=
  match lookup_tag (x_str x) with Some t => t | None => TDATA end.
Definition enc_entry (e : entry) : sx :=
  match e with
  | ETs d => SL [sym "ts"; enc_dt d]
  | EIgn p => SL [sym "ign"; SS p]
  | EFile t p a s c => SL [sym "file"; enc_tag t; SS p; SS a; SN s; enc_sums c]
  end.
Definition dec_entry (x : sx) : entry :=
  match x_list x with
  | [k; d] => if ustr_eqb (x_str k) (u "ts") then ETs (dec_dt d) else EIgn (x_str d)
  | [_; t; p; a; s; c] => EFile (dec_tag t) (x_str p) (x_str a) (x_Z s) (dec_sums c)
  | _ => EIgn []
  end.
