(* C10 - update never touches what it does not own.  Statements only; proofs in Proofs/Frame.v.
   PARTIAL: "only save writes" is proved for every operation sequence of the executable loader model, the
   frame of the writing primitives, of saving one Manifest and of the whole save step (only files named by
   Manifest paths can change) and the type-preserving refresh are proved for all inputs; that DIST/IGNORE/
   TIMESTAMP entries survive is proved for the single-path API (Proofs/OnePath.v) and for the directory update under the default
   profile (Proofs/UpdPres.v: an invariant over the scan for unregistered Manifests, the de-duplication, the walk and the removal of
   vanished entries); IGNORE and out-of-scope entries, and the ebuild profiles (which create Manifests during the walk), are decided by
   the correspondence runs (content+mtime listings of real trees). *)
From Coq Require Import List NArith ZArith Bool.
From Gemato Require Import Py.PyStr Py.PyPath Gen.Tables Model.Entry Model.Text Model.OpenPGP Model.Hash
  Model.FS Model.Verify Model.Loader Model.Update Exec.Sx Exec.Oracles Exec.Tree.
From Gemato Require Import Proofs.Frame Proofs.SaveAll Proofs.OnePath Proofs.UpdPres Proofs.OnePathFrame.
Import ListNotations.
Open Scope N_scope.

(* every filesystem state passed through by a sequence of operations that contains no save is the
   initial one - whatever the operations are and whether they succeed or fail *)
Theorem C10_no_save_no_write : forall dt ct wmtime reload ops w l,
  forallb (fun op => negb (is_save op)) ops = true ->
  forall w', In w' (worlds_of dt ct wmtime reload w l ops) -> w' = w.
Proof. exact no_save_no_write. Qed.
Print Assumptions C10_no_save_no_write.

Theorem C10_only_save_writes : forall dt ct wmtime reload w l op,
  is_save op = false -> fst (fst (run_op dt ct wmtime reload w l op)) = w.
Proof. exact only_save_writes. Qed.
Print Assumptions C10_only_save_writes.

(* open(path,'w') + write: every regular file other than the one the path names is untouched *)
Theorem C10_write_frame : forall w path data mt w',
  write_file w path data mt = Ok w' ->
  forall j dev m s x, node w j = Some (IFile dev m s x) -> ~ names w path j -> node w' j = Some (IFile dev m s x).
Proof. exact write_file_frame. Qed.
Print Assumptions C10_write_frame.

(* saving one Manifest (truncate, dump, sign, compress, write): every regular file other than the one its own path
   names keeps device, mtime, size and content - whether the Manifest file existed before or is created *)
Theorem C10_save_manifest_frame : forall compress pgp_sign wmtime w l relpath sort w' l' n,
  save_manifest compress pgp_sign wmtime w l relpath sort = Ok (w', l', n) ->
  forall j d m s x, node w j = Some (IFile d m s x) -> ~ names w (pjoin rootdir relpath) j ->
  node w' j = Some (IFile d m s x).
Proof. exact save_manifest_frame. Qed.
Print Assumptions C10_save_manifest_frame.

(* the whole save step (all Manifests, refresh of MANIFEST entries, recompression with rename and unlink): a
   regular file of the initial filesystem can change only if, at the beginning, it is named by a Manifest path of
   the loader - the path itself, the path with ".<format>" appended, or the path with its suffix cut off *)
Theorem C10_save_writes_manifest_paths_only :
  forall (L : hashlib) decompress compress pgp_verify pgp_sign wmtime w l o w' l',
  save_manifests L decompress compress pgp_verify pgp_sign wmtime w l o = Ok (w', l') ->
  exists l0, (if so_force o then load_manifests_for_path L decompress pgp_verify rounds_fuel w l [] true true else Ok l) = Ok l0 /\
    forall j d m s x, node w j = Some (IFile d m s x) ->
      (forall q, may_write (iter_manifests l0 [] true)
                           (match so_format o with Some f => f | None => o_format (l_opts l) end) q ->
                 ~ names w (pjoin rootdir q) j) ->
      node w' j = Some (IFile d m s x).
Proof. exact save_manifests_frame. Qed.
Print Assumptions C10_save_writes_manifest_paths_only.

Theorem C10_unlink_frame : forall w path w',
  unlink_file w path = Ok w' ->
  forall j dev m s x, node w j = Some (IFile dev m s x) -> node w' j = Some (IFile dev m s x).
Proof. exact unlink_file_frame. Qed.
Print Assumptions C10_unlink_frame.

Theorem C10_refresh_keeps_type : forall e size c,
  e_tag (with_size_cks e size c) = e_tag e /\ e_path (with_size_cks e size c) = e_path e /\
  match e, with_size_cks e size c with
  | EFile _ _ a _ _, EFile _ _ a' _ _ => a' = a
  | ETs d, ETs d' => d = d'
  | EIgn p, EIgn p' => p = p'
  | _, _ => False
  end.
Proof. exact refresh_keeps_type. Qed.
Print Assumptions C10_refresh_keeps_type.

(* the single-path API update_entry_for_path(path, new_entry_type, hashes): every Manifest loaded before the call is loaded
   afterwards and its DIST and TIMESTAMP entries are the same entries in the same order - whatever the path, the entry
   type and the hash set (a DIST entry whose name equals the path included) *)
Theorem C10_single_path_keeps_dist_timestamp : forall (L : hashlib) decompress pgp_verify w l path ty hs l',
  update_one_path L decompress pgp_verify w l path ty hs = Ok l' ->
  forall mp m, get_m l mp = Some m ->
  exists m', get_m l' mp = Some m' /\
             filter dt (map snd (mf_entries m')) = filter dt (map snd (mf_entries m)).
Proof. exact update_one_path_pres. Qed.
Print Assumptions C10_single_path_keeps_dist_timestamp.

(* the directory update (update_entries_for_directory, default profile): every Manifest loaded before the call is loaded
   afterwards with the same DIST and TIMESTAMP entries in the same order - whatever was stale, duplicated, unregistered or
   new in the tree.  W says that entry identities are fresh and do not mix kinds; it holds for every loader the library
   builds (C10_loader_wellformed) and is re-established by the update, so the statement chains over several updates. *)
Theorem C10_directory_update_keeps_dist_timestamp : forall (L : hashlib) decompress pgp_verify w l path hashes lm l',
  W l -> o_profile (l_opts l) = PDefault ->
  update_entries_for_directory L decompress pgp_verify w l path hashes lm = Ok l' ->
  (forall mp m, get_m l mp = Some m ->
     exists m', get_m l' mp = Some m' /\
                filter dt (map snd (mf_entries m')) = filter dt (map snd (mf_entries m))) /\
  W l' /\ o_profile (l_opts l') = PDefault.
Proof. exact update_entries_for_directory_pres. Qed.
Print Assumptions C10_directory_update_keeps_dist_timestamp.

Theorem C10_loader_wellformed : forall (L : hashlib) decompress pgp_verify w top opts ac ax l,
  new_loader L decompress pgp_verify w top opts ac ax = Ok l -> W l /\ o_profile (l_opts l) = o_profile opts.
Proof. exact new_loader_W. Qed.
Print Assumptions C10_loader_wellformed.

(* the single-path API touches nothing but the file entries for that very path: in every Manifest loaded before the call,
   all other entries (IGNORE, DIST, TIMESTAMP, and file entries for any other path) are the same entries in the same order;
   at most one entry is new *)
Theorem C10_single_path_frame : forall (L : hashlib) decompress pgp_verify path w l ty hs l',
  update_one_path L decompress pgp_verify w l path ty hs = Ok l' ->
  forall mp m, get_m l mp = Some m ->
  exists m' extra, get_m l' mp = Some m' /\ others path mp m' = others path mp m ++ extra /\ (length extra <= 1)%nat.
Proof. exact update_one_path_framed. Qed.
Print Assumptions C10_single_path_frame.
