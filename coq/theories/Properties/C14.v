(* C14 - a signed tree stays signed; sub-Manifests are never signed.  Statements only; proofs in Proofs/Signing.v.
   Proved for all inputs about Model/Update.v save_manifest with an arbitrary signer; that gpg's output verifies
   with the signing key is GnuPG behaviour, exercised with real gpg (tools/corr/p_c14.py). *)
From Coq Require Import List NArith ZArith Bool.
From Gemato Require Import Py.PyStr Py.PyPath Gen.Tables Model.Entry Model.Text Model.OpenPGP Model.Hash
  Model.FS Model.Verify Model.Loader Model.Update.
From Gemato Require Import Proofs.Signing.
Import ListNotations.
Open Scope N_scope.

(* only the top-level Manifest is signed, and it is iff the option says so or - unset - it was loaded signed *)
Theorem C14_decision : forall l relpath m,
  want_sign l relpath m =
    ustr_eqb relpath (l_top l) && match o_sign (l_opts l) with Some b => b | None => mf_signed m end.
Proof. exact want_sign_table. Qed.
Print Assumptions C14_decision.

Theorem C14_sub_manifest_never_signed : forall compress wmtime sign1 sign2 w l relpath sort,
  ustr_eqb relpath (l_top l) = false ->
  save_manifest compress sign1 wmtime w l relpath sort = save_manifest compress sign2 wmtime w l relpath sort.
Proof. exact sub_manifest_never_signed. Qed.
Print Assumptions C14_sub_manifest_never_signed.

Theorem C14_plain_when_off : forall compress wmtime sign1 sign2 w l relpath sort m,
  get_m l relpath = Some m -> want_sign l relpath m = false ->
  save_manifest compress sign1 wmtime w l relpath sort = save_manifest compress sign2 wmtime w l relpath sort.
Proof. exact unsigned_when_off. Qed.
Print Assumptions C14_plain_when_off.

Theorem C14_signing_failure_is_error : forall compress wmtime pgp_sign w l relpath sort m w0 text e,
  get_m l relpath = Some m -> want_sign l relpath m = true ->
  write_file w (pjoin rootdir relpath) [] wmtime = Ok w0 ->
  dump_entries (map snd (sorted_ids m sort)) = Ok text ->
  pgp_sign text (o_keyid (l_opts l)) = Err e ->
  save_manifest compress pgp_sign wmtime w l relpath sort = Err e.
Proof. exact signing_failure_is_error. Qed.
Print Assumptions C14_signing_failure_is_error.

(* what is stored is what the signer returned for exactly the dump of the entries being written *)
Theorem C14_signed_content : forall compress wmtime pgp_sign w l relpath sort m w' l' n,
  get_m l relpath = Some m -> want_sign l relpath m = true ->
  save_manifest compress pgp_sign wmtime w l relpath sort = Ok (w', l', n) ->
  exists w0 text signed data,
    write_file w (pjoin rootdir relpath) [] wmtime = Ok w0 /\
    dump_entries (map snd (sorted_ids m sort)) = Ok text /\
    pgp_sign text (o_keyid (l_opts l)) = Ok signed /\
    stored compress relpath signed = Ok data /\
    write_file w0 (pjoin rootdir relpath) data wmtime = Ok w'.
Proof. exact signed_save_content. Qed.
Print Assumptions C14_signed_content.
