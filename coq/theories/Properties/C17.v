(* C17 — reported digests and sizes are those of the whole file content.
   Statements only; proofs in Proofs/HashStream.v. *)
From Coq Require Import List NArith ZArith.
From Gemato Require Import Py.PyStr Gen.Tables Model.Entry Model.Hash Exec.Oracles.
From Gemato Require Import Proofs.HashStream.
Import ListNotations.
Open Scope N_scope.

(* For any streaming hash library (update is append-like), any list of hash names, any read
   schedule of non-empty chunks of any sizes, and ANY size hint: every requested name gets the
   digest of the concatenated content under the algorithm of that name, and __size__ gets the
   number of bytes. *)
Theorem C17_digest : forall (L : hashlib) available,
  (forall s a b, hl_update L (hl_update L s a) b = hl_update L s (a ++ b)) ->
  (forall s, hl_update L s [] = s) ->
  forall names schedule hint r n,
  Forall (fun b => b <> []) schedule ->
  hash_file L available names schedule (concat schedule) hint = Ok r ->
  mem_str n names = true ->
  exists v, ideal L n (concat schedule) = Ok v /\ assoc n r = Some v.
Proof. exact hash_file_correct. Qed.
Print Assumptions C17_digest.

(* the same for the table-backed instance the correspondence harness runs (no premises left) *)
Theorem C17_digest_exec : forall t available names schedule hint r n,
  Forall (fun b => b <> []) schedule ->
  hash_file (table_hashlib t) available names schedule (concat schedule) hint = Ok r ->
  mem_str n names = true ->
  exists v, ideal (table_hashlib t) n (concat schedule) = Ok v /\ assoc n r = Some v.
Proof. intros t available. exact (hash_file_correct (table_hashlib t) available (table_upd_app t) (table_upd_nil t)). Qed.
Print Assumptions C17_digest_exec.

(* chunking and the size hint are irrelevant *)
Theorem C17_schedule_irrelevant : forall (L : hashlib) available,
  (forall s a b, hl_update L (hl_update L s a) b = hl_update L s (a ++ b)) ->
  (forall s, hl_update L s [] = s) ->
  forall names schedule hint, Forall (fun b => b <> []) schedule ->
  hash_file L available names schedule (concat schedule) hint =
  (hs <- make_hashes L available names [] ;; finish L (update_all L hs (concat schedule))).
Proof. exact hash_file_schedule_irrelevant. Qed.
Print Assumptions C17_schedule_irrelevant.

(* a name that is neither __size__ nor available is reported as unsupported *)
Theorem C17_unsupported : forall (L : hashlib) available names schedule whole hint n,
  mem_str n names = true -> ustr_eqb n s_size = false -> mem_str n available = false ->
  exists m, hash_file L available names schedule whole hint = Err (XUnsupportedHash m).
Proof. exact hash_file_unsupported. Qed.
Print Assumptions C17_unsupported.

(* the Manifest hash names denote the algorithms GLEP 74 prescribes (the table in the source) *)
Theorem C17_names : manifest_hash_mapping = glep74_names.
Proof. exact hash_names_table. Qed.
Print Assumptions C17_names.

(* an unknown Manifest hash name is reported as such *)
Theorem C17_unknown_manifest_name : forall hashes h,
  In h hashes -> assoc h manifest_hash_mapping = None ->
  exists m, manifest_hashes_to_hashlib hashes = Err (XUnsupportedHash m).
Proof. exact unknown_manifest_name. Qed.
Print Assumptions C17_unknown_manifest_name.

(* non-vacuity: three chunks, a wrong hint, the size hash and a table digest *)
Example C17_example :
  let t := [([115;104;97;49], [1;2;3;4;5;6], [97;98])] in
  hash_file (table_hashlib t) [[115;104;97;49]] [[115;104;97;49]; s_size] [[1;2];[3];[4;5;6]] [1;2;3;4;5;6] 99
  = Ok [([115;104;97;49], HStr [97;98]); (s_size, HInt 6)].
Proof. vm_compute. reflexivity. Qed.
