(* C01 — recursive verification accepts exactly the trees that match their Manifests.
   Statements only; proofs in Proofs/VerifyPath.v, Proofs/KeepGoing.v, Proofs/UtilSpec.v.
   Proved for all inputs: the per-file decision (every entry, every stray object), the aggregation of all
   per-file results, and - for one directory - exactly WHICH objects are presented: every listed file that
   is not hidden and is not the top-level Manifest, once, with the entry recorded under its name or none;
   every listed sub-directory that has an entry; every other entry of the directory as a missing file.
   The composition over the whole tree (Proofs/WalkComplete.v): EVERY entry of the merged entry dictionary is checked
   against the object at its path - whichever directory it belongs to, visited or not - and EVERY visible file of every
   directory reached from the start (through sub-directories that are not hidden and have no entry) is checked with an
   entry recorded for its path or as a stray file; a verification that reports nothing therefore means that all of them
   matched (C01_every_entry_is_checked, C01_every_found_file_is_checked, C01_silent_verification_means_match,
   C01_default_handler_success).  The dictionaries are treated as association lists without assuming unique keys.
   The merged dictionary drops nothing (Proofs/EntryDict.v): every entry, other than DIST / TIMESTAMP, of every loaded Manifest
   relevant for the directory whose path lies beneath it is represented by an entry that covers it - same size, every checksum
   with the same value - so every such Manifest entry is checked (C01_entry_dictionary_drops_nothing,
   C01_every_manifest_entry_is_checked).  Which Manifests are loaded and relevant is C02's subject. *)
From Coq Require Import List NArith ZArith.
From Gemato Require Import Py.PyStr Py.PyPath Gen.Tables Gen.Util Model.Entry Model.Text Model.OpenPGP Model.Hash
  Model.FS Model.Verify Model.Loader.
From Gemato Require Import Exec.Oracles.
From Gemato Require Import Proofs.VerifyPath Proofs.KeepGoing Proofs.UtilSpec Proofs.DirSpec Proofs.Compat Proofs.OnlyOffending Proofs.WalkComplete Proofs.NoInternal Proofs.ReadSafe Proofs.EntryDict Proofs.WalkTerm Proofs.Once Proofs.Relative Proofs.Exact.
Import ListNotations.
Open Scope N_scope.

(* a file entry verifies only if the object is a regular file on the expected device whose
   size matches and either (a last-verification time was given, the file is not newer and its
   size is unchanged) or its content has the entry's size and every listed checksum *)
Theorem C01_entry_sound : forall (L : hashlib) w path t p a size cks dev lm d,
  p_open w path <> Err (XOS ENXIO) -> p_open w path <> Err (XOS EOPNOTSUPP) ->
  verify_path L w path (Some (EFile t p a size cks)) dev lm = Ok (true, d) ->
  d = [] /\
  exists i st, p_open w path = Ok i /\ p_fstat w i = Ok st /\ st_type st = FTReg /\
    (forall dv, dev = Some dv -> st_dev st = dv) /\
    (st_size st = 0 \/ Z.of_N (st_size st) = size) /\
    ( (exists tm, lm = Some tm /\ (st_mtime st <= tm)%Z /\ st_size st <> 0)
      \/ exists got, gfm_checksums L w i st (map fst cks) = Ok got /\
           (exists sz, assoc s_size got = Some sz /\ hval_eqb_Z sz size = true) /\
           forall h, In h (map fst cks) ->
             exists ex g, assoc h cks = Some ex /\ assoc h got = Some g /\ hval_eqb_str g ex = true ).
Proof. exact verify_path_sound. Qed.
Print Assumptions C01_entry_sound.

(* a stray object (found by the walk, no entry) is a mismatch; only a path at which nothing
   exists passes without an entry *)
Theorem C01_stray : forall (L : hashlib) w path dev lm b d,
  verify_path L w path None dev lm = Ok (b, d) ->
  (b = true /\ p_open w path = Err (XOS ENOENT)) \/ (b = false /\ d = [s_exists]).
Proof. exact verify_path_none. Qed.
Print Assumptions C01_stray.

Theorem C01_ignore : forall (L : hashlib) w path p dev lm,
  verify_path L w path (Some (EIgn p)) dev lm = Ok (true, []).
Proof. exact verify_path_ignore. Qed.
Print Assumptions C01_ignore.

(* the verdict of a whole directory verification is the conjunction over ALL reported mismatches
   (with the default handler any mismatch raises): success is never reported when a handler call
   answered failure *)
Theorem C01_all_results_count : forall (L : hashlib) decompress pgp w l path pol lm l' b log,
  assert_directory_verifies L decompress pgp w l path pol lm = Ok (l', b, log) ->
  b = forallb (verdict pol) log.
Proof. exact keep_going_result. Qed.
Print Assumptions C01_all_results_count.

(* IGNORE matches by whole path components *)
Theorem C01_ignore_components : forall path prefix,
  path_starts_with path prefix = true <-> starts_with_spec path prefix.
Proof. exact path_starts_with_spec. Qed.
Print Assumptions C01_ignore_components.

(* one directory: verification is the verification, in order, of the items of that directory ... *)
Theorem C01_directory_is_its_items : forall (L : hashlib) w c dp rp dirnames filenames dirdict log,
  verify_dir L w c dp rp dirnames filenames dirdict log
  = verify_items L w c dp rp (dir_items (vc_top c) rp dirnames filenames dirdict) (Ok (true, log)).
Proof. exact verify_dir_items. Qed.
Print Assumptions C01_directory_is_its_items.

(* ... and the items are exactly: each name at most once; a listed sub-directory iff it has an entry; a listed
   file iff it is visible (not hidden, not the top-level Manifest) - with the entry recorded under its name, or
   none (a stray file) -; and every entry whose name was not met, as a file that should exist *)
Theorem C01_items_exactly : forall top rp dirnames filenames dirdict,
  NoDup (dirnames ++ filenames) -> NoDup (map fst dirdict) ->
  NoDup (map fst (dir_items top rp dirnames filenames dirdict)) /\
  forall name e, In (name, e) (dir_items top rp dirnames filenames dirdict) <->
    (In name dirnames /\ exists de, assoc name dirdict = Some de /\ e = Some de) \/
    (In name filenames /\ visible top rp name = true /\ e = assoc name dirdict) \/
    (~ In name dirnames /\ ~ (In name filenames /\ visible top rp name = true) /\
     exists de, assoc name dirdict = Some de /\ e = Some de).
Proof. exact dir_items_spec. Qed.
Print Assumptions C01_items_exactly.

(* duplicate entries for one path: compatible exactly when the tags agree (or are both of the MANIFEST/DATA/EBUILD/AUX
   family), the sizes are equal and every hash carried by both has the same value in both *)
Theorem C01_duplicates_compatible_iff : forall t1 p1 a1 s1 c1 t2 p2 a2 s2 c2 ok diff,
  t1 <> TTIMESTAMP -> t1 <> TIGNORE -> t2 <> TTIMESTAMP -> t2 <> TIGNORE ->
  verify_entry_compatibility (EFile t1 p1 a1 s1 c1) (EFile t2 p2 a2 s2 c2) = Ok (ok, diff) ->
  (ok = true <-> tags_compatible t1 t2 /\ s1 = s2 /\ common_hashes_agree c1 c2).
Proof. exact compat_spec. Qed.
Print Assumptions C01_duplicates_compatible_iff.

(* ... so one conflicting common hash is an incompatibility, whatever other hashes either entry lists *)
Theorem C01_conflict_not_forgiven : forall t1 p1 a1 s1 c1 t2 p2 a2 s2 c2 ok diff h a b,
  t1 <> TTIMESTAMP -> t1 <> TIGNORE -> t2 <> TTIMESTAMP -> t2 <> TIGNORE ->
  assoc h c1 = Some a -> assoc h c2 = Some b -> a <> b ->
  verify_entry_compatibility (EFile t1 p1 a1 s1 c1) (EFile t2 p2 a2 s2 c2) = Ok (ok, diff) -> ok = false.
Proof. exact conflict_not_forgiven. Qed.
Print Assumptions C01_conflict_not_forgiven.

(* non-vacuity: 'DATA f 1 MD5 aa' against 'DATA f 1 MD5 bb SHA512 cc' *)
Example C01_conflict_example :
  verify_entry_compatibility (EFile TDATA [102] [] 1 [([77;68;53], [97;97])])
                             (EFile TDATA [102] [] 1 [([77;68;53], [98;98]); ([83;72;65;53;49;50], [99;99])])
  = Ok (false, [([77;68;53], Some [97;97], Some [98;98]); ([83;72;65;53;49;50], None, Some [99;99])]).
Proof. vm_compute. reflexivity. Qed.

(* ---- the whole tree ------------------------------------------------------------------------------------------------ *)
(* [presented_at L w c dp rp eo log]: verify_path was asked about the system path dp with the entry eo (or none), it answered
   (no error), and if the answer was "does not match" the handler was invoked for the tree-relative path rp with exactly
   these differences; [presented L w c path rp eo log]: so for a system path that names the object rp names (grown from
   (root/path, path) by the same names, or root/rp) *)

(* every entry of the merged dictionary is checked: no entry below the verified directory is passed over *)
Theorem C01_every_entry_is_checked : forall (L : hashlib) decompress pgp w l path pol lm l' b log,
  assert_directory_verifies L decompress pgp w l path pol lm = Ok (l', b, log) ->
  exists ed, get_file_entry_dict L decompress pgp w l path None true = Ok (l', ed) /\
    forall dir dd n e, In (dir, dd) ed -> In (n, e) dd ->
      presented L w (mk_vctx (l_top l') (l_dev l') pol lm) path (pjoin dir n) (Some e) log.
Proof.
  intros L decompress pgp w l path pol lm l' b log H.
  destruct (directory_verification_complete L decompress pgp w l path pol lm l' b log H) as [ed [E1 [E2 _]]].
  exists ed. split; [exact E1|exact E2].
Qed.
Print Assumptions C01_every_entry_is_checked.

(* every file found by walking is checked: [reach] are the directories entered from the start - each step goes into a listed
   sub-directory that is not hidden and has no entry (an IGNORE entry prunes, any other entry makes it a mismatch) *)
Theorem C01_every_found_file_is_checked : forall (L : hashlib) decompress pgp w l path pol lm l' b log,
  assert_directory_verifies L decompress pgp w l path pol lm = Ok (l', b, log) ->
  exists ed, get_file_entry_dict L decompress pgp w l path None true = Ok (l', ed) /\
    forall dp rel ents f, reach w ed (walk_top path) path dp rel -> p_scandir w dp = Ok ents ->
      In f (map fst (filter (fun x => negb (snd x)) ents)) -> visible (l_top l') rel f = true ->
      exists eo, presented_at L w (mk_vctx (l_top l') (l_dev l') pol lm) (pjoin dp f) (pjoin rel f) eo log /\
                 (eo = None \/ exists e dd, eo = Some e /\ In (rel, dd) ed /\ In (f, e) dd).
Proof.
  intros L decompress pgp w l path pol lm l' b log H.
  destruct (directory_verification_complete L decompress pgp w l path pol lm l' b log H) as [ed [E1 [_ E3]]].
  exists ed. split; [exact E1|]. intros dp rel ents f Hr Hs Hf Hv. exact (proj2 (E3 dp rel Hr) ents f Hs Hf Hv).
Qed.
Print Assumptions C01_every_found_file_is_checked.

Theorem C01_silent_verification_means_match : forall (L : hashlib) decompress pgp w l path pol lm l' b,
  assert_directory_verifies L decompress pgp w l path pol lm = Ok (l', b, []) ->
  exists ed, get_file_entry_dict L decompress pgp w l path None true = Ok (l', ed) /\
    (forall dir dd n e, In (dir, dd) ed -> In (n, e) dd ->
       exists dp diff, names_object path dp (pjoin dir n) /\ verify_path L w dp (Some e) (l_dev l') lm = Ok (true, diff)) /\
    (forall dp rel ents f, reach w ed (walk_top path) path dp rel -> p_scandir w dp = Ok ents ->
       In f (map fst (filter (fun x => negb (snd x)) ents)) -> visible (l_top l') rel f = true ->
       exists eo diff, verify_path L w (pjoin dp f) eo (l_dev l') lm = Ok (true, diff) /\
         (eo = None \/ exists e dd, eo = Some e /\ In (rel, dd) ed /\ In (f, e) dd)).
Proof. exact silent_verification_means_match. Qed.
Print Assumptions C01_silent_verification_means_match.

(* the default handler raises on the first mismatch: a verification that returns has reported nothing and says True *)
Theorem C01_default_handler_success : forall (L : hashlib) decompress pgp w l path lm l' b log,
  assert_directory_verifies L decompress pgp w l path PolThrow lm = Ok (l', b, log) -> log = [] /\ b = true.
Proof. exact default_handler_logs_nothing. Qed.
Print Assumptions C01_default_handler_success.

(* the merged entry dictionary drops nothing: [covers e' e] = e' has the size of e and every checksum of e with the same value
   (an IGNORE entry for an IGNORE entry); [lshape] = the entries of the loaded Manifests are as the parser builds them (no file
   entry tagged IGNORE / TIMESTAMP), an invariant of every loader (C18, Proofs/ReadSafe.v) *)
Theorem C01_entry_dictionary_drops_nothing : forall (L : hashlib) decompress pgp w l path v l' ed, lshape l' ->
  get_file_entry_dict L decompress pgp w l path None v = Ok (l', ed) ->
  forall mp rel m e, In (mp, rel, m) (iter_manifests l' path true) -> In e (entries_of m) ->
    e_tag e <> TDIST /\ e_tag e <> TTIMESTAMP /\ path_starts_with (pjoin rel (e_path e)) path = true ->
    exists dd e', assoc (dirname (pjoin rel (e_path e))) ed = Some dd /\ assoc (basename (e_path e)) dd = Some e' /\ covers e' e.
Proof. exact entry_dict_covers. Qed.
Print Assumptions C01_entry_dictionary_drops_nothing.

(* ... hence every entry of every relevant loaded Manifest beneath the directory is checked, and reported when the check fails *)
Theorem C01_every_manifest_entry_is_checked : forall (L : hashlib) decompress pgp,
  (forall s, safe (hl_hexdigest L s)) -> (forall f d, safe (decompress f d)) -> (forall t, safe (pgp t)) ->
  forall w, sane_faults w -> forall l path pol lm l' b log, lshape l ->
  assert_directory_verifies L decompress pgp w l path pol lm = Ok (l', b, log) ->
  forall mp rel m e, In (mp, rel, m) (iter_manifests l' path true) -> In e (entries_of m) -> wanted path rel e ->
    exists e', covers e' e /\
      presented L w (mk_vctx (l_top l') (l_dev l') pol lm) path
                (pjoin (dirname (pjoin rel (e_path e))) (basename (e_path e))) (Some e') log.
Proof. exact manifest_entries_checked. Qed.
Print Assumptions C01_every_manifest_entry_is_checked.

(* ... and against THE entry the merged dictionary records for its path ([lookup ed rel f]: the entry under the file's name in the
   dictionary of its directory), as a stray file only when it records none: the dictionary is read as it was when the walk started
   (a directory visit removes only the dictionaries of the directory visited and of directories below it; no relative path is visited
   twice).  wf_world / nodup_world: directory listings have unique, non-empty, slash-free names; lrel: the loader's Manifests name
   relative paths (C07_loader_names_relative_paths) *)
Theorem C01_found_file_is_checked_against_its_entry : forall (L : hashlib) decompress pgp w l path pol lm l' b log,
  wf_world w -> nodup_world w -> key_ok path -> lrel l ->
  assert_directory_verifies L decompress pgp w l path pol lm = Ok (l', b, log) ->
  exists ed, get_file_entry_dict L decompress pgp w l path None true = Ok (l', ed) /\
    forall dp rel ents f, reach w ed (walk_top path) path dp rel -> p_scandir w dp = Ok ents ->
      In f (map fst (filter (fun x => negb (snd x)) ents)) -> visible (l_top l') rel f = true ->
      presented_at L w (mk_vctx (l_top l') (l_dev l') pol lm) (pjoin dp f) (pjoin rel f) (lookup ed rel f) log.
Proof. exact found_files_checked_exactly. Qed.
Print Assumptions C01_found_file_is_checked_against_its_entry.

(* non-vacuity: top-level Manifest 'MANIFEST s/Manifest 9', s/Manifest 'DATA a 1', the files s/a and (listed nowhere) b;
   a keep-going verification of the whole tree returns False having reported exactly b; the directory s is reached *)
Definition c01_w : world :=
  mk_world 1 [(1, IDir 7 1 [([77;97;110;105;102;101;115;116], TIno 2); ([115], TIno 4); ([98], TIno 6)]);
              (2, IFile 7 0 22 [77;65;78;73;70;69;83;84;32;115;47;77;97;110;105;102;101;115;116;32;57;10]);
              (4, IDir 7 1 [([77;97;110;105;102;101;115;116], TIno 5); ([97], TIno 3)]);
              (5, IFile 7 0 9 [68;65;84;65;32;97;32;49;10]);
              (3, IFile 7 0 1 [120]); (6, IFile 7 0 1 [121])] [] [].
Definition c01_dec : list N -> list N -> res (list N) := fun _ _ => Err XBadCompressed.
Definition c01_pgp : list N -> res sigdata := fun _ => Err (XPGP PGPNoImpl).
Example C01_whole_tree_example :
  exists l0 l' ed,
    new_loader (table_hashlib []) c01_dec c01_pgp c01_w [77;97;110;105;102;101;115;116] (mk_opts None false None [] PDefault None None false) false true = Ok l0 /\
    assert_directory_verifies (table_hashlib []) c01_dec c01_pgp c01_w l0 [] PolFalse None = Ok (l', false, [([98], [s_exists])]) /\
    get_file_entry_dict (table_hashlib []) c01_dec c01_pgp c01_w l0 [] None true = Ok (l', ed) /\
    reach c01_w ed (walk_top []) [] (pjoin (walk_top []) [115]) (pjoin [] [115]).
Proof.
  do 3 eexists. split; [vm_compute; reflexivity|]. split; [vm_compute; reflexivity|]. split; [vm_compute; reflexivity|].
  eapply reach_down; [vm_compute; reflexivity|vm_compute; left; reflexivity|reflexivity| |apply reach_here].
  intros dd H. vm_compute in H. repeat (destruct H as [H|H]; [inversion H; subst; reflexivity|]). destruct H.
Qed.

(* non-vacuity of C01_every_manifest_entry_is_checked on the same tree: the loader is well-shaped, s/Manifest is loaded and
   relevant after the verification, its entry 'DATA a 1' is wanted *)
Example C01_manifest_entry_example :
  exists l0 l' log m,
    new_loader (table_hashlib []) c01_dec c01_pgp c01_w [77;97;110;105;102;101;115;116] (mk_opts None false None [] PDefault None None false) false true = Ok l0 /\
    lshape l0 /\
    assert_directory_verifies (table_hashlib []) c01_dec c01_pgp c01_w l0 [] PolFalse None = Ok (l', false, log) /\
    In ([115;47;77;97;110;105;102;101;115;116], [115], m) (iter_manifests l' [] true) /\
    In (EFile TDATA [97] [] 1 []) (entries_of m) /\ wanted [] [115] (EFile TDATA [97] [] 1 []).
Proof.
  do 4 eexists. split; [vm_compute; reflexivity|]. split.
  { intros mp m H. vm_compute in H. repeat (destruct H as [H|H]; [inversion H; subst; repeat constructor|]). destruct H. }
  split; [vm_compute; reflexivity|]. split; [vm_compute; left; reflexivity|]. split; [vm_compute; left; reflexivity|].
  split; [discriminate|split; [discriminate|vm_compute; reflexivity]].
Qed.
