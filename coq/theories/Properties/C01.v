(* C01 — recursive verification accepts exactly the trees that match their Manifests.
   Statements only; proofs in Proofs/VerifyPath.v, Proofs/KeepGoing.v, Proofs/UtilSpec.v.
   Proved for all inputs: the per-file decision (every entry, every stray object), the aggregation of all
   per-file results, and - for one directory - exactly WHICH objects are presented: every listed file that
   is not hidden and is not the top-level Manifest, once, with the entry recorded under its name or none;
   every listed sub-directory that has an entry; every other entry of the directory as a missing file.
   PARTIAL: how the per-directory dictionaries and the pruned sub-directory lists compose over the whole
   tree (the recursion of the walk, IGNORE pruning) is carried by the correspondence engine. *)
From Coq Require Import List NArith ZArith.
From Gemato Require Import Py.PyStr Py.PyPath Gen.Tables Gen.Util Model.Entry Model.Text Model.OpenPGP Model.Hash
  Model.FS Model.Verify Model.Loader.
From Gemato Require Import Proofs.VerifyPath Proofs.KeepGoing Proofs.UtilSpec Proofs.DirSpec Proofs.Compat.
Import ListNotations.
Open Scope N_scope.

(* a file entry verifies only if the object is a regular file on the expected device whose
   size matches and either (a last-verification time was given, the file is not newer and its
   size is unchanged) or its content has the entry's size and every listed checksum *)
Theorem C01_entry_sound : forall (L : hashlib) w path t p a size cks dev lm d,
  p_open w path <> Err (XOS ENXIO) -> p_open w path <> Err (XOS EOPNOTSUPP) ->
  verify_path L w path (Some (EFile t p a size cks)) dev lm = Ok (true, d) ->
  d = [] /\
  exists i st, p_open w path = Ok i /\ p_fstat w i = Ok st /\ st_type st = FTReg /\
    (forall dv, dev = Some dv -> st_dev st = dv) /\
    (st_size st = 0 \/ Z.of_N (st_size st) = size) /\
    ( (exists tm, lm = Some tm /\ (st_mtime st <= tm)%Z /\ st_size st <> 0)
      \/ exists got, gfm_checksums L w i st (map fst cks) = Ok got /\
           (exists sz, assoc s_size got = Some sz /\ hval_eqb_Z sz size = true) /\
           forall h, In h (map fst cks) ->
             exists ex g, assoc h cks = Some ex /\ assoc h got = Some g /\ hval_eqb_str g ex = true ).
Proof. exact verify_path_sound. Qed.
Print Assumptions C01_entry_sound.

(* a stray object (found by the walk, no entry) is a mismatch; only a path at which nothing
   exists passes without an entry *)
Theorem C01_stray : forall (L : hashlib) w path dev lm b d,
  verify_path L w path None dev lm = Ok (b, d) ->
  (b = true /\ p_open w path = Err (XOS ENOENT)) \/ (b = false /\ d = [s_exists]).
Proof. exact verify_path_none. Qed.
Print Assumptions C01_stray.

Theorem C01_ignore : forall (L : hashlib) w path p dev lm,
  verify_path L w path (Some (EIgn p)) dev lm = Ok (true, []).
Proof. exact verify_path_ignore. Qed.
Print Assumptions C01_ignore.

(* the verdict of a whole directory verification is the conjunction over ALL reported mismatches
   (with the default handler any mismatch raises): success is never reported when a handler call
   answered failure *)
Theorem C01_all_results_count : forall (L : hashlib) decompress pgp w l path pol lm l' b log,
  assert_directory_verifies L decompress pgp w l path pol lm = Ok (l', b, log) ->
  b = forallb (verdict pol) log.
Proof. exact keep_going_result. Qed.
Print Assumptions C01_all_results_count.

(* IGNORE matches by whole path components *)
Theorem C01_ignore_components : forall path prefix,
  path_starts_with path prefix = true <-> starts_with_spec path prefix.
Proof. exact path_starts_with_spec. Qed.
Print Assumptions C01_ignore_components.

(* one directory: verification is the verification, in order, of the items of that directory ... *)
Theorem C01_directory_is_its_items : forall (L : hashlib) w c dp rp dirnames filenames dirdict log,
  verify_dir L w c dp rp dirnames filenames dirdict log
  = verify_items L w c dp rp (dir_items (vc_top c) rp dirnames filenames dirdict) (Ok (true, log)).
Proof. exact verify_dir_items. Qed.
Print Assumptions C01_directory_is_its_items.

(* ... and the items are exactly: each name at most once; a listed sub-directory iff it has an entry; a listed
   file iff it is visible (not hidden, not the top-level Manifest) - with the entry recorded under its name, or
   none (a stray file) -; and every entry whose name was not met, as a file that should exist *)
Theorem C01_items_exactly : forall top rp dirnames filenames dirdict,
  NoDup (dirnames ++ filenames) -> NoDup (map fst dirdict) ->
  NoDup (map fst (dir_items top rp dirnames filenames dirdict)) /\
  forall name e, In (name, e) (dir_items top rp dirnames filenames dirdict) <->
    (In name dirnames /\ exists de, assoc name dirdict = Some de /\ e = Some de) \/
    (In name filenames /\ visible top rp name = true /\ e = assoc name dirdict) \/
    (~ In name dirnames /\ ~ (In name filenames /\ visible top rp name = true) /\
     exists de, assoc name dirdict = Some de /\ e = Some de).
Proof. exact dir_items_spec. Qed.
Print Assumptions C01_items_exactly.

(* duplicate entries for one path: compatible exactly when the tags agree (or are both of the MANIFEST/DATA/EBUILD/AUX
   family), the sizes are equal and every hash carried by both has the same value in both *)
Theorem C01_duplicates_compatible_iff : forall t1 p1 a1 s1 c1 t2 p2 a2 s2 c2 ok diff,
  t1 <> TTIMESTAMP -> t1 <> TIGNORE -> t2 <> TTIMESTAMP -> t2 <> TIGNORE ->
  verify_entry_compatibility (EFile t1 p1 a1 s1 c1) (EFile t2 p2 a2 s2 c2) = Ok (ok, diff) ->
  (ok = true <-> tags_compatible t1 t2 /\ s1 = s2 /\ common_hashes_agree c1 c2).
Proof. exact compat_spec. Qed.
Print Assumptions C01_duplicates_compatible_iff.

(* ... so one conflicting common hash is an incompatibility, whatever other hashes either entry lists *)
Theorem C01_conflict_not_forgiven : forall t1 p1 a1 s1 c1 t2 p2 a2 s2 c2 ok diff h a b,
  t1 <> TTIMESTAMP -> t1 <> TIGNORE -> t2 <> TTIMESTAMP -> t2 <> TIGNORE ->
  assoc h c1 = Some a -> assoc h c2 = Some b -> a <> b ->
  verify_entry_compatibility (EFile t1 p1 a1 s1 c1) (EFile t2 p2 a2 s2 c2) = Ok (ok, diff) -> ok = false.
Proof. exact conflict_not_forgiven. Qed.
Print Assumptions C01_conflict_not_forgiven.

(* non-vacuity: 'DATA f 1 MD5 aa' against 'DATA f 1 MD5 bb SHA512 cc' *)
Example C01_conflict_example :
  verify_entry_compatibility (EFile TDATA [102] [] 1 [([77;68;53], [97;97])])
                             (EFile TDATA [102] [] 1 [([77;68;53], [98;98]); ([83;72;65;53;49;50], [99;99])])
  = Ok (false, [([77;68;53], Some [97;97], Some [98;98]); ([83;72;65;53;49;50], None, Some [99;99])]).
Proof. vm_compute. reflexivity. Qed.
