(* C06 — I/O errors never turn into success or into 'file absent'.
   Statements only; proofs in Proofs/Faults.v.  PARTIAL: proved per filesystem primitive for the
   per-object operations (every error path of verify_path / update_entry_for_path); propagation
   through the directory walk is the error monad of the model and is exercised, together with the
   real os.* calls, by fault injection at every call. *)
From Coq Require Import List NArith ZArith.
From Gemato Require Import Py.PyStr Py.PyPath Gen.Tables Model.Entry Model.Hash Model.FS Model.Verify.
From Gemato Require Import Proofs.Faults.
Import ListNotations.
Open Scope N_scope.

Theorem C06_open_error : forall (L : hashlib) w path e dev lm en,
  p_open w path = Err (XOS en) -> hard_errno en ->
  (forall d, e <> Some (ETs d)) -> (forall p, e <> Some (EIgn p)) ->
  verify_path L w path e dev lm = Err (XOS en).
Proof. exact verify_path_open_error. Qed.
Print Assumptions C06_open_error.

Theorem C06_stray_not_absent : forall (L : hashlib) w path dev lm en,
  p_open w path = Err (XOS en) -> hard_errno en -> verify_path L w path None dev lm = Err (XOS en).
Proof. exact stray_open_error. Qed.
Print Assumptions C06_stray_not_absent.

Theorem C06_fstat_error : forall (L : hashlib) w path t p a s c dev lm i en,
  p_open w path = Ok i -> p_fstat w i = Err (XOS en) ->
  verify_path L w path (Some (EFile t p a s c)) dev lm = Err (XOS en).
Proof. exact verify_path_fstat_error. Qed.
Print Assumptions C06_fstat_error.

(* unreadable content never yields success (unless the mtime rule allowed skipping the file) *)
Theorem C06_read_error : forall (L : hashlib) w path t p a s c dev lm i st en,
  p_open w path = Ok i -> p_fstat w i = Ok st -> p_read w i = Err (XOS en) ->
  match verify_path L w path (Some (EFile t p a s c)) dev lm with
  | Ok (true, _) => exists tm, lm = Some tm /\ (st_mtime st <= tm)%Z /\ st_size st <> 0
  | Ok (false, _) => True
  | Err _ => True
  end.
Proof. exact verify_path_read_error. Qed.
Print Assumptions C06_read_error.

Theorem C06_update_open_error : forall (L : hashlib) w path t p a s c hs dev lm en,
  p_open w path = Err (XOS en) -> hard_errno en ->
  update_entry_for_path L w path (EFile t p a s c) hs dev lm = Err (XOS en).
Proof. exact update_entry_open_error. Qed.
Print Assumptions C06_update_open_error.
