(* C06 — I/O errors never turn into success or into 'file absent'.
   Statements only; proofs in Proofs/Faults.v and Proofs/WalkComplete.v.  Proved per filesystem primitive for the
   per-object operations (every error path of verify_path / update_entry_for_path) and through the whole directory
   verification: when it returns (with any handler), every directory the walk reaches was listed and inspected without
   error, and for every file found there - and every entry of the merged dictionary - the per-object check itself returned
   an answer rather than an error (C06_walk_hides_no_error), so an object that cannot be opened makes the whole
   verification end with that error (C06_unreadable_found_file_fails_the_walk).  For the update: when
   update_entries_for_directory returns, every directory its walk reached was listed and inspected, the first listing or
   inspection error ends the walk with that error (C06_update_lists_every_directory), and the operation has no way to write -
   its result is a loader, the file system is not among its results (only save_manifests returns a new world).  PARTIAL:
   propagation through Manifest loading is the error monad of the model, exercised with the real os.* calls by fault injection. *)
From Coq Require Import List NArith ZArith.
From Gemato Require Import Py.PyStr Py.PyPath Gen.Tables Model.Entry Model.Text Model.OpenPGP Model.Hash Model.FS Model.Verify Model.Loader Model.Update.
From Gemato Require Import Proofs.Faults Proofs.DirSpec Proofs.OnlyOffending Proofs.WalkComplete Proofs.NoLoopUpd Proofs.UpdListed.
Import ListNotations.
Open Scope N_scope.

Theorem C06_open_error : forall (L : hashlib) w path e dev lm en,
  p_open w path = Err (XOS en) -> hard_errno en ->
  (forall d, e <> Some (ETs d)) -> (forall p, e <> Some (EIgn p)) ->
  verify_path L w path e dev lm = Err (XOS en).
Proof. exact verify_path_open_error. Qed.
Print Assumptions C06_open_error.

Theorem C06_stray_not_absent : forall (L : hashlib) w path dev lm en,
  p_open w path = Err (XOS en) -> hard_errno en -> verify_path L w path None dev lm = Err (XOS en).
Proof. exact stray_open_error. Qed.
Print Assumptions C06_stray_not_absent.

Theorem C06_fstat_error : forall (L : hashlib) w path t p a s c dev lm i en,
  p_open w path = Ok i -> p_fstat w i = Err (XOS en) ->
  verify_path L w path (Some (EFile t p a s c)) dev lm = Err (XOS en).
Proof. exact verify_path_fstat_error. Qed.
Print Assumptions C06_fstat_error.

(* unreadable content never yields success (unless the mtime rule allowed skipping the file) *)
Theorem C06_read_error : forall (L : hashlib) w path t p a s c dev lm i st en,
  p_open w path = Ok i -> p_fstat w i = Ok st -> p_read w i = Err (XOS en) ->
  match verify_path L w path (Some (EFile t p a s c)) dev lm with
  | Ok (true, _) => exists tm, lm = Some tm /\ (st_mtime st <= tm)%Z /\ st_size st <> 0
  | Ok (false, _) => True
  | Err _ => True
  end.
Proof. exact verify_path_read_error. Qed.
Print Assumptions C06_read_error.

Theorem C06_update_open_error : forall (L : hashlib) w path t p a s c hs dev lm en,
  p_open w path = Err (XOS en) -> hard_errno en ->
  update_entry_for_path L w path (EFile t p a s c) hs dev lm = Err (XOS en).
Proof. exact update_entry_open_error. Qed.
Print Assumptions C06_update_open_error.

(* ---- through the whole walk ------------------------------------------------------------------------------------- *)
(* a directory verification that returns - success or failure, any handler - has hidden no error: every directory it reaches
   (from the start, through listed sub-directories that are not hidden and have no entry) was listed and inspected, on the
   expected device; for every visible file found there verify_path answered; and so it did for every entry of the merged
   dictionary *)
Theorem C06_walk_hides_no_error : forall (L : hashlib) decompress pgp w l path pol lm l' b log,
  assert_directory_verifies L decompress pgp w l path pol lm = Ok (l', b, log) ->
  exists ed, get_file_entry_dict L decompress pgp w l path None true = Ok (l', ed) /\
    (forall dp rel, reach w ed (walk_top path) path dp rel ->
       (exists ents st, p_scandir w dp = Ok ents /\ p_stat w dp = Ok st /\ (forall d, l_dev l' = Some d -> st_dev st = d)) /\
       forall ents f, p_scandir w dp = Ok ents -> In f (map fst (filter (fun x => negb (snd x)) ents)) ->
         visible (l_top l') rel f = true -> exists eo ok diff, verify_path L w (pjoin dp f) eo (l_dev l') lm = Ok (ok, diff)) /\
    (forall dir dd n e, In (dir, dd) ed -> In (n, e) dd ->
       exists dp ok diff, names_object path dp (pjoin dir n) /\ verify_path L w dp (Some e) (l_dev l') lm = Ok (ok, diff)).
Proof.
  intros L decompress pgp w l path pol lm l' b log H.
  destruct (directory_verification_complete L decompress pgp w l path pol lm l' b log H) as [ed [E1 [E2 E3]]].
  exists ed. split; [exact E1|split].
  - intros dp rel Hr. destruct (E3 dp rel Hr) as [F1 F2]. split; [exact F1|].
    intros ents f Hs Hf Hv. destruct (F2 ents f Hs Hf Hv) as [eo [[ok [diff [N1 _]]] _]]. exists eo, ok, diff. exact N1.
  - intros dir dd n e Hd Hn. destruct (E2 dir dd n e Hd Hn) as [dp [N0 [ok [diff [N1 _]]]]]. exists dp, ok, diff. split; [exact N0|exact N1].
Qed.
Print Assumptions C06_walk_hides_no_error.

(* hence: a visible file that the walk finds and that cannot be opened (any errno except the three that mean "absent" /
   "exists, not opened") makes the verification end with an error - it does not return, neither True nor False *)
Theorem C06_unreadable_found_file_fails_the_walk : forall (L : hashlib) decompress pgp w l path pol lm ed l1 dp rel ents f en,
  get_file_entry_dict L decompress pgp w l path None true = Ok (l1, ed) ->
  reach w ed (walk_top path) path dp rel -> p_scandir w dp = Ok ents ->
  In f (map fst (filter (fun x => negb (snd x)) ents)) -> visible (l_top l1) rel f = true ->
  p_open w (pjoin dp f) = Err (XOS en) -> hard_errno en ->
  (forall dd e, In (rel, dd) ed -> In (f, e) dd -> (forall d, e <> ETs d) /\ (forall p, e <> EIgn p)) ->
  forall r, assert_directory_verifies L decompress pgp w l path pol lm = Ok r -> False.
Proof.
  intros L decompress pgp w l path pol lm ed l1 dp rel ents f en Hg Hr Hs Hf Hv Ho Hh Hne [[l' b] log] H.
  destruct (directory_verification_complete L decompress pgp w l path pol lm l' b log H) as [ed' [E1 [_ E3]]].
  rewrite Hg in E1. inversion E1; subst l1 ed'.
  destruct (proj2 (E3 dp rel Hr) ents f Hs Hf Hv) as [eo [[ok [diff [N1 _]]] B]]. cbn [vc_dev vc_lm] in N1.
  assert (X : verify_path L w (pjoin dp f) eo (l_dev l') lm = Err (XOS en)).
  { apply verify_path_open_error; [exact Ho|exact Hh| |].
    - intros d Hd. destruct B as [->|[e [dd [-> [B1 B2]]]]]; [discriminate|]. inversion Hd; subst. exact (proj1 (Hne dd _ B1 B2) d eq_refl).
    - intros p Hd. destruct B as [->|[e [dd [-> [B1 B2]]]]]; [discriminate|]. inversion Hd; subst. exact (proj2 (Hne dd _ B1 B2) p eq_refl). }
  rewrite X in N1. discriminate.
Qed.
Print Assumptions C06_unreadable_found_file_fails_the_walk.


(* the update / create walk: when update_entries_for_directory returns, every directory it reached - from the start, through listed
   sub-directories that are not hidden and have no entry in the de-duplicated dictionary it starts from - was listed and inspected
   without error: an unreadable directory is never passed over as if it were empty or absent ... *)
Theorem C06_update_lists_every_directory : forall (L : hashlib) decompress pgp w l path hashes lm l',
  update_entries_for_directory L decompress pgp w l path hashes lm = Ok l' ->
  exists l1 nm l2 ed,
    load_unregistered_manifests L decompress pgp w l path false = Ok (l1, nm) /\
    get_dedup_dict L decompress pgp w l1 path false = Ok (l2, ed) /\
    forall dp rel anc, reachu w ed (walk_top path) path [] dp rel anc ->
      exists ents st, p_scandir w dp = Ok ents /\ p_stat w dp = Ok st.
Proof. exact update_lists_every_reached_directory. Qed.
Print Assumptions C06_update_lists_every_directory.

(* ... because the first error of a listing ends the walk with that error *)
Theorem C06_update_listing_error : forall (L : hashlib) decompress pgp f w X rel nm hashes lm s e,
  p_scandir w X = Err e -> walk_update L decompress pgp (S f) w X rel nm hashes lm s = Err e.
Proof. exact update_walk_listing_error. Qed.
Print Assumptions C06_update_listing_error.

(* non-vacuity: Manifest 'DATA b 1', the file b; open() of b fails with EACCES: the premises hold, and the verification of the
   whole tree ends with exactly that error *)
From Gemato Require Import Exec.Oracles.
Definition c06_w : world :=
  mk_world 1 [(1, IDir 7 1 [([77;97;110;105;102;101;115;116], TIno 2); ([98], TIno 6)]);
              (2, IFile 7 0 9 [68;65;84;65;32;98;32;49;10]); (6, IFile 7 0 1 [121])] [(POpen, 6, EACCES)] [].
Definition c06_dec : list N -> list N -> res (list N) := fun _ _ => Err XBadCompressed.
Definition c06_pgp : list N -> res sigdata := fun _ => Err (XPGP PGPNoImpl).
Example C06_walk_example :
  exists l0 l1 ed ents,
    new_loader (table_hashlib []) c06_dec c06_pgp c06_w [77;97;110;105;102;101;115;116] (mk_opts None false None [] PDefault None None false) false true = Ok l0 /\
    get_file_entry_dict (table_hashlib []) c06_dec c06_pgp c06_w l0 [] None true = Ok (l1, ed) /\
    reach c06_w ed (walk_top []) [] (walk_top []) [] /\ p_scandir c06_w (walk_top []) = Ok ents /\
    In [98] (map fst (filter (fun x => negb (snd x)) ents)) /\ visible (l_top l1) [] [98] = true /\
    p_open c06_w (pjoin (walk_top []) [98]) = Err (XOS EACCES) /\ hard_errno EACCES /\
    assert_directory_verifies (table_hashlib []) c06_dec c06_pgp c06_w l0 [] PolFalse None = Err (XOS EACCES).
Proof.
  do 4 eexists. split; [vm_compute; reflexivity|]. split; [vm_compute; reflexivity|]. split; [apply reach_here|].
  split; [vm_compute; reflexivity|]. split; [vm_compute; right; left; reflexivity|]. split; [vm_compute; reflexivity|].
  split; [vm_compute; reflexivity|]. split; [repeat split; discriminate|vm_compute; reflexivity].
Qed.
