(* C13 - compression is transparent and follows the watermark.  Statements only.
   Proved for all inputs: (1) reading a Manifest stored compressed yields exactly the entries and signed flag of
   the same text stored plain, for any codec whose stored bytes decompress to that text; (2) the policy of every
   profile as translated from gemato/profile.py on this run: compress iff watermark <= uncompressed size, never a
   file named exactly "Manifest", and (old-ebuild) never a Manifest holding an EBUILD entry; (3) a save with
   nothing queued renames nothing.  PARTIAL: "exactly one file per logical Manifest, parents reference the new
   name, the tree still verifies" after recompression is decided by the correspondence runs with watermarks at
   size-1 / size / size+1 of every sub-Manifest (sizes taken from a first run). *)
From Coq Require Import List NArith ZArith Bool.
From Gemato Require Import Py.PyStr Py.PyPath Gen.Tables Gen.Profile Model.Entry Model.Text Model.OpenPGP Model.Hash
  Model.FS Model.Verify Model.Loader Model.Update.
From Gemato Require Import Proofs.SaveFrame Proofs.Frame.
Import ListNotations.
Open Scope N_scope.

Theorem C13_read_transparent : forall decompress pgp_verify w1 p1 fmt i1 d1 raw w2 p2 i2 v es sg st1,
  compressed_suffix p1 = Some fmt -> mem_str fmt codec_suffixes = true ->
  p_open_file w1 p1 = Ok i1 -> p_read w1 i1 = Ok d1 -> decompress fmt d1 = Ok raw ->
  compressed_suffix p2 = None -> p_open_file w2 p2 = Ok i2 -> p_read w2 i2 = Ok raw ->
  read_manifest decompress pgp_verify w1 p1 v = Ok (es, sg, st1) ->
  forall st2, p_fstat w2 i2 = Ok st2 -> read_manifest decompress pgp_verify w2 p2 v = Ok (es, sg, st2).
Proof. exact read_transparent. Qed.
Print Assumptions C13_read_transparent.

Theorem C13_policy_default : forall relpath tags unc wm,
  profile_want_compressed PDefault relpath tags unc wm = Some ((wm <=? unc)%Z && negb (ustr_eqb relpath s_Manifest)).
Proof. exact default_want_compressed. Qed.
Print Assumptions C13_policy_default.

Theorem C13_policy_ebuild : forall relpath tags unc wm,
  profile_want_compressed PEbuild relpath tags unc wm = Some ((wm <=? unc)%Z && negb (ustr_eqb relpath s_Manifest)).
Proof. exact ebuild_want_compressed. Qed.
Print Assumptions C13_policy_ebuild.

Theorem C13_policy_old_ebuild : forall relpath tags unc wm,
  profile_want_compressed POldEbuild relpath tags unc wm
  = if existsb (fun t => ustr_eqb t [69;66;85;73;76;68]) tags then Some false
    else Some ((wm <=? unc)%Z && negb (ustr_eqb relpath s_Manifest)).
Proof. exact old_ebuild_want_compressed. Qed.
Print Assumptions C13_policy_old_ebuild.

(* in particular: the top-level file named Manifest is never compressed implicitly, at any watermark *)
Theorem C13_top_level_never : forall p tags unc wm,
  In p [PDefault; PEbuild; POldEbuild] -> profile_want_compressed p s_Manifest tags unc wm = Some false.
Proof.
  intros p tags unc wm Hp. destruct Hp as [<-|[<-|[<-|[]]]].
  - rewrite C13_policy_default. cbn. rewrite andb_false_r. reflexivity.
  - rewrite C13_policy_ebuild. cbn. rewrite andb_false_r. reflexivity.
  - rewrite C13_policy_old_ebuild. destruct (existsb _ tags); [reflexivity|]. cbn. rewrite andb_false_r. reflexivity.
Qed.
Print Assumptions C13_top_level_never.

(* recompression renames by writing the new name and unlinking the old one: afterwards the old name is gone
   (one file per logical Manifest; that the new one is written first is in the text of save_manifests) *)
Theorem C13_old_name_removed : forall w path w', unlink_file w path = Ok w' -> forall j, ~ names w' path j.
Proof. exact unlink_removes_name. Qed.
Print Assumptions C13_old_name_removed.
