(* C16 — tree walks always terminate and respect filesystem boundaries.
   Statements only; proofs in Proofs/WalkTerm.v (verification walk), Proofs/UnregTerm.v (scan for
   unregistered Manifests) and Proofs/UpdateTerm.v (update / create walk): all three walks of the model
   terminate by themselves on any finite inode graph; Proofs/NoLoop.v: a directory verification that returns has walked into
   no directory that has the identity of one of its own ancestors (C16_no_loop_is_walked_into). *)
From Coq Require Import List NArith ZArith Arith Lia.
From Gemato Require Import Py.PyStr Py.PyPath Gen.Tables Model.Entry Model.Text Model.OpenPGP Model.Hash Model.FS
  Model.Verify Model.Loader Model.Update.
From Gemato Require Import Proofs.WalkTerm Proofs.UnregTerm Proofs.UpdateTerm Proofs.WalkComplete Proofs.NoLoop Proofs.Once Proofs.DictWf Proofs.NoLoopTop Proofs.NoLoopUpd.
From Gemato Require Import Exec.Oracles.
Import ListNotations.
Open Scope N_scope.

(* On ANY finite inode graph - any number of directory symlinks, cycles of any shape - the walk
   started on a directory of the tree gives the same result for every amount of fuel of at least
   (number of directory identities) + 2: the recursion is never cut off by the fuel, i.e. the walk
   terminates by itself (loop detection or exhaustion of the tree). *)
Theorem C16_terminates : forall (L : hashlib) w, wf_world w ->
  forall f1 f2 c X rel ed ret log,
  X <> [] -> forallb (N.eqb sl) X = false ->
  (D w + 2 <= f1)%nat -> (D w + 2 <= f2)%nat ->
  walk_verify L f1 w c X rel [] ed ret log = walk_verify L f2 w c X rel [] ed ret log.
Proof. exact walk_terminates. Qed.
Print Assumptions C16_terminates.

(* the same for the scan for unregistered Manifests that every update / create runs first ... *)
Theorem C16_unregistered_walk_terminates : forall (L : hashlib) decompress pgp_verify w, wf_world w ->
  forall f1 f2 l X rel ed found,
  X <> [] -> forallb (N.eqb sl) X = false ->
  (D w + 2 <= f1)%nat -> (D w + 2 <= f2)%nat ->
  walk_unreg L decompress pgp_verify f1 w l X rel [] ed found = walk_unreg L decompress pgp_verify f2 w l X rel [] ed found.
Proof. exact unreg_walk_terminates. Qed.
Print Assumptions C16_unregistered_walk_terminates.

(* ... and for the update / create walk itself (started with an empty identity map, as update_entries_for_directory does) *)
Theorem C16_update_walk_terminates : forall (L : hashlib) decompress pgp_verify w, wf_world w ->
  forall f1 f2 X rel nm hashes lm s,
  X <> [] -> forallb (N.eqb sl) X = false -> us_ids s = [] ->
  (D w + 2 <= f1)%nat -> (D w + 2 <= f2)%nat ->
  walk_update L decompress pgp_verify f1 w X rel nm hashes lm s = walk_update L decompress pgp_verify f2 w X rel nm hashes lm s.
Proof. exact update_walk_terminates. Qed.
Print Assumptions C16_update_walk_terminates.

(* the fuel the model actually uses, |nodes| + 3, is enough *)
Theorem C16_model_fuel_sufficient : forall w, (D w + 2 <= nodes_fuel w)%nat.
Proof. intros w. pose proof (dirids_le_nodes w). unfold nodes_fuel. lia. Qed.
Print Assumptions C16_model_fuel_sufficient.

(* a directory whose identity is among those recorded for its ancestors raises the symlink-loop
   error, whatever the failure handler would answer (also in keep-going mode) *)
Theorem C16_loop_raised : forall (L : hashlib) f w c X rel ids ed ret log ents dst,
  p_scandir w X = Ok ents -> p_stat w X = Ok dst ->
  (match vc_dev c with Some d => negb (st_dev dst =? d) | None => false end) = false ->
  In (st_dev dst, st_ino dst) (match assoc (dirname X) ids with Some x => x | None => [] end) ->
  walk_verify L (S f) w c X rel ids ed ret log = Err (XSymlinkLoop X).
Proof. exact walk_loop_raised. Qed.
Print Assumptions C16_loop_raised.

(* one-file-system mode: a walked directory or a listed file on another device raises the
   cross-device error instead of being verified *)
Theorem C16_xdev_directory : forall (L : hashlib) f w c X rel ids ed ret log ents dst d,
  p_scandir w X = Ok ents -> p_stat w X = Ok dst -> vc_dev c = Some d -> st_dev dst <> d ->
  walk_verify L (S f) w c X rel ids ed ret log = Err (XCrossDevice X).
Proof. exact walk_xdev_raised. Qed.
Print Assumptions C16_xdev_directory.

Theorem C16_xdev_file : forall (L : hashlib) w path t p a s c d lm i st,
  p_open w path = Ok i -> p_fstat w i = Ok st -> st_dev st <> d ->
  verify_path L w path (Some (EFile t p a s c)) (Some d) lm = Err (XCrossDevice path).
Proof. exact verify_path_xdev. Qed.
Print Assumptions C16_xdev_file.

(* the same two errors in the other two walks (every update / create runs both): before anything in the directory is read or written *)
Theorem C16_update_walks_raise : forall (L : hashlib) decompress pgp f w X rel nm hashes lm s ents dst,
  p_scandir w X = Ok ents -> p_stat w X = Ok dst ->
  (In (st_dev dst, st_ino dst) (match assoc (dirname X) (us_ids s) with Some x => x | None => [] end) ->
   (match l_dev (us_l s) with Some d => negb (st_dev dst =? d) | None => false end) = false ->
   walk_update L decompress pgp (S f) w X rel nm hashes lm s = Err (XSymlinkLoop X)) /\
  (forall d, l_dev (us_l s) = Some d -> st_dev dst <> d ->
   walk_update L decompress pgp (S f) w X rel nm hashes lm s = Err (XCrossDevice X)) /\
  (forall l ids ed found, In (st_dev dst, st_ino dst) (match assoc (dirname X) ids with Some x => x | None => [] end) ->
   (match l_dev l with Some d => negb (st_dev dst =? d) | None => false end) = false ->
   walk_unreg L decompress pgp (S f) w l X rel ids ed found = Err (XSymlinkLoop X)) /\
  (forall l ids ed found d, l_dev l = Some d -> st_dev dst <> d ->
   walk_unreg L decompress pgp (S f) w l X rel ids ed found = Err (XCrossDevice X)).
Proof. exact update_walks_raise. Qed.
Print Assumptions C16_update_walks_raise.

(* through the whole walk: when the verification of a directory - any relative path, the top directory '' included - returns (True or False, any handler), every directory it
   reached - from the start, through listed sub-directories that are not hidden and have no entry - has an identity
   (st_dev, st_ino) different from those of all the directories passed on the way to it: a symbolic link that leads back to one of
   its own ancestors is never walked into and accepted (by C16_loop_raised the walk ends with the symlink-loop error there) *)
Theorem C16_no_loop_is_walked_into : forall (L : hashlib) decompress pgp w l path pol lm l' b log,
  wf_world w -> rel_start path ->
  assert_directory_verifies L decompress pgp w l path pol lm = Ok (l', b, log) ->
  exists ed, get_file_entry_dict L decompress pgp w l path None true = Ok (l', ed) /\
    forall dp rel anc, reachc w ed (walk_top path) path [] dp rel anc ->
      forall st, p_stat w dp = Ok st -> ~ In (st_dev st, st_ino st) anc.
Proof. exact verification_walks_into_no_loop_any. Qed.
Print Assumptions C16_no_loop_is_walked_into.

(* the same for update / create: when update_entries_for_directory returns for any relative path, every directory its walk reached -
   through listed sub-directories that are not hidden and have no entry in the de-duplicated dictionary it starts from - has an
   identity different from those of all the directories passed on the way to it: no Manifest is created or rewritten through a link
   that leads back to an ancestor *)
Theorem C16_update_walks_into_no_loop : forall (L : hashlib) decompress pgp w l path hashes lm l',
  wf_world w -> rel_start path ->
  update_entries_for_directory L decompress pgp w l path hashes lm = Ok l' ->
  exists l1 nm l2 ed,
    load_unregistered_manifests L decompress pgp w l path false = Ok (l1, nm) /\
    get_dedup_dict L decompress pgp w l1 path false = Ok (l2, ed) /\
    forall dp rel anc, reachu w ed (walk_top path) path [] dp rel anc ->
      forall st, p_stat w dp = Ok st -> ~ In (st_dev st, st_ino st) anc.
Proof. exact update_walks_into_no_loop. Qed.
Print Assumptions C16_update_walks_into_no_loop.

(* non-vacuity: the directory s holds an entry t that leads back to s itself; the premises hold, s/t is reached with the identity of
   s among the identities passed, and the verification of s ends with the symlink-loop error for s/t *)
Definition c16_w : world :=
  mk_world 1 [(1, IDir 7 1 [([77;97;110;105;102;101;115;116], TIno 2); ([115], TIno 4)]);
              (2, IFile 7 0 0 []); (4, IDir 7 1 [([116], TIno 4)])] [] [].
Definition c16_dec : list N -> list N -> res (list N) := fun _ _ => Err XBadCompressed.
Definition c16_pgp : list N -> res sigdata := fun _ => Err (XPGP PGPNoImpl).
Example C16_loop_example :
  wf_world c16_w /\ no_trailing_slash (walk_top [115]) /\
  exists l0 l1 ed,
    new_loader (table_hashlib []) c16_dec c16_pgp c16_w [77;97;110;105;102;101;115;116] (mk_opts None false None [] PDefault None None false) false true = Ok l0 /\
    get_file_entry_dict (table_hashlib []) c16_dec c16_pgp c16_w l0 [115] None true = Ok (l1, ed) /\
    reachc c16_w ed (walk_top [115]) [115] [] (pjoin (walk_top [115]) [116]) (pjoin [115] [116]) [(7, 4)] /\
    (exists st, p_stat c16_w (pjoin (walk_top [115]) [116]) = Ok st /\ In (st_dev st, st_ino st) [(7, 4)]) /\
    assert_directory_verifies (table_hashlib []) c16_dec c16_pgp c16_w l0 [115] PolFalse None = Err (XSymlinkLoop (pjoin (walk_top [115]) [116])).
Proof.
  split.
  { intros i dev par ents Hin n t Hn. cbn in Hin. repeat (destruct Hin as [Hin|Hin]; [inversion Hin; subst; cbn in Hn|]); try destruct Hin.
    - destruct Hn as [Hn|[Hn|[]]]; inversion Hn; subst; split; [discriminate|intros [H|[H|[H|[H|[H|[H|[H|[H|[]]]]]]]]]; discriminate|discriminate|intros [H|[]]; discriminate].
    - destruct Hn as [Hn|[]]; inversion Hn; subst; split; [discriminate|intros [H|[]]; discriminate]. }
  split; [split; [discriminate|vm_compute; reflexivity]|].
  do 3 eexists. split; [vm_compute; reflexivity|]. split; [vm_compute; reflexivity|]. split.
  { eapply reachc_down; [vm_compute; reflexivity|vm_compute; reflexivity|vm_compute; left; reflexivity|reflexivity| |apply reachc_here].
    intros dd H. vm_compute in H. repeat (destruct H as [H|H]; [inversion H; subst; reflexivity|]). destruct H. }
  split; [eexists; split; [vm_compute; reflexivity|left; reflexivity]|vm_compute; reflexivity].
Qed.

(* the top directory (finding D34, repaired): an entry d of the top directory leads back to it, d/d is IGNOREd; the verification of
   the whole tree ends with the symlink-loop error for d - walk_top names the start directory without a trailing slash *)
Definition c16_top_w : world :=
  mk_world 1 [(1, IDir 7 1 [([77;97;110;105;102;101;115;116], TIno 2); ([100], TIno 1)]);
              (2, IFile 7 0 11 [73;71;78;79;82;69;32;100;47;100;10])] [] [].
Example C16_top_loop_example :
  rel_start [] /\ exists l0,
    new_loader (table_hashlib []) c16_dec c16_pgp c16_top_w [77;97;110;105;102;101;115;116] (mk_opts None false None [] PDefault None None false) false true = Ok l0 /\
    assert_directory_verifies (table_hashlib []) c16_dec c16_pgp c16_top_w l0 [] PolFalse None = Err (XSymlinkLoop (pjoin (walk_top []) [100])).
Proof. split; [exact I|]. eexists. split; [vm_compute; reflexivity|]. vm_compute. reflexivity. Qed.

(* non-vacuity for the update: in a tree without loops the update of s returns, and s/t is reached with the identity of s passed on
   the way; in the tree of the first example (s/t leads back to s) the update of s ends with the symlink-loop error for s/t *)
Definition c16_ok_w : world :=
  mk_world 1 [(1, IDir 7 1 [([77;97;110;105;102;101;115;116], TIno 2); ([115], TIno 4)]);
              (2, IFile 7 0 0 []); (4, IDir 7 1 [([116], TIno 5)]); (5, IDir 7 4 [])] [] [].
Example C16_update_loop_example :
  (exists l0 l1 nm l2 ed l',
    new_loader (table_hashlib []) c16_dec c16_pgp c16_ok_w [77;97;110;105;102;101;115;116] (mk_opts None false None [] PDefault None None false) false true = Ok l0 /\
    load_unregistered_manifests (table_hashlib []) c16_dec c16_pgp c16_ok_w l0 [115] false = Ok (l1, nm) /\
    get_dedup_dict (table_hashlib []) c16_dec c16_pgp c16_ok_w l1 [115] false = Ok (l2, ed) /\
    reachu c16_ok_w ed (walk_top [115]) [115] [] (pjoin (walk_top [115]) [116]) (pjoin [115] [116]) [(7, 4)] /\
    update_entries_for_directory (table_hashlib []) c16_dec c16_pgp c16_ok_w l0 [115] (Some []) None = Ok l') /\
  exists l0,
    new_loader (table_hashlib []) c16_dec c16_pgp c16_w [77;97;110;105;102;101;115;116] (mk_opts None false None [] PDefault None None false) false true = Ok l0 /\
    update_entries_for_directory (table_hashlib []) c16_dec c16_pgp c16_w l0 [115] (Some []) None = Err (XSymlinkLoop (pjoin (walk_top [115]) [116])).
Proof.
  split.
  - do 6 eexists. split; [vm_compute; reflexivity|]. split; [vm_compute; reflexivity|]. split; [vm_compute; reflexivity|]. split.
    { eapply reachu_down; [vm_compute; reflexivity|vm_compute; reflexivity|vm_compute; left; reflexivity|reflexivity|vm_compute; reflexivity|apply reachu_here]. }
    vm_compute. reflexivity.
  - eexists. split; [vm_compute; reflexivity|]. vm_compute. reflexivity.
Qed.
