(* C15 — top-level Manifest discovery returns the outermost covering Manifest.
   Statements only; proofs in Proofs/FindTopProof.v and Proofs/UtilSpec.v; the specification is
   Spec/FindTop.v. *)
From Coq Require Import List NArith ZArith.
From Gemato Require Import Py.PyStr Gen.Tables Gen.Util Model.Entry Model.Text Model.FindTop Spec.FindTop.
From Gemato Require Import Proofs.FindTopProof Proofs.UtilSpec Proofs.FindTopCor.
Import ListNotations.
Open Scope N_scope.

(* For every chain of ancestor directories (any length) whose Manifests are readable, every start
   path, with and without filesystem crossing / compressed names allowed: the result is the Manifest
   of the outermost level reachable without passing a level whose Manifest IGNOREs the start path
   (component-wise) or that lies on another device (when crossing is not allowed); levels without a
   Manifest are passed through; None if no reachable level has one. *)
Theorem C15_outermost : forall levels comps xdev compr vs r,
  Forall2 (fun lv v => view_of (manifest_filenames compr) lv = Some v) levels vs ->
  find_top_level levels comps xdev compr = Ok r -> is_answer vs comps xdev r.
Proof. exact find_top_level_spec. Qed.
Print Assumptions C15_outermost.

(* read off the specification: with filesystem crossing disallowed, the Manifest that is returned lies on the device of the start
   directory - its directory and the file itself (a Manifest that is a link to a file elsewhere does not count) - and so does every
   level passed on the way up to it; none of those levels IGNOREs the start path, none below it is the root directory *)
Theorem C15_no_manifest_on_another_device : forall levels comps compr vs j n,
  Forall2 (fun lv v => view_of (manifest_filenames compr) lv = Some v) levels vs ->
  find_top_level levels comps false compr = Ok (Some (j, n)) ->
  exists v fdev es, nth_error vs j = Some v /\ v_man v = Some (n, fdev, es) /\
    v_dev v = dev0 vs /\ fdev = dev0 vs /\
    (forall k vk, (k <= j)%nat -> nth_error vs k = Some vk ->
       v_dev vk = dev0 vs /\ ignores comps k vk = false /\
       match v_man vk with Some (_, fd, _) => fd = dev0 vs | None => True end) /\
    (forall k vk, (k < j)%nat -> nth_error vs k = Some vk -> v_root vk = false).
Proof. exact returned_manifest_is_local. Qed.
Print Assumptions C15_no_manifest_on_another_device.

(* compressed Manifests are considered only when explicitly allowed *)
Theorem C15_compressed_only_if_allowed : manifest_filenames false = [s_Manifest].
Proof. exact uncompressed_names_only. Qed.
Print Assumptions C15_compressed_only_if_allowed.

(* IGNORE matching is by whole path components (the translated util.path_starts_with) *)
Theorem C15_component_prefix : forall path prefix,
  path_starts_with path prefix = true <-> starts_with_spec path prefix.
Proof. exact path_starts_with_spec. Qed.
Print Assumptions C15_component_prefix.

Theorem C15_lookalike_not_ignored : forall path prefix c r,
  prefix <> [] -> py_rstrip prefix [slash] = prefix -> c <> slash ->
  path = prefix ++ c :: r -> path_starts_with path prefix = false.
Proof. exact lookalike_not_prefix. Qed.
Print Assumptions C15_lookalike_not_ignored.

(* non-vacuity: three levels; the middle Manifest ignores "sub"; start in top/mid/sub *)
Example C15_example :
  let man (t : list N) := mk_level (Ok (1, false)) [(s_Manifest, FText 1 t)] in
  let root := mk_level (Ok (1, true)) [] in
  (* start = /top/mid/sub ; mid/Manifest: "IGNORE sub" ; top/Manifest: "" ; sub/Manifest: "" *)
  find_top_level [man []; man [73;71;78;79;82;69;32;115;117;98;10]; man []; root]
                 [[116;111;112]; [109;105;100]; [115;117;98]] true false
  = Ok (Some (0%nat, s_Manifest)).
Proof. vm_compute. reflexivity. Qed.

(* one-file-system mode: the Manifest of the level above the start directory is a link to a file on device 2 - the search returns
   the Manifest of the start directory, and with crossing allowed the outer one *)
Example C15_foreign_link_example :
  let man (fdev : N) := mk_level (Ok (1, false)) [(s_Manifest, FText fdev [])] in
  let root := mk_level (Ok (1, true)) [] in
  find_top_level [man 1; man 2; root] [[116;111;112]; [115;117;98]] false false = Ok (Some (0%nat, s_Manifest)) /\
  find_top_level [man 1; man 2; root] [[116;111;112]; [115;117;98]] true false = Ok (Some (1%nat, s_Manifest)).
Proof. split; vm_compute; reflexivity. Qed.
