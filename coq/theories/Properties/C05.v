(* C05 — a signature is accepted only if good, valid, trusted, unexpired and unrevoked.
   Statements only; proofs in Proofs/Accept.v; the specification Spec/Accept.v is written in
   GnuPG's status vocabulary. *)
From Coq Require Import List NArith ZArith.
From Gemato Require Import Py.PyStr Gen.Tables Model.Entry Model.Text Model.OpenPGP Spec.Accept.
From Gemato Require Import Proofs.Accept.
Import ListNotations.
Open Scope N_scope.

(* For every exit status and every sequence of status lines (any length, any order) in which
   VALIDSIG reports have gpg's shape: signature data is returned exactly when the backend
   exited 0 and reported GOODSIG, VALIDSIG and a validity of at least marginal, with no
   EXPKEYSIG/REVKEYSIG report; every other outcome raises the failure the specification names. *)
Theorem C05_accept_iff : forall exitst ls, gpg_vocabulary ls ->
  match verify_status exitst ls with
  | Ok _ => accept_spec exitst ls = true
  | Err e => accept_spec exitst ls = false /\ e = XPGP (failure_spec exitst ls)
  end.
Proof. exact verify_status_spec. Qed.
Print Assumptions C05_accept_iff.

Theorem C05_verify_file_is_status : forall exitst out,
  verify_file exitst out = verify_status exitst (bsplitlines out).
Proof. exact verify_file_status. Qed.
Print Assumptions C05_verify_file_is_status.

(* the words tested by the source are gpg's: marginal, full(y) and ultimate validity *)
Theorem C05_trust_words : forall w, mem_bytes w trust_accepted = mem_bytes w sufficient_validity.
Proof. exact trust_tuple_is_sufficient. Qed.
Print Assumptions C05_trust_words.

(* monotone: a sufficient validity stays sufficient when raised (marginal -> full -> ultimate) *)
Theorem C05_monotone : forall w, mem_bytes w sufficient_validity = true ->
  mem_bytes (raise_word w) sufficient_validity = true.
Proof. exact raise_word_sufficient. Qed.
Print Assumptions C05_monotone.

(* undefined / never (or any other word) alone never leads to acceptance *)
Theorem C05_insufficient : forall exitst ls,
  (forall l, In l ls -> py_startswith l P_TRUST = true ->
             forall w, second_field l = Some w -> mem_bytes w sufficient_validity = false) ->
  accept_spec exitst ls = false.
Proof. exact insufficient_never_accepted. Qed.
Print Assumptions C05_insufficient.

(* a loaded Manifest reports itself as signed only if verify_file returned signature data for
   exactly the text the loader extracted *)
Theorem C05_signed_flag : forall text verify env es sg,
  load_with_env text verify env = Ok (es, true, sg) ->
  exists t d, load text verify = Ok (es, Some t) /\ env t = Ok d /\ sg = Some d.
Proof. exact signed_flag_means_verified. Qed.
Print Assumptions C05_signed_flag.

(* with -K (isolated environment) gpg always runs with the private home, whatever GNUPGHOME
   or anything else the user's environment contains *)
Theorem C05_isolated_home : forall user_env home proxy,
  assoc k_GNUPGHOME (spawn_env user_env (isolated_override home proxy)) = Some home.
Proof. exact isolated_home_wins. Qed.
Print Assumptions C05_isolated_home.

(* non-vacuity: gpg's own output for a good signature by an ultimately trusted key is accepted;
   the same with TRUST_FULLY is accepted; with TRUST_UNDEFINED it is rejected as untrusted *)
Example C05_example :
  let good := [91;71;78;85;80;71;58;93;32;71;79;79;68;83;73;71;32;65;32;66] in
  let valid := [91;71;78;85;80;71;58;93;32;86;65;76;73;68;83;73;71;32;70;80;32;50;48;50;48;32;49;53;57;56;51;53;56;56;49;50;32;48;32;52;32;48;32;49;32;49;48;32;48;49;32;80;75] in
  let trust w := [91;71;78;85;80;71;58;93;32] ++ w ++ [32;48;32;112;103;112] in
  (match verify_status 0 [good; valid; trust TRUST_ULTIMATE] with Ok _ => true | _ => false end) &&
  (match verify_status 0 [good; valid; trust TRUST_FULLY] with Ok _ => true | _ => false end) &&
  (match verify_status 0 [good; valid; trust TRUST_UNDEFINED] with Err (XPGP PGPUntrustedSig) => true | _ => false end) &&
  (match verify_status 2 [good; valid; trust TRUST_ULTIMATE] with Err (XPGP PGPVerification) => true | _ => false end) = true.
Proof. vm_compute. reflexivity. Qed.
