(* C19 - profiles place Manifests and type entries as documented; output verifies.  Statements only; proofs in
   Proofs/ProfileSpec.v.  The theorems are about Gen/Profile.v, which tools/py2v.py regenerates from
   gemato/profile.py on every run: they characterise the policy functions on repository-shaped paths of any
   names.  PARTIAL: that the loader consults the policy at the right places (new Manifests, default IGNOREs,
   typing, compression) and that the result verifies is decided by `gemato create -p <profile>` runs on generated
   repositories, checked against an independent statement of the documented policy and against the model. *)
From Coq Require Import List NArith ZArith Bool.
From Gemato Require Import Py.PyStr Py.PyPath Gen.Tables Gen.Util Gen.Profile.
From Gemato Require Import Proofs.ProfileSpec.
Import ListNotations.
Open Scope N_scope.

Theorem C19_loader_defaults : forall o,
  let o' := EbuildRepositoryProfile_set_loader_options o in
  lo_hashes o' = match lo_hashes o with Some h => Some h | None => Some [[66; 76; 65; 75; 69; 50; 66]; [83; 72; 65; 53; 49; 50]] end /\
  lo_sort o' = match lo_sort o with Some b => Some b | None => Some true end /\
  lo_compress_watermark o' = match lo_compress_watermark o with Some w => Some w | None => Some 128%Z end /\
  lo_compress_format o' = match lo_compress_format o with Some f => Some f | None => Some [103; 122] end.
Proof. exact ebuild_loader_fieldwise. Qed.
Print Assumptions C19_loader_defaults.

Theorem C19_old_ebuild_same_options : forall o,
  BackwardsCompatEbuildRepositoryProfile_set_loader_options o = EbuildRepositoryProfile_set_loader_options o.
Proof. exact old_ebuild_loader_same. Qed.
Print Assumptions C19_old_ebuild_same_options.

Theorem C19_manifest_where_metadata_xml : forall relpath dirnames filenames,
  mem_str s_metadata_xml filenames = true ->
  EbuildRepositoryProfile_want_manifest_in_directory relpath dirnames filenames = true.
Proof. exact want_manifest_with_metadata_xml. Qed.
Print Assumptions C19_manifest_where_metadata_xml.

Theorem C19_manifest_in_categories : forall relpath d dirnames filenames,
  noslash relpath -> EbuildRepositoryProfile_want_manifest_in_directory relpath (d :: dirnames) filenames = true.
Proof. exact want_manifest_top_level_with_subdirs. Qed.
Print Assumptions C19_manifest_in_categories.

Theorem C19_manifest_in_standard_dirs : forall relpath dirnames filenames,
  In relpath [[101;99;108;97;115;115]; [108;105;99;101;110;115;101;115]; [109;101;116;97;100;97;116;97]; [112;114;111;102;105;108;101;115]] ->
  EbuildRepositoryProfile_want_manifest_in_directory relpath dirnames filenames = true.
Proof. exact want_manifest_standard_dirs. Qed.
Print Assumptions C19_manifest_in_standard_dirs.

Theorem C19_manifest_in_packages : forall cat pkg dirnames filenames,
  noslash cat -> noslash pkg -> existsb (fun f => py_endswith f s_ebuild_sfx) filenames = true ->
  EbuildRepositoryProfile_want_manifest_in_directory (cat ++ 47 :: pkg) dirnames filenames = true.
Proof. exact want_manifest_package. Qed.
Print Assumptions C19_manifest_in_packages.

Theorem C19_no_manifest_in_files_dirs : forall cat pkg dirnames filenames,
  noslash cat -> noslash pkg -> mem_str s_metadata_xml filenames = false ->
  ustr_eqb cat [109;101;116;97;100;97;116;97] = false ->
  EbuildRepositoryProfile_want_manifest_in_directory (cat ++ 47 :: pkg ++ 47 :: s_files_dir) dirnames filenames = false.
Proof. exact no_manifest_in_files_dir. Qed.
Print Assumptions C19_no_manifest_in_files_dirs.

Theorem C19_default_ignores :
  EbuildRepositoryProfile_get_ignore_paths_for_new_manifest [] =
    [[100;105;115;116;102;105;108;101;115]; [108;111;99;97;108]; [108;111;115;116;43;102;111;117;110;100]; [112;97;99;107;97;103;101;115]] /\
  EbuildRepositoryProfile_get_ignore_paths_for_new_manifest [109;101;116;97;100;97;116;97] =
    [[116;105;109;101;115;116;97;109;112]; [116;105;109;101;115;116;97;109;112;46;99;104;107];
     [116;105;109;101;115;116;97;109;112;46;99;111;109;109;105;116]; [116;105;109;101;115;116;97;109;112;46;120]] /\
  forall sub, In sub [[100;116;100]; [103;108;115;97]; [110;101;119;115]; [120;109;108;45;115;99;104;101;109;97]] ->
    EbuildRepositoryProfile_get_ignore_paths_for_new_manifest ([109;101;116;97;100;97;116;97;47] ++ sub) =
      [[116;105;109;101;115;116;97;109;112;46;99;104;107]; [116;105;109;101;115;116;97;109;112;46;99;111;109;109;105;116]].
Proof. exact ebuild_default_ignores. Qed.
Print Assumptions C19_default_ignores.

Theorem C19_old_ebuild_types_ebuild : forall cat pkg name,
  noslash cat -> noslash pkg -> noslash name ->
  py_endswith (cat ++ 47 :: pkg ++ 47 :: name) s_ebuild_sfx = true ->
  BackwardsCompatEbuildRepositoryProfile_get_entry_type_for_path (cat ++ 47 :: pkg ++ 47 :: name) = [69; 66; 85; 73; 76; 68].
Proof. exact old_ebuild_types_ebuild. Qed.
Print Assumptions C19_old_ebuild_types_ebuild.

Theorem C19_old_ebuild_types_metadata_xml : forall cat pkg,
  noslash cat -> noslash pkg ->
  BackwardsCompatEbuildRepositoryProfile_get_entry_type_for_path (cat ++ 47 :: pkg ++ 47 :: s_metadata_xml) = [77; 73; 83; 67].
Proof. exact old_ebuild_types_metadata_xml. Qed.
Print Assumptions C19_old_ebuild_types_metadata_xml.

Theorem C19_old_ebuild_types_aux : forall cat pkg rest,
  noslash cat -> noslash pkg ->
  BackwardsCompatEbuildRepositoryProfile_get_entry_type_for_path (cat ++ 47 :: pkg ++ 47 :: s_files_dir ++ 47 :: rest) = [65; 85; 88].
Proof. exact old_ebuild_types_aux. Qed.
Print Assumptions C19_old_ebuild_types_aux.
