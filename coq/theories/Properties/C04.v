(* C04 — only the OpenPGP-signed content of a signed Manifest is ever used.
   Statements only; proofs in Proofs/Cleartext.v; the specification (framework
   decomposition, c04_b) is Spec/Cleartext.v and never mentions the loader's state machine. *)
From Coq Require Import List NArith ZArith.
From Gemato Require Import Py.PyStr Model.Entry Model.Text Spec.Cleartext.
From Gemato Require Import Proofs.Cleartext Proofs.Reject Proofs.Outside.
Import ListNotations.
Open Scope N_scope.

(* Whenever loading with verification gets as far as calling verify_file, (i) the text handed
   over is exactly the BEGIN-SIGNED .. END-SIGNATURE slice of the unique cleartext framework,
   (ii) only blank lines precede and follow it, (iii) the entries are exactly the entries of the
   dash-unescaped body: nothing from armor headers, signature block or outside is read.
   For every text, of any length. *)
Theorem C04_signed_text : forall text es t, load text true = Ok (es, Some t) -> c04_b text es t = true.
Proof. exact load_signed_spec. Qed.
Print Assumptions C04_signed_text.

(* a BEGIN-SIGNED line anywhere in the text: the result is an error, or verify_file is called
   (so the framework above exists); such a text is never silently treated as unsigned *)
Theorem C04_begin_never_ignored : forall text es o,
  In l_begin_signed (py_lines text) -> load text true = Ok (es, o) -> exists t, o = Some t.
Proof. exact begin_implies_signed. Qed.
Print Assumptions C04_begin_never_ignored.

(* every failure is ManifestSyntaxError or ManifestUnsignedData (shared with C09) *)
Theorem C04_failure_class : forall text verify,
  match load text verify with Ok _ => True | Err e => e = XSyntax \/ e = XUnsigned end.
Proof. exact load_total. Qed.
Print Assumptions C04_failure_class.

(* the entries are the same whether or not verification is requested *)
Theorem C04_verify_flag_irrelevant : forall text es o, load text true = Ok (es, o) -> load text false = Ok (es, None).
Proof. exact load_verify_irrel. Qed.
Print Assumptions C04_verify_flag_irrelevant.

(* "non-blank content before or after the signed block is rejected as unsigned data, misplaced armor as a syntax error", as a
   relation between a text and its extensions (line lists, any loader state to start from): once the lines read end a complete
   signed block, the first non-blank line that follows makes the load fail - unsigned data, or the syntax error when the line
   looks like armor - whatever follows it ... *)
Theorem C04_content_after_signed_block : forall v s0 ls s l rest,
  load_lines v s0 ls = Ok s -> ls_state s = SPost -> blank_line l = false ->
  load_lines v s0 (ls ++ l :: rest) = Err (if is_armor_line l then XSyntax else XUnsigned).
Proof. exact content_after_signed_block. Qed.
Print Assumptions C04_content_after_signed_block.

(* ... (a text that loads as signed is in that situation) ... *)
Theorem C04_signed_load_ends_the_block : forall v text es t, load text v = Ok (es, Some t) ->
  exists s, load_lines v (mk_ls SData [] []) (py_lines text) = Ok s /\ ls_state s = SPost.
Proof. exact load_state_post. Qed.
Print Assumptions C04_signed_load_ends_the_block.

(* ... and a signed block that begins after entries were read is unsigned data *)
Theorem C04_signed_block_after_content : forall v s0 ls s rest e es,
  load_lines v s0 ls = Ok s -> ls_state s = SData -> ls_entries s = e :: es ->
  load_lines v s0 (ls ++ l_begin_signed :: rest) = Err XUnsigned.
Proof. exact signed_block_after_content. Qed.
Print Assumptions C04_signed_block_after_content.

(* non-vacuity: a concrete signed message with a dash-escaped entry and an armor header *)
Example C04_example :
  let text := l_begin_signed ++ [72;97;115;104;58;32;83;72;65;50;53;54;10] ++ [10]
              ++ [68;65;84;65;32;97;32;48;10] ++ [45;32;68;65;84;65;32;98;32;49;10]
              ++ l_begin_sig ++ [10] ++ [105;81;69;122;10] ++ l_end_sig in
  match load text true with
  | Ok (es, Some t) => (length es =? 2)%nat && ustr_eqb t text
  | _ => false
  end = true.
Proof. vm_compute. reflexivity. Qed.
