(* C12 - update is idempotent and, with sorting, canonical.  Statements only.
   Proved for all inputs: (1) a save with nothing queued writes nothing and changes no loader state
   (so a second update that finds nothing to change rewrites nothing - that it finds nothing is decided
   by the correspondence runs, which compare the queue and the real st_mtime_ns of every file); (2) the
   sorted dump is a function of the SET of entries: any two arrangements of the same entries, with whatever
   object identities, are written in the same order (a strict weak order on (tag, path | timestamp),
   no two distinct entries sharing that key), and sorting twice equals sorting once.
   PARTIAL: that the entry SET written by update is independent of enumeration order is decided by the
   paired runs (same tree, different scandir order and permuted old Manifests). *)
From Coq Require Import List NArith ZArith Bool Permutation.
From Gemato Require Import Py.PyStr Py.PyPath Py.PyTime Gen.Tables Model.Entry Model.Text Model.OpenPGP Model.Hash
  Model.FS Model.Verify Model.Loader Model.Update.
From Gemato Require Import Proofs.SaveFrame Proofs.SortTheory Proofs.RefreshIdem.
Import ListNotations.
Open Scope N_scope.

Theorem C12_nothing_queued_nothing_written :
  forall (L : hashlib) decompress compress pgp_verify pgp_sign wmtime w l o w' l',
  l_updated l = [] -> so_force o = false ->
  save_manifests L decompress compress pgp_verify pgp_sign wmtime w l o = Ok (w', l') ->
  w' = w /\ l_updated l' = [] /\ l_loaded l' = l_loaded l.
Proof. exact save_nothing_queued. Qed.
Print Assumptions C12_nothing_queued_nothing_written.

(* an entry that has just been refreshed is a fixed point of the refresh: on the same file state a second
   update_entry_for_path reports "unchanged" and returns the same size and checksums *)
Theorem C12_refresh_idempotent : forall (L : hashlib) w path t p a esize ecks hashes dev ch size' cks',
  update_entry_for_path L w path (EFile t p a esize ecks) (Some hashes) dev None = Ok (ch, size', cks') ->
  update_entry_for_path L w path (EFile t p a size' cks') (Some hashes) dev None = Ok (false, size', cks').
Proof. exact refresh_idempotent. Qed.
Print Assumptions C12_refresh_idempotent.

Theorem C12_sorted_dump_canonical : forall (l1 l2 : list (N * entry)),
  Forall (fun ie => wfe (snd ie)) l1 -> Permutation l1 l2 ->
  (forall a b, In a l1 -> In b l1 -> ekey (snd a) = ekey (snd b) -> a = b) ->
  py_sorted cmp_ie l1 = py_sorted cmp_ie l2.
Proof. exact sorted_entries_canonical. Qed.
Print Assumptions C12_sorted_dump_canonical.

Theorem C12_sorted_dump_idempotent : forall (l : list (N * entry)),
  Forall (fun ie => wfe (snd ie)) l ->
  (forall a b, In a l -> In b l -> ekey (snd a) = ekey (snd b) -> a = b) ->
  py_sorted cmp_ie (py_sorted cmp_ie l) = py_sorted cmp_ie l.
Proof. exact sorted_entries_idem. Qed.
Print Assumptions C12_sorted_dump_idempotent.

(* ... and so is the text written: whatever object identities the entries carry and in whatever order the previous
   Manifest or the directory walk delivered them, a sorted save dumps the same text *)
Theorem C12_sorted_text_canonical : forall (l1 l2 : list (N * entry)),
  Forall wfe (map snd l1) -> Permutation (map snd l1) (map snd l2) ->
  (forall a b, In a (map snd l1) -> In b (map snd l1) -> ekey a = ekey b -> a = b) ->
  dump_entries (map snd (py_sorted cmp_ie l1)) = dump_entries (map snd (py_sorted cmp_ie l2)).
Proof. intros l1 l2 H1 H2 H3. f_equal. exact (sorted_entry_list_canonical l1 l2 H1 H2 H3). Qed.
Print Assumptions C12_sorted_text_canonical.

(* the checksum names of an entry are written in an order that does not depend on the dict order *)
Theorem C12_checksum_order_canonical : forall l1 l2 : list (list N),
  Permutation l1 l2 -> py_sorted ustr_ltb l1 = py_sorted ustr_ltb l2.
Proof. exact sorted_strs_canonical. Qed.
Print Assumptions C12_checksum_order_canonical.

(* non-vacuity: a concrete entry list meets the premises *)
Example C12_premises_hold :
  let l := [(1, EFile TDATA [97] [] 1 []); (2, EIgn [98]); (3, ETs (mkdt 2020 1 1 0 0 0))] in
  Forall (fun ie => wfe (snd ie)) l /\
  (forall a b, In a l -> In b l -> ekey (snd a) = ekey (snd b) -> a = b).
Proof.
  split; [repeat constructor|].
  intros a b Ha Hb. cbn in Ha, Hb.
  destruct Ha as [<-|[<-|[<-|[]]]], Hb as [<-|[<-|[<-|[]]]]; vm_compute; intros H; try reflexivity; discriminate H.
Qed.
