(* C03 - update writes Manifests that describe the tree exactly and then verify.
   Statements only.  PARTIAL: proved for all inputs are the per-entry refresh rule (an entry leaves the
   update carrying the size and digests computed from the file's present content for the requested hash
   set, Proofs/Refresh.v) and the save-step frame facts; the whole-tree statement "exactly one entry per
   file, parents reference children with true digests, fresh verification succeeds" is decided by running
   the model and /repo on the same trees and evaluating an independent exactness oracle plus a fresh
   verification on the result (tools/corr/p_update.py, oracle_exact.py). *)
From Coq Require Import List NArith ZArith.
From Gemato Require Import Py.PyStr Py.PyPath Gen.Tables Model.Entry Model.Text Model.OpenPGP Model.Hash
  Model.FS Model.Verify Model.Loader Model.Update.
From Gemato Require Import Exec.Oracles Proofs.Refresh Proofs.SaveFrame Proofs.RefreshVerify Proofs.RefreshIdem.
Import ListNotations.
Open Scope N_scope.

Theorem C03_refresh_true_partial : forall (L : hashlib) w path t p a esize ecks hashes dev ch size' cks',
  update_entry_for_path L w path (EFile t p a esize ecks) (Some hashes) dev None = Ok (ch, size', cks') ->
  exists i st got size,
    p_open w path = Ok i /\ p_fstat w i = Ok st /\ st_type st = FTReg /\
    (forall dv, dev = Some dv -> st_dev st = dv) /\
    gfm_checksums L w i st hashes = Ok got /\ assoc s_size got = Some (HInt size) /\
    (st_size st = 0 \/ st_size st = size) /\
    size' = Z.of_N size /\
    ( (ch = true /\ cks' = newcks_of got)
      \/ (ch = false /\ cks' = ecks /\ esize = Z.of_N size /\ sums_eqb ecks (newcks_of got) = true) ).
Proof. exact refresh_true. Qed.
Print Assumptions C03_refresh_true_partial.

Theorem C03_vanished_is_error : forall (L : hashlib) w path e hashes dev lm,
  p_open w path = Err (XOS ENOENT) ->
  (forall d, e <> ETs d) -> (forall q, e <> EIgn q) ->
  update_entry_for_path L w path e hashes dev lm = Err (XInvalidPath path s_exists).
Proof. exact refresh_absent. Qed.
Print Assumptions C03_vanished_is_error.

(* what the update writes for a file verifies: for any streaming hash library, if update_entry_for_path returns
   (size, checksums) then verify_path on the same file state with an entry carrying exactly these - whenever it
   returns - returns success without differences *)
Theorem C03_refresh_then_verify : forall (L : hashlib),
  (forall s a b, hl_update L (hl_update L s a) b = hl_update L s (a ++ b)) ->
  (forall s, hl_update L s [] = s) ->
  forall w path t p a esize ecks hashes dev ch size' cks' b d,
  update_entry_for_path L w path (EFile t p a esize ecks) (Some hashes) dev None = Ok (ch, size', cks') ->
  verify_path L w path (Some (EFile t p a size' cks')) dev None = Ok (b, d) ->
  b = true /\ d = [].
Proof. exact refresh_then_verify. Qed.
Print Assumptions C03_refresh_then_verify.

(* the same for the table-backed library the correspondence harness runs (no premises left) *)
Theorem C03_refresh_then_verify_exec : forall tb w path t p a esize ecks hashes dev ch size' cks' b d,
  update_entry_for_path (table_hashlib tb) w path (EFile t p a esize ecks) (Some hashes) dev None = Ok (ch, size', cks') ->
  verify_path (table_hashlib tb) w path (Some (EFile t p a size' cks')) dev None = Ok (b, d) ->
  b = true /\ d = [].
Proof. intros tb. exact (refresh_then_verify (table_hashlib tb) (table_upd_app tb) (table_upd_nil tb)). Qed.
Print Assumptions C03_refresh_then_verify_exec.

(* ... and is a fixed point of a further refresh *)
Theorem C03_refresh_fixed_point : forall (L : hashlib) w path t p a esize ecks hashes dev ch size' cks',
  update_entry_for_path L w path (EFile t p a esize ecks) (Some hashes) dev None = Ok (ch, size', cks') ->
  update_entry_for_path L w path (EFile t p a size' cks') (Some hashes) dev None = Ok (false, size', cks').
Proof. exact refresh_idempotent. Qed.
Print Assumptions C03_refresh_fixed_point.
