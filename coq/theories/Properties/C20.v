(* C20 - the fast generator scripts and the reference implementation agree.  Statements only.
   Proved for all inputs: for portable names (no character gemato escapes) the line format of
   utils/gen_fast_manifest.py - "<tag> <path> <size> BLAKE2B <d> SHA512 <d>", AUX with the path below files/ -
   is field for field the line of gemato's own writer for that entry, so by the C08 round trip
   (from_list (to_list e) = e) the reference reader obtains exactly the entry the script meant, and by C01 it
   verifies iff size and digests are those of the file.  PARTIAL: the scripts themselves (directory batching,
   split top-level Manifest, compat-mode typing) are not modelled; their output is checked on generated
   repositories with `gemato verify`, the exactness oracle, the model as reference verifier / updater, and
   `gemato update -p ebuild` before and after edits. *)
From Coq Require Import List NArith ZArith Bool.
From Gemato Require Import Py.PyStr Py.PyPath Gen.Tables Gen.Util Model.Entry.
From Gemato Require Import Py.PyTime Gen.PyFacts Proofs.FastGen Proofs.Codec Proofs.IntStr Proofs.Lines Proofs.EntryRT Proofs.TimeRT Proofs.FileRT.
Import ListNotations.
Open Scope N_scope.

Theorem C20_line_is_canonical : forall t p size d1 d2,
  t <> TAUX -> portable p ->
  to_list (EFile t p [] size [(s_BLAKE2B, d1); (s_SHA512, d2)])
  = Ok [tag_str t; p; str_of_Z size; s_BLAKE2B; d1; s_SHA512; d2].
Proof. exact fast_line_canonical. Qed.
Print Assumptions C20_line_is_canonical.

Theorem C20_aux_line_is_canonical : forall q0 z size d1 d2,
  let q := q0 ++ [z] in
  portable q -> z <> 47 ->
  to_list (EFile TAUX (s_files ++ 47 :: q) q size [(s_BLAKE2B, d1); (s_SHA512, d2)])
  = Ok [tag_str TAUX; q; str_of_Z size; s_BLAKE2B; d1; s_SHA512; d2].
Proof. exact fast_aux_line_canonical. Qed.
Print Assumptions C20_aux_line_is_canonical.

(* the reader's side (C08): what gemato writes for a well-formed entry it reads back as that entry *)
Theorem C20_reader_roundtrip : forall e, wf_entry e ->
  exists l, to_list e = Ok l /\ from_list (e_tag e) l = Ok (norm e) /\
            Forall wf_word l /\ exists r, l = tag_str (e_tag e) :: r.
Proof.
  intros e H. apply (entry_roundtrip strptime_strftime e H).
  destruct e; [apply strftime_word|exact I..].
Qed.
Print Assumptions C20_reader_roundtrip.
