(* C07 — every offending path is reported and the exit status reflects any failure.
   Statements only; proofs in Proofs/KeepGoing.v.  PARTIAL: the aggregation (nothing is dropped or
   short-circuited, over the whole tree and the trailing missing-directory pass) is proved for all
   inputs; that the handler is called exactly once per offending path is carried by the
   correspondence engine, which compares the complete call log. *)
From Coq Require Import List NArith ZArith.
From Gemato Require Import Py.PyStr Py.PyPath Gen.Tables Model.Entry Model.Text Model.OpenPGP Model.Hash
  Model.FS Model.Verify Model.Loader.
From Gemato Require Import Proofs.KeepGoing.
Import ListNotations.
Open Scope N_scope.

(* the overall result of a keep-going verification is failure iff at least one handler invocation
   of the WHOLE scan returned False (None counts as success); for trees of any size *)
Theorem C07_result : forall (L : hashlib) decompress pgp w l path pol lm l' b log,
  assert_directory_verifies L decompress pgp w l path pol lm = Ok (l', b, log) ->
  b = forallb (verdict pol) log.
Proof. exact keep_going_result. Qed.
Print Assumptions C07_result.

(* the scan of a sub-tree only ever appends to the log and and-s the result *)
Theorem C07_walk_monotone : forall (L : hashlib) fuel w c dirpath rel ids ed ret log ids' ed' ret' log',
  walk_verify L fuel w c dirpath rel ids ed ret log = Ok (ids', ed', ret', log') ->
  exists new, log' = log ++ new /\ ret' = ret && forallb (verdict (vc_pol c)) new.
Proof. exact walk_verify_ext. Qed.
Print Assumptions C07_walk_monotone.
