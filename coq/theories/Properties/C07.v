(* C07 — every offending path is reported and the exit status reflects any failure.
   Statements only; proofs in Proofs/KeepGoing.v.  The aggregation (nothing is dropped or short-circuited, over the whole tree and the trailing
   missing-directory pass) is proved for all inputs; within one directory the handler is invoked exactly for
   the items that do not verify, once each, in order (C07_directory_log with C01_items_exactly: every name is
   an item at most once); and over the whole tree every handler invocation is justified by a failed check of that very
   path, with exactly the differences handed over (C07_only_offending_reported: "for no other path"), and conversely every entry
   of the merged dictionary and every file found by the walk whose check fails IS reported, whichever directory it belongs to
   (C07_every_offending_path_reported; Proofs/WalkComplete.v).  And no path is handed to the handler twice
   (C07_each_path_reported_at_most_once; Proofs/Once.v, Proofs/DictWf.v, Proofs/Relative.v): the relative paths of different
   directory visits never coincide, the trailing pass reports entries of directories that were not visited - for any requested
   path, the whole tree included, on a tree whose directory listings have unique, non-empty, slash-free names, with a loader whose
   Manifests name relative paths (what the parser accepts; kept by loading: C07_loader_names_relative_paths). *)
From Coq Require Import List NArith ZArith.
From Gemato Require Import Py.PyStr Py.PyPath Gen.Tables Model.Entry Model.Text Model.OpenPGP Model.Hash
  Model.FS Model.Verify Model.Loader.
From Gemato Require Import Proofs.KeepGoing Proofs.DirSpec Proofs.OnlyOffending Proofs.WalkComplete Proofs.WalkTerm Proofs.Once Proofs.DictWf Proofs.Relative.
From Gemato Require Import Exec.Oracles.
Import ListNotations.
Open Scope N_scope.

(* the overall result of a keep-going verification is failure iff at least one handler invocation
   of the WHOLE scan returned False (None counts as success); for trees of any size *)
Theorem C07_result : forall (L : hashlib) decompress pgp w l path pol lm l' b log,
  assert_directory_verifies L decompress pgp w l path pol lm = Ok (l', b, log) ->
  b = forallb (verdict pol) log.
Proof. exact keep_going_result. Qed.
Print Assumptions C07_result.

(* the scan of a sub-tree only ever appends to the log and and-s the result *)
Theorem C07_walk_monotone : forall (L : hashlib) fuel w c dirpath rel ids ed ret log ids' ed' ret' log',
  walk_verify L fuel w c dirpath rel ids ed ret log = Ok (ids', ed', ret', log') ->
  exists new, log' = log ++ new /\ ret' = ret && forallb (verdict (vc_pol c)) new.
Proof. exact walk_verify_ext. Qed.
Print Assumptions C07_walk_monotone.

(* one directory, any handler that does not raise: the new handler invocations are exactly the items of the
   directory that do not verify (each with its differences), in the order of the items *)
Theorem C07_directory_log : forall (L : hashlib) w c dp rp dirnames filenames dirdict log b log',
  vc_pol c <> PolThrow ->
  verify_dir L w c dp rp dirnames filenames dirdict log = Ok (b, log') ->
  log' = log ++ flat_map (failing L w c dp rp) (dir_items (vc_top c) rp dirnames filenames dirdict).
Proof.
  intros L w c dp rp dirnames filenames dirdict log b log' Hp H. rewrite verify_dir_items in H.
  eapply verify_items_log; eassumption.
Qed.
Print Assumptions C07_directory_log.

(* "for no other path": every invocation (relative path, differences) in the log of the whole scan - the walk and the trailing
   pass over entries of directories that were not found - stems from verify_path answering "does not match" with these
   differences, for the system path that names the same object (grown by the same names from (root/path, path)), or for
   root/relative-path in the trailing pass *)
Theorem C07_only_offending_reported : forall (L : hashlib) decompress pgp w l path pol lm l' b log,
  assert_directory_verifies L decompress pgp w l path pol lm = Ok (l', b, log) ->
  Forall (justified L w (mk_vctx (l_top l') (l_dev l') pol lm) path) log.
Proof. exact only_offending_reported. Qed.
Print Assumptions C07_only_offending_reported.

(* "for each offending path": with [ed] the merged entry dictionary of the request, every entry of [ed] and every visible file of
   every directory the walk reaches was checked (verify_path on the object its path names), and whenever that check answered
   "does not match" the handler was invoked for that path with exactly these differences ([presented]) - in the walk or in the
   trailing pass over entries of directories that were never visited *)
Theorem C07_every_offending_path_reported : forall (L : hashlib) decompress pgp w l path pol lm l' b log,
  assert_directory_verifies L decompress pgp w l path pol lm = Ok (l', b, log) ->
  exists ed, get_file_entry_dict L decompress pgp w l path None true = Ok (l', ed) /\
    let c := mk_vctx (l_top l') (l_dev l') pol lm in
    (forall dir dd n e, In (dir, dd) ed -> In (n, e) dd -> presented L w c path (pjoin dir n) (Some e) log) /\
    (forall dp rel, reach w ed (walk_top path) path dp rel -> files_presented L w c ed dp rel log).
Proof. exact directory_verification_complete. Qed.
Print Assumptions C07_every_offending_path_reported.

(* "exactly once": the log of a directory verification - the walk and the trailing pass - names no path twice.
   wf_world / nodup_world: the names in every directory are non-empty, slash-free and unique (what a real directory provides);
   key_ok path: the requested path is '' (the whole tree) or non-empty without a trailing slash;
   lrel l: the loaded Manifests have relative, non-empty paths and entries as the parser accepts them. *)
Theorem C07_each_path_reported_at_most_once : forall (L : hashlib) decompress pgp w l path pol lm l' b log,
  wf_world w -> nodup_world w -> key_ok path -> lrel l ->
  assert_directory_verifies L decompress pgp w l path pol lm = Ok (l', b, log) ->
  NoDup (map fst log).
Proof. exact each_path_reported_at_most_once_any. Qed.
Print Assumptions C07_each_path_reported_at_most_once.

(* a loader constructed on a relative top-level Manifest name satisfies lrel, and the directory verification keeps it *)
Theorem C07_loader_names_relative_paths : forall (L : hashlib) decompress pgp w top opts ax l,
  rel_path top -> new_loader L decompress pgp w top opts false ax = Ok l -> lrel l.
Proof. exact new_loader_rel. Qed.
Print Assumptions C07_loader_names_relative_paths.

(* the same without a premise on the loader, for the verification of a sub-directory given by a relative path *)
Theorem C07_each_path_reported_at_most_once_subdirectory : forall (L : hashlib) decompress pgp w l path pol lm l' b log,
  wf_world w -> nodup_world w -> rel_ok path -> rel_start path ->
  assert_directory_verifies L decompress pgp w l path pol lm = Ok (l', b, log) ->
  NoDup (map fst log).
Proof. exact each_path_reported_at_most_once. Qed.
Print Assumptions C07_each_path_reported_at_most_once_subdirectory.

(* non-vacuity: top-level Manifest 'MANIFEST s/Manifest 9', s/Manifest 'DATA a 1', files s/a (2 bytes: the size differs), the unlisted
   s/b and the unlisted b; the premises hold; the keep-going verification of the whole tree reports b, s/a and s/b, once each *)
Definition c07_w : world :=
  mk_world 1 [(1, IDir 7 1 [([77;97;110;105;102;101;115;116], TIno 2); ([115], TIno 4); ([98], TIno 7)]);
              (2, IFile 7 0 22 [77;65;78;73;70;69;83;84;32;115;47;77;97;110;105;102;101;115;116;32;57;10]);
              (4, IDir 7 1 [([77;97;110;105;102;101;115;116], TIno 5); ([97], TIno 3); ([98], TIno 6)]);
              (5, IFile 7 0 9 [68;65;84;65;32;97;32;49;10]);
              (3, IFile 7 0 2 [120;120]); (6, IFile 7 0 1 [121]); (7, IFile 7 0 1 [122])] [] [].
Definition c07_dec : list N -> list N -> res (list N) := fun _ _ => Err XBadCompressed.
Definition c07_pgp : list N -> res sigdata := fun _ => Err (XPGP PGPNoImpl).
Example C07_once_example :
  wf_world c07_w /\ nodup_world c07_w /\ key_ok [] /\ rel_path [77;97;110;105;102;101;115;116] /\
  exists l0 l' d1 d2 d3,
    new_loader (table_hashlib []) c07_dec c07_pgp c07_w [77;97;110;105;102;101;115;116] (mk_opts None false None [] PDefault None None false) false true = Ok l0 /\
    assert_directory_verifies (table_hashlib []) c07_dec c07_pgp c07_w l0 [] PolFalse None
      = Ok (l', false, [([98], d1); ([115;47;97], d2); ([115;47;98], d3)]).
Proof.
  assert (V : forall n : list N, n = [77;97;110;105;102;101;115;116] \/ n = [115] \/ n = [97] \/ n = [98] -> valid_name n).
  { intros n [-> | [-> | [-> | ->]]]; (split; [discriminate|]); cbn; intros H; repeat (destruct H as [H|H]; [discriminate|]); exact H. }
  split.
  { intros i dev par ents Hin n t Hn. cbn in Hin. repeat (destruct Hin as [Hin|Hin]; [inversion Hin; subst; cbn in Hn|]); try destruct Hin.
    - destruct Hn as [Hn|[Hn|[Hn|[]]]]; inversion Hn; subst; apply V; tauto.
    - destruct Hn as [Hn|[Hn|[Hn|[]]]]; inversion Hn; subst; apply V; tauto. }
  split.
  { intros i dev par ents Hin. cbn in Hin. repeat (destruct Hin as [Hin|Hin]; [inversion Hin; subst; cbn|]); try destruct Hin.
    - repeat constructor; cbn; intros H; repeat (destruct H as [H|H]; [discriminate|]); exact H.
    - repeat constructor; cbn; intros H; repeat (destruct H as [H|H]; [discriminate|]); exact H. }
  split; [left; reflexivity|]. split; [split; [discriminate|cbn; discriminate]|].
  do 5 eexists. split; [vm_compute; reflexivity|vm_compute; reflexivity].
Qed.
