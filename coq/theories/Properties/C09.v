(* C09 — malformed Manifest text is always rejected with a syntax error, never misread.
   Statements only; proofs in Proofs/Reject.v. *)
From Coq Require Import List NArith ZArith.
From Gemato Require Import Py.PyStr Py.PyTime Gen.PyFacts Gen.Tables Model.Entry Model.Text.
From Gemato Require Import Proofs.Reject.
Import ListNotations.
Open Scope N_scope.

(* every text (any length, any content) is parsed or rejected with ManifestSyntaxError /
   ManifestUnsignedData: no other outcome exists, with or without signature handling *)
Theorem C09_total : forall text verify,
  match load text verify with
  | Ok _ => True
  | Err e => e = XSyntax \/ e = XUnsigned
  end.
Proof. exact load_total. Qed.
Print Assumptions C09_total.

(* per line: the entry parser answers with an entry of the line's tag or with the syntax error *)
Theorem C09_from_list : forall t data,
  match from_list t data with
  | Ok e => entry_sane e /\ e_tag e = t
  | Err ex => ex = XSyntax
  end.
Proof. exact from_list_spec. Qed.
Print Assumptions C09_from_list.

(* whatever is accepted has a non-empty relative path (however it was escaped), a non-negative
   size, no slash in a DIST name, and a valid timestamp *)
Theorem C09_accepted_sane : forall text verify es o, load text verify = Ok (es, o) -> Forall entry_sane es.
Proof. exact load_sane. Qed.
Print Assumptions C09_accepted_sane.

(* wrong number of fields *)
Theorem C09_field_count : forall t data,
  (match t with TTIMESTAMP | TIGNORE => length data <> 2%nat | _ => (length data < 3)%nat end) ->
  from_list t data = Err XSyntax.
Proof. exact from_list_field_count. Qed.
Print Assumptions C09_field_count.

(* a checksum name without a value *)
Theorem C09_dangling_checksum : forall l acc, Nat.odd (length l) = true -> parse_cks l acc = Err XSyntax.
Proof. exact parse_cks_odd. Qed.
Print Assumptions C09_dangling_checksum.

(* size: accepted only if int() accepts it and it is non-negative *)
Theorem C09_size : forall data,
  match process_checksums data with
  | Ok (z, c) => (0 <= z)%Z /\ exists t p sz rest, data = t :: p :: sz :: rest /\
                 py_int nd_starts sz = Some z /\ Nat.even (length rest) = true
  | Err e => e = XSyntax
  end.
Proof. exact process_checksums_spec. Qed.
Print Assumptions C09_size.

(* escapes: any failure of the unescaper is the syntax error; an empty result is impossible *)
Theorem C09_escape : forall s,
  match decode_path s with Ok p => (s <> [] -> p <> []) | Err e => e = XSyntax end.
Proof. exact decode_path_total. Qed.
Print Assumptions C09_escape.

(* unknown tag *)
Theorem C09_unknown_tag : forall verify st es pgp line t rest,
  is_armor_line line = false -> split_ws (strip_ws line) = t :: rest -> lookup_tag t = None ->
  st <> SPreamble -> st <> SSignature ->
  step_tail verify st es pgp line = Err (if match st with SPost => true | _ => false end then XUnsigned else XSyntax).
Proof. exact unknown_tag_rejected. Qed.
Print Assumptions C09_unknown_tag.

(* nothing is silently skipped *)
Theorem C09_no_skip : forall text es o,
  Forall (fun l => ustr_eqb l l_begin_signed = false) (py_lines text) ->
  load text false = Ok (es, o) -> length es = length (filter nonblank (py_lines text)).
Proof. exact load_no_skip. Qed.
Print Assumptions C09_no_skip.

(* concrete witnesses of each rejected class (computed) *)
Example C09_examples :
  let bad (s : ustr) := match load s false with Err XSyntax => true | _ => false end in
  forallb bad
    [ [70;79;79;32;97;32;48;10]                      (* FOO a 0            : unknown tag *)
    ; [68;65;84;65;32;97;10]                         (* DATA a             : field count *)
    ; [68;65;84;65;32;97;32;45;49;10]                (* DATA a -1          : negative size *)
    ; [68;65;84;65;32;97;32;120;10]                  (* DATA a x           : non-numeric size *)
    ; [68;65;84;65;32;97;32;48;32;77;68;53;10]       (* DATA a 0 MD5       : dangling checksum *)
    ; [68;65;84;65;32;47;97;32;48;10]                (* DATA /a 0          : absolute path *)
    ; [68;65;84;65;32;92;120;50;70;97;32;48;10]      (* DATA \x2Fa 0       : escaped absolute path *)
    ; [68;65;84;65;32;92;85;48;48;49;49;48;48;48;48;32;48;10]  (* DATA \U00110000 0 : out of range *)
    ; [68;65;84;65;32;97;92;32;48;10]                (* DATA a\ 0          : bad escape *)
    ; [68;73;83;84;32;97;47;98;32;48;10]             (* DIST a/b 0         : DIST with slash *)
    ; [84;73;77;69;83;84;65;77;80;32;120;10]         (* TIMESTAMP x        : malformed timestamp *)
    ] = true.
Proof. vm_compute. reflexivity. Qed.
