(* C18 - bad input produces a diagnosed failure, not an internal error.  Statements only.
   Proved for all inputs: the parser answers every text with entries or with its own two exception types and the
   accepted entries are sane (C09's theorems, restated); the compatibility check applied to two entries for one
   path never fails; and no reading operation of the loader - construction, chain loading, lookups, single-path and
   directory verification with any failure handler, in any order on one loader object - ends with an internal error
   other than the ValueError / UnicodeError of a path with NUL or a lone surrogate (findings D23, D13) or of Manifest
   bytes that are not UTF-8 (outside the quantifier), for every tree, fault placement and Manifest text.
   PARTIAL: the executable model HAS internal-error results (its exn type keeps XInternal to mirror the code); for
   the writing side (update, save) the known reachable ones are findings D8, D11, D12, D21, D25; that no other is
   reachable from the CLI is decided by running
   gemato.cli.main in-process over the C01/C03/C09 generators and comparing the outcome class with the model's;
   the known reachable ones (findings D8, D12, D13, D21) are listed in known_findings.json. *)
From Coq Require Import List NArith ZArith Bool.
From Gemato Require Import Py.PyStr Py.PyPath Py.PyTime Gen.Tables Model.Entry Model.Text Model.Hash Model.FS Model.Verify.
From Gemato Require Import Model.OpenPGP Model.Loader Exec.Oracles.
From Gemato Require Import Proofs.Reject Proofs.NoInternal Proofs.ReadSafe.
Import ListNotations.
Open Scope N_scope.

Theorem C18_parser_total : forall text verify, only_parser (load text verify).
Proof. exact load_total. Qed.
Print Assumptions C18_parser_total.

Theorem C18_accepted_entries_sane : forall text verify es o,
  load text verify = Ok (es, o) -> Forall entry_sane es.
Proof. exact load_sane. Qed.
Print Assumptions C18_accepted_entries_sane.

Theorem C18_compatibility_total : forall e1 e2, parsed_shape e1 -> parsed_shape e2 ->
  exists ok diff, verify_entry_compatibility e1 e2 = Ok (ok, diff).
Proof. exact compat_total. Qed.
Print Assumptions C18_compatibility_total.

(* benign e: e is not an internal error, except the two classes provoked by NUL / lone surrogates in a path or non-UTF-8 bytes.
   sane_faults w: open() answers ENXIO / EOPNOTSUPP only for sockets (never as an injected fault on another object).
   The hash library, the decompressor and the OpenPGP environment are arbitrary but do not raise internal errors. *)
Theorem C18_reading_never_internal :
  forall (L : Hash.hashlib) decompress pgp_verify,
    (forall s, safe (Hash.hl_hexdigest L s)) -> (forall f d, safe (decompress f d)) -> (forall t, safe (pgp_verify t)) ->
  forall w, sane_faults w ->
  forall top opts allow_create allow_xdev ops e,
    (l <- new_loader L decompress pgp_verify w top opts allow_create allow_xdev ;; run_rops L decompress pgp_verify w l ops) = Err e ->
    forall k, e = XInternal k -> k = IValue \/ k = IUnicode.
Proof. intros L dc pg H1 H2 H3 w Hw top opts ac ax ops e H. exact (loader_reading_safe L dc pg H1 H2 H3 w Hw top opts ac ax ops e H). Qed.
Print Assumptions C18_reading_never_internal.

Theorem C18_single_file_check_never_internal :
  forall (L : Hash.hashlib), (forall s, safe (Hash.hl_hexdigest L s)) ->
  forall w path e dev lm, sane_faults w -> (forall d, e <> Some (ETs d)) -> safe (Verify.verify_path L w path e dev lm).
Proof. exact verify_path_safe. Qed.
Print Assumptions C18_single_file_check_never_internal.

(* non-vacuity: two IGNORE entries of one path (the D4 input) meet the premises *)
Example C18_duplicate_ignore : verify_entry_compatibility (EIgn [102;111;111]) (EIgn [102;111;111]) = Ok (true, []).
Proof. vm_compute. reflexivity. Qed.

(* non-vacuity of C18_reading_never_internal: a table-backed hash library, a fault-free world holding a Manifest ('DATA a 1')
   and the file a; the loader is constructed, the directory verifies, an entry is looked up - the run ends with Ok *)
Definition ex_world : FS.world :=
  FS.mk_world 1 [(1, FS.IDir 7 1 [([77;97;110;105;102;101;115;116], FS.TIno 2); ([97], FS.TIno 3)]);
                 (2, FS.IFile 7 0 9 [68;65;84;65;32;97;32;49;10]);
                 (3, FS.IFile 7 0 1 [120])] [] [].
Definition ex_run :=
  l <- new_loader (table_hashlib []) (fun _ _ => Err XBadCompressed) (fun _ => Err (XPGP PGPNoImpl)) ex_world
         [77;97;110;105;102;101;115;116] (mk_opts None false None [] PDefault None None false) false true ;;
  run_rops (table_hashlib []) (fun _ _ => Err XBadCompressed) (fun _ => Err (XPGP PGPNoImpl)) ex_world l
           [RVerifyDir [] PolThrow None; RFind [97]].
Example C18_reading_premises_satisfiable :
  (forall s, safe (Hash.hl_hexdigest (table_hashlib []) s)) /\ sane_faults ex_world /\ exists l, ex_run = Ok l.
Proof.
  split; [|split].
  - intros [n c] e H k Hk. cbn in H. inversion H; subst. discriminate.
  - intros i e H. discriminate.
  - vm_compute. eexists. reflexivity.
Qed.
