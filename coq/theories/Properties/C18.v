(* C18 - bad input produces a diagnosed failure, not an internal error.  Statements only.
   Proved for all inputs: the parser answers every text with entries or with its own two exception types and the
   accepted entries are sane (C09's theorems, restated); the compatibility check applied to two entries for one
   path never fails.  PARTIAL: the executable model HAS internal-error results (its exn type keeps
   XInternal to mirror the code); that none of them is reachable from the CLI is decided by running
   gemato.cli.main in-process over the C01/C03/C09 generators and comparing the outcome class with the model's;
   the known reachable ones (findings D8, D12, D13, D21) are listed in known_findings.json. *)
From Coq Require Import List NArith ZArith Bool.
From Gemato Require Import Py.PyStr Py.PyPath Py.PyTime Gen.Tables Model.Entry Model.Text Model.Hash Model.FS Model.Verify.
From Gemato Require Import Proofs.Reject Proofs.NoInternal.
Import ListNotations.
Open Scope N_scope.

Theorem C18_parser_total : forall text verify, only_parser (load text verify).
Proof. exact load_total. Qed.
Print Assumptions C18_parser_total.

Theorem C18_accepted_entries_sane : forall text verify es o,
  load text verify = Ok (es, o) -> Forall entry_sane es.
Proof. exact load_sane. Qed.
Print Assumptions C18_accepted_entries_sane.

Theorem C18_compatibility_total : forall e1 e2, parsed_shape e1 -> parsed_shape e2 ->
  exists ok diff, verify_entry_compatibility e1 e2 = Ok (ok, diff).
Proof. exact compat_total. Qed.
Print Assumptions C18_compatibility_total.

(* non-vacuity: two IGNORE entries of one path (the D4 input) meet the premises *)
Example C18_duplicate_ignore : verify_entry_compatibility (EIgn [102;111;111]) (EIgn [102;111;111]) = Ok (true, []).
Proof. vm_compute. reflexivity. Qed.
