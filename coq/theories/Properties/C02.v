(* C02 — sub-Manifests are trusted only through an unbroken hash chain from the top.
   Statements only; proofs in Proofs/Chain.v. *)
From Coq Require Import List NArith ZArith.
From Gemato Require Import Py.PyStr Py.PyPath Gen.Tables Model.Entry Model.Text Model.OpenPGP Model.Hash
  Model.FS Model.Verify Model.Loader.
From Gemato Require Import Proofs.Chain.
Import ListNotations.
Open Scope N_scope.

(* A freshly constructed loader holds only the top-level Manifest. *)
Theorem C02_initial : forall (L : hashlib) decompress pgp w top opts xdev l,
  new_loader L decompress pgp w top opts false xdev = Ok l ->
  Faithful decompress pgp w l /\ Accepted L decompress pgp w l.
Proof. exact new_loader_accepted. Qed.
Print Assumptions C02_initial.

(* Every loading round (any path, recursive or not, any number of rounds = any nesting depth)
   preserves: each loaded Manifest other than the top-level one is named by a MANIFEST entry in the
   file of a loaded Manifest, and its stored bytes (compressed or not) matched that entry's size and
   every listed checksum at the moment it was loaded, before anything of it was parsed. *)
Theorem C02_chain_invariant : forall (L : hashlib) decompress pgp w fuel l path rec l',
  Faithful decompress pgp w l -> Accepted L decompress pgp w l ->
  load_manifests_for_path L decompress pgp fuel w l path rec true = Ok l' ->
  Faithful decompress pgp w l' /\ Accepted L decompress pgp w l' /\ l_top l' = l_top l.
Proof. exact load_manifests_accepted. Qed.
Print Assumptions C02_chain_invariant.

(* a Manifest whose file does not match the vouching entry is never loaded: the mismatch is raised *)
Theorem C02_broken_link : forall (L : hashlib) decompress pgp w l mp e l' m,
  load_manifest L decompress pgp w l mp (Some e) false false = Ok (l', m) ->
  exists d, Verify.verify_path L w (pjoin rootdir mp) (Some e) None None = Ok (true, d).
Proof. intros. eapply load_manifest_verified. eassumption. Qed.
Print Assumptions C02_broken_link.
