(* C02 — sub-Manifests are trusted only through an unbroken hash chain from the top.
   Statements only; proofs in Proofs/Chain.v. *)
From Coq Require Import List NArith ZArith.
From Gemato Require Import Py.PyStr Py.PyPath Gen.Tables Model.Entry Model.Text Model.OpenPGP Model.Hash
  Model.FS Model.Verify Model.Loader.
From Gemato Require Import Exec.Oracles.
From Gemato Require Import Proofs.Chain Proofs.ReadSafe Proofs.ChainOps.
Import ListNotations.
Open Scope N_scope.

(* A freshly constructed loader holds only the top-level Manifest. *)
Theorem C02_initial : forall (L : hashlib) decompress pgp w top opts xdev l,
  new_loader L decompress pgp w top opts false xdev = Ok l ->
  Faithful decompress pgp w l /\ Accepted L decompress pgp w l.
Proof. exact new_loader_accepted. Qed.
Print Assumptions C02_initial.

(* Every loading round (any path, recursive or not, any number of rounds = any nesting depth)
   preserves: each loaded Manifest other than the top-level one is named by a MANIFEST entry in the
   file of a loaded Manifest, and its stored bytes (compressed or not) matched that entry's size and
   every listed checksum at the moment it was loaded, before anything of it was parsed. *)
Theorem C02_chain_invariant : forall (L : hashlib) decompress pgp w fuel l path rec l',
  Faithful decompress pgp w l -> Accepted L decompress pgp w l ->
  load_manifests_for_path L decompress pgp fuel w l path rec true = Ok l' ->
  Faithful decompress pgp w l' /\ Accepted L decompress pgp w l' /\ l_top l' = l_top l.
Proof. exact load_manifests_accepted. Qed.
Print Assumptions C02_chain_invariant.

(* a Manifest whose file does not match the vouching entry is never loaded: the mismatch is raised *)
Theorem C02_broken_link : forall (L : hashlib) decompress pgp w l mp e l' m,
  load_manifest L decompress pgp w l mp (Some e) false false = Ok (l', m) ->
  exists d, Verify.verify_path L w (pjoin rootdir mp) (Some e) None None = Ok (true, d).
Proof. intros. eapply load_manifest_verified. eassumption. Qed.
Print Assumptions C02_broken_link.

(* The consumers.  Any history of reading operations on one loader object (entry lookup, single-path verification,
   assert_path_verifies, DIST / TIMESTAMP lookup, directory verification with any handler) keeps the invariant ... *)
Theorem C02_reading_keeps_chain : forall (L : hashlib) decompress pgp w ops l l',
  Faithful decompress pgp w l /\ Accepted L decompress pgp w l ->
  run_rops L decompress pgp w l ops = Ok l' ->
  Faithful decompress pgp w l' /\ Accepted L decompress pgp w l'.
Proof. exact read_ops_inv. Qed.
Print Assumptions C02_reading_keeps_chain.

(* ... and what a lookup answers after such a history is an entry of a Manifest that is loaded - top-level or vouched for by
   a matching MANIFEST entry of a loaded Manifest - at that moment: no entry of an unvouched Manifest influences it. *)
Theorem C02_lookup_answers_from_accepted : forall (L : hashlib) decompress pgp w top opts xdev ops l0 l path l' e,
  new_loader L decompress pgp w top opts false xdev = Ok l0 ->
  run_rops L decompress pgp w l0 ops = Ok l ->
  find_path_entry_l L decompress pgp w l path = Ok (l', Some e) ->
  Accepted L decompress pgp w l' /\ from_loaded l' e.
Proof. exact lookup_after_history. Qed.
Print Assumptions C02_lookup_answers_from_accepted.

Theorem C02_dist_lookup_answers_from_accepted : forall (L : hashlib) decompress pgp w l f relpath l' e,
  Faithful decompress pgp w l /\ Accepted L decompress pgp w l ->
  find_dist_entry_l L decompress pgp w l f relpath = Ok (l', Some e) ->
  (Faithful decompress pgp w l' /\ Accepted L decompress pgp w l') /\ from_loaded l' e.
Proof. exact find_dist_entry_from_loaded. Qed.
Print Assumptions C02_dist_lookup_answers_from_accepted.

(* non-vacuity of C02_lookup_answers_from_accepted: a Manifest ('MANIFEST s/Manifest 9', the sub-Manifest 'DATA a 1'), the
   file s/a; after a directory verification the lookup of s/a answers with the entry of the vouched sub-Manifest *)
Definition ex_w : world :=
  mk_world 1 [(1, IDir 7 1 [([77;97;110;105;102;101;115;116], TIno 2); ([115], TIno 4)]);
              (2, IFile 7 0 22 [77;65;78;73;70;69;83;84;32;115;47;77;97;110;105;102;101;115;116;32;57;10]);
              (4, IDir 7 1 [([77;97;110;105;102;101;115;116], TIno 5); ([97], TIno 3)]);
              (5, IFile 7 0 9 [68;65;84;65;32;97;32;49;10]);
              (3, IFile 7 0 1 [120])] [] [].
Definition ex_L := table_hashlib [].
Definition ex_dec : list N -> list N -> res (list N) := fun _ _ => Err XBadCompressed.
Definition ex_pgp : list N -> res sigdata := fun _ => Err (XPGP PGPNoImpl).
Example C02_lookup_premises_satisfiable :
  exists l0 l l' e,
    new_loader ex_L ex_dec ex_pgp ex_w [77;97;110;105;102;101;115;116] (mk_opts None false None [] PDefault None None false) false true = Ok l0 /\
    run_rops ex_L ex_dec ex_pgp ex_w l0 [RVerifyDir [] PolThrow None] = Ok l /\
    find_path_entry_l ex_L ex_dec ex_pgp ex_w l [115;47;97] = Ok (l', Some e) /\ e = EFile TDATA [97] [] 1 [].
Proof.
  do 4 eexists. split; [vm_compute; reflexivity|]. split; [vm_compute; reflexivity|]. split; [vm_compute; reflexivity|reflexivity].
Qed.
