(* C08 — Manifest text round-trips: writer and parser are mutual inverses.
   Statements only; proofs are in Proofs/{Codec,IntStr,Lines,EntryRT,TimeRT,FileRT,ParsedWf}.v.
   The theorems are about the model (Model/Entry.v, Model/Text.v) over the tables that
   tools/py2v.py regenerates from gemato/manifest.py on every run. *)
From Coq Require Import List NArith ZArith.
From Gemato Require Import Py.PyStr Py.PyTime Gen.PyFacts Gen.Tables Model.Entry Model.Text.
From Gemato Require Import Proofs.Codec Proofs.IntStr Proofs.Lines Proofs.EntryRT Proofs.TimeRT Proofs.FileRT Proofs.ParsedWf.
Import ListNotations.
Open Scope N_scope.

(* every path over valid code points survives encode -> decode: escaping is total and injective *)
Theorem C08_path : forall p, Forall valid_cp p -> decode_path (encode_path p) = Ok p.
Proof. exact decode_encode. Qed.
Print Assumptions C08_path.

(* the escaped path contains no whitespace and no control character: it is one field of one line *)
Theorem C08_path_one_field : forall p x, In x (encode_path p) ->
  is_space x = false /\ 32 <= x /\ ~ (127 <= x <= 159).
Proof.
  intros p x H. split; [eapply encode_path_no_space; exact H|eapply encode_path_no_control; exact H].
Qed.
Print Assumptions C08_path_one_field.

(* sizes: int(str(n)) = n (CPython's 4300-digit limit is the only bound) *)
Theorem C08_size : forall z, (0 <= z)%Z -> (length (str_of_Z z) <= 4300)%nat ->
  py_int nd_starts (str_of_Z z) = Some z.
Proof. exact py_int_str_of_Z. Qed.
Print Assumptions C08_size.

(* timestamps: strptime(strftime(ts)) = ts for every valid datetime (years 1..9999) *)
Theorem C08_timestamp : forall d, dt_valid d = true -> strptime nd_starts (strftime d) = Some d.
Proof. exact strptime_strftime. Qed.
Print Assumptions C08_timestamp.

(* one entry: reading the written fields yields the entry (checksum dict in sorted order),
   every field is a non-empty whitespace-free word, the first one is the tag *)
Theorem C08_entry : forall e, wf_entry e ->
  exists l, to_list e = Ok l /\ from_list (e_tag e) l = Ok (norm e) /\
            Forall wf_word l /\ exists r, l = tag_str (e_tag e) :: r.
Proof.
  intros e H. apply (entry_roundtrip strptime_strftime e H).
  destruct e; [apply strftime_word|exact I..].
Qed.
Print Assumptions C08_entry.

(* whole files: load (dump es) = es, for any list of well-formed entries, any length *)
Theorem C08_file : forall es verify, Forall wf_entry es ->
  exists t, dump es false = Ok t /\ load t verify = Ok (map norm es, None).
Proof. exact (load_dump strptime_strftime). Qed.
Print Assumptions C08_file.

(* exactly one line per entry, fields separated by single spaces *)
Theorem C08_line_shape : forall es, Forall wf_entry es ->
  exists ls, length ls = length es /\ Forall (Forall wf_word) ls /\
             dump es false = Ok (concat (map (fun l => join [32] l ++ [nl]) ls)).
Proof. exact (dump_shape strptime_strftime). Qed.
Print Assumptions C08_line_shape.

(* every entry the parser returns is well-formed (the premise of the theorems above), for every text
   that is a Python str, i.e. a sequence of code points <= 0x10FFFF - surrogates included *)
Theorem C08_parsed_wf : forall t verify es o, Forall valid_cp t ->
  load t verify = Ok (es, o) -> Forall wf_entry es.
Proof. exact load_wf. Qed.
Print Assumptions C08_parsed_wf.

(* canonical fixed point: for every text the parser accepts, the written text is accepted again with
   equal entries (checksum dicts in the writer's order, an equal dict), and writing those entries
   gives the very same text *)
Theorem C08_fixpoint : forall t es o, Forall valid_cp t -> load t false = Ok (es, o) ->
  exists t', dump es false = Ok t' /\ load t' false = Ok (map norm es, None) /\
             dump (map norm es) false = Ok t'.
Proof. exact (load_dump_fixpoint strptime_strftime). Qed.
Print Assumptions C08_fixpoint.

(* non-vacuity of the fixed point: an accepted text with odd spacing, escapes, a signed size and
   unsorted checksums; its rewritten form differs from it and is a fixed point *)
Example C08_fixpoint_example :
  let t := [32;68;65;84;65;9;97;92;120;50;48;98;32;32;43;48;55;32;83;72;65;49;32;97;98;32;77;68;53;32;99;100;13;10] in
  match load t false with
  | Ok (es, _) => match dump es false with
                  | Ok t' => t' <> t /\ load t' false = Ok (map norm es, None) /\ dump (map norm es) false = Ok t'
                  | Err _ => False
                  end
  | Err _ => False
  end.
Proof. vm_compute. split; [discriminate|split; reflexivity]. Qed.

(* non-vacuity: a concrete entry list with escapes, a 2^64 size, AUX and TIMESTAMP entries is
   well-formed and round-trips by computation *)
Example C08_example :
  let es := [EFile TDATA [116;32;92;8192;233] [] 18446744073709551616%Z [([83;72;65;49], [97;98])];
             EFile TAUX [102;105;108;101;115;47;112;9] [112;9] 0%Z [];
             EIgn [46;120]; ETs (mkdt 1 1 1 0 0 0)] in
  match dump es false with
  | Ok t => load t false = Ok (map norm es, None)
  | Err _ => False
  end.
Proof. vm_compute. reflexivity. Qed.
