(* C11 - incremental update equals full update.  Statements only; proofs in Proofs/Incremental.v.
   PARTIAL: the per-entry rule is proved for all inputs; the lift to whole update histories, all time zones of
   the real CLI and "TIMESTAMP = start of the scan" are decided by the replica runs (tools/corr/p_c11.py). *)
From Coq Require Import List NArith ZArith Bool.
From Gemato Require Import Py.PyStr Py.PyPath Py.PyTime Gen.Tables Model.Entry Model.Hash Model.FS Model.Verify.
From Gemato Require Import Proofs.Incremental.
Import ListNotations.
Open Scope N_scope.

Theorem C11_incremental_cases : forall (L : hashlib) w path t p a esize ecks hashes dev lm,
  update_entry_for_path L w path (EFile t p a esize ecks) hashes dev (Some lm)
    = update_entry_for_path L w path (EFile t p a esize ecks) hashes dev None
  \/ (exists o st, gfm_open w path = Ok o /\ gfm_stat w path o = Ok st /\ st_type st = FTReg /\
        (st_mtime st <= lm)%Z /\ st_size st <> 0 /\ Z.of_N (st_size st) = esize /\
        update_entry_for_path L w path (EFile t p a esize ecks) hashes dev (Some lm) = Ok (false, esize, ecks)).
Proof. exact inc_cases. Qed.
Print Assumptions C11_incremental_cases.

Theorem C11_newer_is_full : forall (L : hashlib) w path t p a esize ecks hashes dev lm,
  (forall o st, gfm_open w path = Ok o -> gfm_stat w path o = Ok st -> (lm < st_mtime st)%Z) ->
  update_entry_for_path L w path (EFile t p a esize ecks) hashes dev (Some lm)
  = update_entry_for_path L w path (EFile t p a esize ecks) hashes dev None.
Proof. exact inc_newer_is_full. Qed.
Print Assumptions C11_newer_is_full.

Theorem C11_size_changed_is_full : forall (L : hashlib) w path t p a esize ecks hashes dev lm,
  (forall o st, gfm_open w path = Ok o -> gfm_stat w path o = Ok st -> Z.of_N (st_size st) <> esize) ->
  update_entry_for_path L w path (EFile t p a esize ecks) hashes dev (Some lm)
  = update_entry_for_path L w path (EFile t p a esize ecks) hashes dev None.
Proof. exact inc_size_changed_is_full. Qed.
Print Assumptions C11_size_changed_is_full.

Theorem C11_unchanged_is_full : forall (L : hashlib) w path t p a esize ecks hashes dev lm size' cks',
  update_entry_for_path L w path (EFile t p a esize ecks) (Some hashes) dev None = Ok (false, size', cks') ->
  update_entry_for_path L w path (EFile t p a esize ecks) (Some hashes) dev (Some lm) = Ok (false, size', cks').
Proof. exact inc_unchanged_is_full. Qed.
Print Assumptions C11_unchanged_is_full.

Theorem C11_timestamp_is_utc : utc_epoch (mkdt 1970 1 1 0 0 0) = 0%Z /\ utc_epoch (mkdt 2017 10 22 18 6 41) = 1508695601%Z.
Proof. exact utc_epoch_known. Qed.
Print Assumptions C11_timestamp_is_utc.
