(* Driver for the extracted model: one request per input line, one reply per output line.
   Wire syntax:  integer  |  [cp cp ...] (a string as code points)  |  ( x x ... ) (a list).
   Numbers are converted to/from the extracted Z by decimal arithmetic on the extracted
   operations themselves (no Extract Constant, no OCaml big integers). *)
open Model

let rec pos_of_int (i : int) : positive =
  if i = 1 then XH else if i land 1 = 0 then XO (pos_of_int (i lsr 1)) else XI (pos_of_int (i lsr 1))
let n_of_int (i : int) : n = if i = 0 then N0 else Npos (pos_of_int i)
let z_of_int (i : int) : z = if i = 0 then Z0 else if i > 0 then Zpos (pos_of_int i) else Zneg (pos_of_int (-i))
let rec int_of_pos (p : positive) : int =
  match p with XH -> 1 | XO q -> 2 * int_of_pos q | XI q -> 2 * int_of_pos q + 1
let int_of_n (x : n) : int = match x with N0 -> 0 | Npos p -> int_of_pos p

let z10 = z_of_int 10
(* decimal text -> Z, any length *)
let z_of_string (s : Stdlib.String.t) : z =
  let neg = String.length s > 0 && s.[0] = '-' in
  let acc = ref Z0 in
  String.iteri (fun i c ->
    if not (neg && i = 0) then
      acc := Z.add (Z.mul !acc z10) (z_of_int (Char.code c - 48))) s;
  if neg then Z.opp !acc else !acc
let string_of_z (x : z) : Stdlib.String.t =
  let b = Buffer.create 16 in
  List.iter (fun c -> Buffer.add_char b (Char.chr (int_of_n c))) (str_of_Z x);
  Buffer.contents b

(* tokenizer/parser *)
let parse (line : Stdlib.String.t) : sx =
  let len = String.length line in
  let pos = ref 0 in
  let skip () = while !pos < len && (line.[!pos] = ' ' || line.[!pos] = '\t' || line.[!pos] = '\r') do incr pos done in
  let number () =
    let st = !pos in
    if !pos < len && line.[!pos] = '-' then incr pos;
    while !pos < len && line.[!pos] >= '0' && line.[!pos] <= '9' do incr pos done;
    String.sub line st (!pos - st) in
  let rec value () : sx =
    skip ();
    if !pos >= len then failwith "unexpected end";
    match line.[!pos] with
    | '(' -> incr pos;
        let items = ref [] in
        let fin = ref false in
        while not !fin do
          skip ();
          if !pos >= len then failwith "unterminated list";
          if line.[!pos] = ')' then (incr pos; fin := true) else items := value () :: !items
        done;
        SL (List.rev !items)
    | '[' -> incr pos;
        let items = ref [] in
        let fin = ref false in
        while not !fin do
          skip ();
          if !pos >= len then failwith "unterminated string";
          if line.[!pos] = ']' then (incr pos; fin := true)
          else items := n_of_int (int_of_string (number ())) :: !items
        done;
        SS (List.rev !items)
    | _ -> let s = number () in if s = "" || s = "-" then failwith "bad token" else SN (z_of_string s)
  in value ()

let rec print (b : Buffer.t) (x : sx) : unit =
  match x with
  | SN z -> Buffer.add_string b (string_of_z z)
  | SS s -> Buffer.add_char b '[';
      List.iteri (fun i c -> if i > 0 then Buffer.add_char b ' '; Buffer.add_string b (string_of_int (int_of_n c))) s;
      Buffer.add_char b ']'
  | SL l -> Buffer.add_char b '(';
      List.iteri (fun i y -> if i > 0 then Buffer.add_char b ' '; print b y) l;
      Buffer.add_char b ')'

let () =
  let b = Buffer.create 65536 in
  (try
    while true do
      let line = input_line stdin in
      Buffer.clear b;
      (try print b (run (parse line))
       with Failure m -> Buffer.clear b; Buffer.add_string b ("!driver-error " ^ m)
          | Stack_overflow -> Buffer.clear b; Buffer.add_string b "!driver-error stack-overflow");
      print_string (Buffer.contents b); print_newline ()
    done
  with End_of_file -> ())
